"""Crafting bzip2 encoder (generator G2/G3 of DESIGN.md): every free choice of the
format is exposed, and exactly one defect from a catalogue can be planted.

All randomness comes from the rng object passed in (vlib.SplitMix)."""

MAGIC_BLOCK = 0x314159265359
MAGIC_EOS = 0x177245385090

RAND_TABLE = None  # filled lazily from the regenerated Coq table or decode.c


def crc32_bz(data, crc=0xFFFFFFFF):
    if len(data) > 64:
        return crc32_fast(data, crc)
    for b in data:
        crc ^= b << 24
        for _ in range(8):
            crc = ((crc << 1) ^ 0x04C11DB7) & 0xFFFFFFFF if crc & 0x80000000 else (crc << 1) & 0xFFFFFFFF
    return crc


class BW:
    def __init__(self):
        self.bits = []

    def put(self, n, v):
        for i in range(n - 1, -1, -1):
            self.bits.append((v >> i) & 1)

    def putbits(self, bs):
        self.bits.extend(bs)

    def align(self):
        self.bits += [0] * ((-len(self.bits)) % 8)

    def bytes(self):
        b = self.bits + [0] * ((-len(self.bits)) % 8)
        return bytes(int("".join(map(str, b[i:i + 8])), 2) for i in range(0, len(b), 8))


def rle1(data):
    out = []
    i = 0
    while i < len(data):
        j = i
        while j < len(data) and data[j] == data[i] and j - i < 259:
            j += 1
        n = j - i
        if n >= 4:
            out += [data[i]] * 4 + [n - 4]
        else:
            out += [data[i]] * n
        i = j
    return out


def unrle1(blk):
    out = []
    prev = -1
    cnt = 0
    i = 0
    while i < len(blk):
        c = blk[i]
        if cnt == 4:
            out += [prev] * c
            prev = -1
            cnt = 0
        else:
            cnt = cnt + 1 if c == prev else 1
            prev = c
            out.append(c)
        i += 1
    return out


def bwt(blk):
    n = len(blk)
    dbl = blk + blk
    rots = sorted(range(n), key=lambda i: dbl[i:i + n])
    return [blk[(i - 1) % n] for i in rots], rots.index(0), rots


def ibwt_column(col, idx):
    """what a decoder reconstructs from (last column, primary index): follow the stable-sort permutation n times"""
    n = len(col)
    order = sorted(range(n), key=lambda i: col[i])     # stable
    out = []
    j = idx
    for _ in range(n):
        j = order[j]
        out.append(col[j])
    return out


_CRC_TAB = None


def crc32_fast(data, crc=0xFFFFFFFF):
    global _CRC_TAB
    if _CRC_TAB is None:
        _CRC_TAB = []
        for i in range(256):
            c = i << 24
            for _ in range(8):
                c = ((c << 1) ^ 0x04C11DB7) & 0xFFFFFFFF if c & 0x80000000 else (c << 1) & 0xFFFFFFFF
            _CRC_TAB.append(c)
    for b in data:
        crc = ((crc << 8) & 0xFFFFFFFF) ^ _CRC_TAB[(crc >> 24) ^ b]
    return crc


def forge_crc_suffix(data, target_stored):
    """4 bytes to append to data so that the bzip2 block CRC (as stored: ~register) equals target_stored"""
    crc32_fast(b"")
    want = target_stored ^ 0xFFFFFFFF            # register value after the 4 appended bytes
    reg = crc32_fast(data)
    # run the register backwards over 4 unknown bytes: find top-byte table entries
    idx = []
    r = want
    for _ in range(4):
        low = r & 0xFF
        t = [i for i in range(256) if _CRC_TAB[i] & 0xFF == low][0]
        idx.append(t)
        r = ((r ^ _CRC_TAB[t]) >> 8) | 0  # previous register's low 24 bits (top byte unknown yet)
    # forward: choose bytes so that the table indices come out as required (idx reversed)
    out = []
    cur = reg
    for t in reversed(idx):
        b = (cur >> 24) ^ t
        out.append(b)
        cur = ((cur << 8) & 0xFFFFFFFF) ^ _CRC_TAB[t]
    assert cur == want, (hex(cur), hex(want))
    return bytes(out)


def mtfzrle(L):
    used = sorted(set(L))
    order = list(used)
    out = []
    run = 0

    def flush():
        nonlocal run
        while run > 0:
            run -= 1
            out.append(run & 1)
            run >>= 1
    for c in L:
        i = order.index(c)
        if i == 0:
            run += 1
            continue
        flush()
        out.append(i + 1)
        order.pop(i)
        order.insert(0, c)
    flush()
    eob = len(used) + 1
    out.append(eob)
    return out, used, eob + 1


def balanced_lengths(asz):
    k = asz.bit_length() - 1
    nshort = (2 << k) - asz
    return [k] * nshort + [k + 1] * (asz - nshort) if nshort < asz else [k] * asz


def random_complete_lengths(rng, asz, maxlen=20, skew=False):
    """A Kraft-complete length vector of size asz with lengths in 1..maxlen."""
    leaves = [0]
    while len(leaves) < asz:
        cands = [i for i, d in enumerate(leaves) if d < maxlen]
        if skew:
            i = max(cands, key=lambda i: leaves[i])
        else:
            i = rng.choice(cands)
        d = leaves.pop(i)
        leaves += [d + 1, d + 1]
    return rng.shuffle(leaves)


def canon(lens):
    codes = [0] * len(lens)
    code = 0
    for l in range(1, 21):
        for s, ls in enumerate(lens):
            if ls == l:
                codes[s] = code
                code += 1
        code <<= 1
    return codes


def delta_bits(lens, start=None, rng=None, zigzag=0):
    """5-bit start value + delta codes; optional random in-range zig-zags."""
    out = []
    cur = lens[0] if start is None else start
    for i in range(4, -1, -1):
        out.append((cur >> i) & 1)
    for l in lens:
        if rng is not None and zigzag and rng.chance(zigzag, 100):
            # wander inside 1..20 before settling
            for _ in range(rng.range(1, 4)):
                if cur < 20 and (cur <= 1 or rng.chance(1, 2)):
                    out += [1, 0]
                    cur += 1
                elif cur > 1:
                    out += [1, 1]
                    cur -= 1
        while cur < l:
            out += [1, 0]
            cur += 1
        while cur > l:
            out += [1, 1]
            cur -= 1
        out.append(0)
    return out


class Block:
    """Description of one block; fields may be overridden before emit()."""

    def __init__(self, data=None, rle_block=None):
        self.data = data
        self.rle_block = rle_block      # explicit post-RLE1 bytes (overrides data)
        self.rand = 0
        self.ntables = 2
        self.selectors = None           # list of table numbers per group (default: all 0)
        self.extra_selectors = 0        # surplus selector MTF values (unary "0")
        self.extra_selector_tokens = None  # explicit surplus tokens (lists of bits)
        self.lens = None                # list of length vectors per table
        self.delta = None               # per-table explicit bit lists for (start+deltas)
        self.crc_override = None
        self.idx_override = None
        self.nsel_override = None
        self.ntables_field = None
        self.drop_eob = False
        self.bitmap_empty = False
        self.zigzag = 0
        self.mv_override = None
        self.const_run = None           # (byte, n): a block whose BWT column is n copies of byte, built without sorting
        self.raw_col = None             # (column bytes, idx): an arbitrary "BWT column"; the plaintext is whatever it decodes to

    def emit(self, w, rng=None):
        if self.const_run is not None:
            c, n = self.const_run
            plain = unrle1([c] * n)
            crc = crc32_bz(plain) ^ 0xFFFFFFFF
            mv = []
            run = n
            while run > 0:
                run -= 1
                mv.append(run & 1)
                run >>= 1
            mv.append(2)
            self._emit_raw(w, crc, 0, [c], 3, mv, rng)
            return crc
        if self.raw_col is not None:
            col, idx = self.raw_col
            blk = ibwt_column(col, idx)
            if self.rand:
                blk = derand(blk)
            plain = unrle1(blk)
            self.data = bytes(plain)
            crc = crc32_bz(plain) ^ 0xFFFFFFFF
            mv, used, asz = mtfzrle(list(col))
            self._emit_raw(w, crc, idx, used, asz, mv, rng)
            return crc
        if self.rle_block is not None:
            blk = list(self.rle_block)
            plain = unrle1(blk)
        else:
            plain = list(self.data)
            blk = rle1(plain)
        crc = crc32_bz(plain) ^ 0xFFFFFFFF
        if self.rand:
            blk = derand(blk)
        L, idx, _ = bwt(blk)
        mv, used, asz = mtfzrle(L)
        if self.mv_override is not None:
            mv = self.mv_override(mv, asz)
        self._emit_raw(w, crc, idx, used, asz, mv, rng)
        return crc

    def _emit_raw(self, w, crc, idx, used, asz, mv, rng):
        if self.drop_eob:
            mv = mv[:-1]
        ngroups = (len(mv) + 49) // 50
        sels = self.selectors if self.selectors is not None else [0] * ngroups
        sels = (list(sels) + [0] * ngroups)[:ngroups]
        nt = self.ntables
        lens = self.lens if self.lens is not None else [balanced_lengths(asz) for _ in range(nt)]
        w.put(48, MAGIC_BLOCK)
        w.put(32, crc if self.crc_override is None else self.crc_override)
        w.put(1, self.rand)
        w.put(24, idx if self.idx_override is None else self.idx_override)
        big = 0
        small = [0] * 16
        if not self.bitmap_empty:
            for c in used:
                big |= 0x8000 >> (c >> 4)
                small[c >> 4] |= 0x8000 >> (c & 15)
        w.put(16, big)
        for i in range(16):
            if small[i]:
                w.put(16, small[i])
        w.put(3, nt if self.ntables_field is None else self.ntables_field)
        extra = self.extra_selector_tokens if self.extra_selector_tokens is not None else [[0]] * self.extra_selectors
        ns = ngroups + len(extra)
        w.put(15, ns if self.nsel_override is None else self.nsel_override)
        order = list(range(6))
        for s in sels:
            i = order.index(s)
            w.putbits([1] * i + [0])
            order.pop(i)
            order.insert(0, s)
        for t in extra:
            w.putbits(t)
        for t in range(nt):
            if self.delta is not None and self.delta[t] is not None:
                w.putbits(self.delta[t])
            else:
                w.putbits(delta_bits(lens[t], rng=rng, zigzag=self.zigzag))
        codes = [canon(l) for l in lens]
        for g in range(ngroups):
            t = sels[g]
            for m in mv[50 * g:50 * g + 50]:
                w.put(lens[t][m], codes[t][m])
        return crc


def derand(blk):
    t = rand_table()
    blk = list(blk)
    i = 0
    j = 617
    while j < len(blk):
        blk[j] ^= 1
        i = (i + 1) & 0x1FF
        j += t[i]
    return blk


def rand_table():
    global RAND_TABLE
    if RAND_TABLE is None:
        import os
        import re
        src = open(os.path.join(os.environ.get("VERIF_REPO", "/repo"), "tests", "minbzcat.c")).read()
        m = re.search(r"tab\[512\]\s*=\s*\{([^}]*)\}", src)
        RAND_TABLE = [int(x) for x in re.findall(r"\d+", m.group(1))]
    return RAND_TABLE


def stream(blocks, level=9, rng=None, crc_override=None, header=True, trailer=True):
    """bits of one stream (list of 0/1)"""
    w = BW()
    if header:
        w.put(24, 0x425A68)
        w.put(8, 0x30 + level)
    c = 0
    for b in blocks:
        bc = b.emit(w, rng)
        stored = bc if b.crc_override is None else b.crc_override
        c = (((c << 1) & 0xFFFFFFFF) | (c >> 31)) ^ stored
    if trailer:
        w.put(48, MAGIC_EOS)
        w.put(32, c if crc_override is None else crc_override)
    w.align()
    return w.bits


def to_bytes(bits):
    w = BW()
    w.bits = list(bits)
    return w.bytes()


# ---------------------------------------------------------------------------------------------
# generators
# ---------------------------------------------------------------------------------------------
def random_plain(rng, maxlen=400):
    kind = rng.below(8)
    n = rng.below(maxlen) + 1
    if kind == 0:
        return bytes([rng.below(256)]) * n
    if kind == 1:
        a = rng.below(3) + 1
        return bytes(rng.below(a) + 65 for _ in range(n))
    if kind == 2:
        out = []
        while len(out) < n:
            out += [rng.below(256)] * rng.choice([1, 2, 3, 4, 5, 6, 255, 258, 259, 260])
        return bytes(out[:n + 260])
    if kind == 3:
        u = bytes(rng.below(4) + 97 for _ in range(rng.below(5) + 1))
        return u * (n // len(u) + 1)
    if kind == 4:
        return bytes(range(256)) * (1 + rng.below(2)) if rng.chance(1, 4) else bytes(rng.below(256) for _ in range(n))
    if kind == 5:
        a, b = b"a", b"ab"
        while len(b) < n:
            a, b = b, b + a
        return b[:n]
    return bytes(rng.below(rng.choice([2, 16, 256])) for _ in range(n))


def valid_block(rng, maxlen=400):
    b = Block(random_plain(rng, maxlen))
    blk = rle1(list(b.data))
    L, idx, _ = bwt(blk)
    mv, used, asz = mtfzrle(L)
    ngroups = (len(mv) + 49) // 50
    b.ntables = rng.range(2, 6)
    b.selectors = [rng.below(b.ntables) for _ in range(ngroups)]
    style = rng.below(4)
    b.lens = []
    for t in range(b.ntables):
        if style == 0:
            b.lens.append(balanced_lengths(asz))
        elif style == 1:
            b.lens.append(random_complete_lengths(rng, asz))
        elif style == 2:
            b.lens.append(random_complete_lengths(rng, asz, skew=True))
        else:
            b.lens.append(random_complete_lengths(rng, asz, maxlen=rng.range(max(2, asz.bit_length()), 20)))
    b.zigzag = rng.choice([0, 0, 10, 40])
    if rng.chance(1, 4):
        b.extra_selectors = rng.choice([1, 2, 7, 50, 300])
    if rng.chance(1, 6):
        b.rand = 1
    return b


def valid_file(rng, maxlen=400):
    """bytes of a valid file and its plaintext; several blocks/streams, optional trailing garbage"""
    bits = []
    plain = b""
    for _ in range(rng.choice([1, 1, 1, 2, 3])):
        blocks = [valid_block(rng, maxlen) for _ in range(rng.choice([0, 1, 1, 1, 2, 3]))]
        level = rng.range(1, 9)
        bits += stream(blocks, level, rng)
        for b in blocks:
            plain += bytes(b.data)
    data = to_bytes(bits)
    kind = rng.below(8)
    if kind == 0:
        data += bytes(rng.below(256) for _ in range(rng.range(1, 6)))
    elif kind == 1:
        data += rng.choice([b"B", b"BZ", b"BZh", b"BZh0", b"BZhA", b"BZ\x00\x00", b"\x00\x00\x00", b"AZh9"])
    return data, plain


DEFECTS = [
    "start0", "start21", "start31", "exc_low", "exc_high", "exc_low3", "exc_high3", "sel_eq_ntrees", "nsel0",
    "ntrees0", "ntrees1", "ntrees7", "bitmap_empty", "incomplete_used", "incomplete_unused", "oversub_used",
    "oversub_unused", "no_eob", "overflow1", "idx_eq_n", "idx_big", "blkcrc", "strmcrc", "trunc", "runlen4",
    "bad_block_magic", "bad_eos_magic", "flipbit", "trailing_stream_trunc", "header_digit0", "short_file",
    "overflow_stream2", "header_digit_empty", "runwrap",
]


def runwrap_file(rng):
    """A block in which a zero run is written with 32 or 33 RUNA/RUNB symbols worth k * 2^32 + m (far beyond any block size);
    block and stream CRC are those of the data a decoder produces if it lets the 32-bit run counter wrap (run = m): the BWT
    column 01 00 .. 00 (m + 1 zeros) with primary index m + 1, i.e. the text 01 00^(m+1).  Optionally followed by a valid
    stream of more than 128 bytes, so that the crafted block is decoded with plenty of input left (fast path of retrieve())."""
    k, m = 1, rng.choice([1, 2])      # m + 1 <= 3 zeros (four equal bytes would need a count byte); 2^32 + m has 32 digits
    plain = bytes([1] + [0] * (m + 1))
    crc = crc32_bz(plain) ^ 0xFFFFFFFF
    w = BW()
    w.put(24, 0x425A68)
    w.put(8, 0x30 + rng.range(1, 9))
    w.put(48, MAGIC_BLOCK)
    w.put(32, crc)
    w.put(1, 0)
    w.put(24, m + 1)
    w.put(16, 0xFFFF)
    for i in range(256):
        w.put(1, 1 if i < 254 else 0)          # bytes 0..253 in use: 256 symbols, RUNA=0 RUNB=1 MTF p -> p+1, EOB=255
    w.put(3, 2)
    w.put(15, 1)
    w.put(1, 0)
    for _ in range(2):                          # both tables: every code 8 bits long (complete)
        w.put(5, 8)
        for _ in range(256):
            w.put(1, 0)
    w.put(8, 2)                                 # MTF position 1 -> byte 01
    w.put(8, 2)                                 # MTF position 1 -> byte 00 (one zero)
    n = k * (1 << 32) + m
    while n > 0:                                # bijective base-2 digits, least significant first
        d = 2 - (n & 1)
        w.put(8, d - 1)
        n = (n - d) // 2
    w.put(8, 255)
    w.put(48, MAGIC_EOS)
    w.put(32, crc)
    data = w.bytes()
    if rng.chance(7, 8):
        blocks = [valid_block(rng, 300) for _ in range(2)]
        tail = to_bytes(stream(blocks, rng.range(1, 9), rng))
        while len(tail) < 200:
            tail += to_bytes(stream([valid_block(rng, 300)], rng.range(1, 9), rng))
        data += tail
    return data


def one_defect(rng, kind=None, maxlen=300):
    """(file bytes, defect kind, expected_ref) with expected_ref 'reject' | 'accept' | None (unknown)"""
    kind = kind or rng.choice(DEFECTS)
    b = valid_block(rng, maxlen)
    b.rand = 0
    blk = rle1(list(b.data))
    L, idx, _ = bwt(blk)
    mv, used, asz = mtfzrle(L)
    level = rng.range(1, 9)
    expect = "reject"
    blocks = [b]
    post = None
    if kind in ("start0", "start21", "start31"):
        t = rng.below(b.ntables)
        lens = b.lens[t]
        start = {"start0": 0, "start21": 21, "start31": 31}[kind]
        bits = delta_bits(lens, start=start)
        b.delta = [None] * b.ntables
        b.delta[t] = bits
    elif kind in ("exc_low", "exc_high", "exc_low3", "exc_high3"):
        # make a table whose first length is 1 (or 20) and leave the range for one step
        t = rng.below(b.ntables)
        lo = kind.startswith("exc_low")
        lens = list(b.lens[t])
        pos = [i for i, l in enumerate(lens) if l == (min(lens) if lo else max(lens))][0]
        cur = lens[0]
        bits = [(cur >> i) & 1 for i in range(4, -1, -1)]
        for i, l in enumerate(lens):
            if i == pos:
                edge = 1 if lo else 20
                while cur < edge:
                    bits += [1, 0]
                    cur += 1
                while cur > edge:
                    bits += [1, 1]
                    cur -= 1
                n = 3 if kind.endswith("3") else 1
                bits += ([1, 1] if lo else [1, 0]) * n + ([1, 0] if lo else [1, 1]) * n
            while cur < l:
                bits += [1, 0]
                cur += 1
            while cur > l:
                bits += [1, 1]
                cur -= 1
            bits.append(0)
        b.delta = [None] * b.ntables
        b.delta[t] = bits
    elif kind == "sel_eq_ntrees":
        b.extra_selector_tokens = [[1] * b.ntables + [0]] if b.ntables < 6 else [[1] * 6]
        if b.ntables == 6:
            b.extra_selector_tokens = [[1, 1, 1, 1, 1, 1, 0]]
    elif kind == "nsel0":
        b.nsel_override = 0
    elif kind in ("ntrees0", "ntrees1", "ntrees7"):
        b.ntables_field = int(kind[-1])
    elif kind == "bitmap_empty":
        b.bitmap_empty = True
    elif kind in ("incomplete_used", "incomplete_unused", "oversub_used", "oversub_unused"):
        used_t = kind.endswith("_used") and not kind.endswith("unused")
        if asz < 4:
            return one_defect(rng, kind, maxlen)
        ngroups = (len(mv) + 49) // 50
        b.ntables = max(b.ntables, 2)
        while len(b.lens) < b.ntables:
            b.lens.append(balanced_lengths(asz))
        bad = b.ntables - 1
        lens = list(b.lens[bad])
        if kind.startswith("incomplete"):
            i = lens.index(max(lens))
            if lens[i] >= 20:
                return one_defect(rng, kind, maxlen)
            lens[i] += 1
            expect = None if used_t else "accept"
        else:
            i = lens.index(max(lens))
            lens[i] -= 1
            if lens[i] < 1:
                return one_defect(rng, kind, maxlen)
            expect = "reject" if used_t else "accept"
        b.lens[bad] = lens
        b.selectors = [bad if used_t else 0 for _ in range(ngroups)]
        if used_t and kind.startswith("incomplete"):
            # make sure the lengthened symbol is not used, so that the reference accepts
            expect = None
    elif kind == "no_eob":
        b.drop_eob = True
    elif kind == "overflow1":
        # a block of 100000*level + 1 equal bytes (one more than the declared size allows)
        level = rng.range(1, 3)
        b = Block()
        b.const_run = (rng.below(256), 100000 * level + 1)
        blocks = [b]
    elif kind == "overflow_stream2":
        # a later stream of a LOWER level whose block exceeds that stream's declared size (but not the first stream's)
        l1 = rng.range(3, 9)
        l2 = rng.range(1, l1 - 1)
        b2 = Block()
        b2.const_run = (rng.below(256), 100000 * l2 + rng.choice([1, 2, 1000]))
        bits = stream(blocks, l1, rng) + stream([b2], l2, rng)
        return to_bytes(bits), kind, "reject"
    elif kind == "idx_eq_n":
        b.idx_override = len(blk)
    elif kind == "idx_big":
        b.idx_override = rng.range(len(blk), 0xFFFFFF)
    elif kind == "blkcrc":
        b.crc_override = (crc32_bz(b.data) ^ 0xFFFFFFFF) ^ (1 << rng.below(32))
    elif kind == "strmcrc":
        bits = stream(blocks, level, rng, crc_override=((crc32_bz(b.data) ^ 0xFFFFFFFF) ^ (1 << rng.below(32))))
        return to_bytes(bits), kind, "reject"
    elif kind == "trunc":
        data = to_bytes(stream(blocks, level, rng))
        cut = rng.range(0, len(data) - 1)
        return data[:cut], kind, "reject"
    elif kind == "runlen4":
        c = rng.below(256)
        b = Block(rle_block=list(rng.bytes(rng.range(0, 20))) + [c ^ 1] + [c] * 4)
        blocks = [b]
        expect = "accept"   # the strict format accepts; lbzip2 rejects (documented exception)
    elif kind == "bad_block_magic":
        data = bytearray(to_bytes(stream(blocks, level, rng)))
        data[4 + rng.below(6)] ^= 1 << rng.below(8)
        return bytes(data), kind, "reject"
    elif kind == "bad_eos_magic":
        bits = stream(blocks, level, rng)
        # the trailer starts 80 bits before the (aligned) end minus padding; flip inside the last 10 bytes' magic part
        data = bytearray(to_bytes(bits))
        nb = len(data)
        data[nb - 10 + rng.below(5)] ^= 1 << rng.below(8)
        return bytes(data), kind, None
    elif kind == "flipbit":
        data = bytearray(to_bytes(stream(blocks, level, rng)))
        i = rng.below(len(data) * 8)
        data[i // 8] ^= 0x80 >> (i % 8)
        return bytes(data), kind, None
    elif kind == "trailing_stream_trunc":
        d1 = to_bytes(stream(blocks, level, rng))
        d2 = to_bytes(stream([valid_block(rng, 50)], rng.range(1, 9), rng))
        cut = rng.range(4, len(d2) - 1)
        return d1 + d2[:cut], kind, "reject"
    elif kind == "header_digit0":
        data = bytearray(to_bytes(stream(blocks, level, rng)))
        data[3] = rng.choice([0x30, 0x3A, 0x00, 0x41])
        return bytes(data), kind, "reject"
    elif kind == "header_digit_empty":
        # a first stream WITHOUT blocks whose level digit is not 1..9 (nothing but the 4-byte sniff of work() can reject it),
        # optionally followed by a valid stream
        data = bytearray(to_bytes(stream([], level, rng)))
        data[3] = rng.choice([0x30, 0x30, 0x30, 0x2F, 0x3A, 0x00, 0x41])
        if rng.chance(1, 2):
            data += to_bytes(stream(blocks, level, rng))
        return bytes(data), kind, "reject"
    elif kind == "runwrap":
        return runwrap_file(rng), kind, "reject"
    elif kind == "short_file":
        return rng.choice([b"", b"B", b"BZ", b"BZh", b"BZh9", b"BZh9\x17", b"BZh9\x17\x72\x45\x38\x50\x90\x00\x00\x00"]), kind, "reject"
    bits = stream(blocks, level, rng)
    return to_bytes(bits), kind, expect


def big_rand_file(rng, n=300000, level=9):
    """A conforming stream with one RANDOMISED block of n (post-RLE1) bytes: an arbitrary column over a 200-letter alphabet and a
    random origin pointer; the plaintext is whatever that decodes to (inverse BWT, de-randomisation, inverse RLE1).  More than
    278191 bytes make the 512-entry randomisation table wrap around."""
    while True:
        col = bytes(rng.below(200) for _ in range(n))
        idx = rng.below(n)
        b = Block()
        b.raw_col = (col, idx)
        b.rand = 1
        blk = derand(ibwt_column(col, idx))
        if len(set(blk[-4:])) > 1:            # a block ending in four equal bytes would need a count byte
            break
    bits = stream([b], level, rng)
    return to_bytes(bits), bytes(b.data)


def dense20_file(rng, nsyms=60000, level=9):
    """A conforming stream in which (almost) every symbol of every group has a 20-bit code:
    alphabet of 141 symbols with lengths 1..13 and 128 x 20 (Kraft-complete), BWT column cycling
    through 139 byte values so that every MTF position is the last one.  Returns (bytes, plaintext)."""
    k = 139
    first = Block(random_plain(rng, rng.range(1, 120)))          # shifts the bit offset of what follows
    col = [(i % k) for i in range(nsyms)]
    b = Block()
    b.raw_col = (col, rng.below(nsyms))
    b.ntables = 2
    lens = list(range(1, 14)) + [20] * 128
    assert sum(1 << (20 - l) for l in lens) == 1 << 20 and len(lens) == k + 2
    b.lens = [lens, rng.shuffle(lens)[:0] + lens]
    b.selectors = None
    bits = stream([first, b], level, rng)
    return to_bytes(bits), bytes(first.data) + bytes(b.data)
