/* In-process harness for the block encoder: collect() -> encode() -> transmit() on one
   buffer, dumping the choices made by generate_prefix_code() (the "witness") and the
   bytes written.  Input lines: "<M> <hex input bytes>".  Output: one line of key=value. */
#include "encode.c"
#include <stdio.h>

static char line[1 << 22];

static void hexdump(const char *k, const unsigned char *p, size_t n)
{
  size_t i;
  printf(" %s=", k);
  if (n == 0) putchar('-');
  for (i = 0; i < n; i++) printf("%02x", p[i]);
}

int main(void)
{
  while (fgets(line, sizeof line, stdin)) {
    char *ms = strtok(line, " \n"), *hx = strtok(NULL, " \n");
    unsigned long M;
    size_t n, i, left;
    unsigned char *in;
    struct encoder_state *e;
    uint32_t crc;
    size_t sz;
    unsigned char *out;
    uint8_t *block;
    uint16_t *mtfv;
    unsigned as, t, ns;

    if (!ms || !hx) { puts("BADLINE"); continue; }
    if (!strcmp(ms, "P")) {
      /* "P <comma separated MTF symbols ending in EOB>": generate_prefix_code() alone */
      size_t cnt = 1, k = 0;
      char *q;
      for (q = hx; *q; q++) cnt += *q == ',';
      e = malloc(encoder_alloc_size(900000));
      encoder_init(e, 900000, CLUSTER_FACTOR);
      mtfv = (void *)e->SA;
      for (q = strtok(hx, ","); q; q = strtok(NULL, ",")) mtfv[k++] = (uint16_t)strtoul(q, NULL, 10);
      e->nmtf = k;
      as = mtfv[k - 1] + 1;
      memset(e->u.s.code[0], 0, sizeof(e->u.s.code[0]));   /* do_mtf() leaves the symbol frequencies here */
      for (i = 0; i < k; i++) e->u.s.code[0][mtfv[i]]++;
      (void)generate_prefix_code(e);
      ns = (e->nmtf + GROUP_SIZE - 1) / GROUP_SIZE;
      printf("OK nmtf=%u as=%u nt=%u", e->nmtf, as, e->u.s.num_trees);
      printf(" mtfv=");
      for (i = 0; i < e->nmtf; i++) printf("%s%u", i ? "," : "", mtfv[i]);
      printf(" sels=");
      for (i = 0; i < ns; i++) printf("%s%u", i ? "," : "", e->u.s.tmap_old2new[e->u.s.selector[i]]);
      for (t = 0; t < e->u.s.num_trees; t++) {
        uint8_t *len = e->u.s.length[e->u.s.tmap_new2old[t]];
        printf(" len%u=", t);
        for (i = 0; i < as; i++) printf("%s%u", i ? "," : "", len[i]);
      }
      putchar('\n');
      free(e);
      continue;
    }
    M = strtoul(ms, NULL, 10);
    n = strcmp(hx, "-") ? strlen(hx) / 2 : 0;
    in = malloc(n + 1);
    for (i = 0; i < n; i++) { unsigned b; sscanf(hx + 2 * i, "%2x", &b); in[i] = b; }
    e = malloc(encoder_alloc_size(M));
    encoder_init(e, M, CLUSTER_FACTOR);
    left = n;
    collect(e, in, &left);
    if (e->nblock == 0 && e->rle_state < 4) { printf("EMPTY consumed=%zu\n", n - left); free(e); free(in); continue; }
    sz = encode(e, &crc);
    block = (void *)(e->SA + e->max_block_size + GROUP_SIZE);
    mtfv = (void *)e->SA;
    as = mtfv[e->nmtf - 1] + 1;
    ns = (e->nmtf + GROUP_SIZE - 1) / GROUP_SIZE;
    printf("OK consumed=%zu nblock=%u idx=%u nmtf=%u as=%u nt=%u nsel=%u pad=%u crc=%u size=%zu",
           n - left, e->nblock, e->bwt_idx, e->nmtf, as, e->u.s.num_trees, e->u.s.num_selectors,
           e->u.s.tree_pad, (unsigned)(e->block_crc ^ 0xFFFFFFFFu), sz);
    hexdump("blk", block, e->nblock);
    printf(" mtfv=");
    for (i = 0; i < e->nmtf; i++) printf("%s%u", i ? "," : "", mtfv[i]);
    printf(" sels=");
    for (i = 0; i < ns; i++) printf("%s%u", i ? "," : "", e->u.s.tmap_old2new[e->u.s.selector[i]]);
    printf(" selmtf=");
    for (i = 0; i < e->u.s.num_selectors; i++) printf("%s%u", i ? "," : "", e->u.s.selectorMTF[i]);
    for (t = 0; t < e->u.s.num_trees; t++) {
      uint8_t *len = e->u.s.length[e->u.s.tmap_new2old[t]];
      printf(" len%u=", t);
      for (i = 0; i < as; i++) printf("%s%u", i ? "," : "", len[i]);
    }
    out = malloc((sz + 3) / 4 * 4 + 8);
    transmit(e, out);
    hexdump("out", out, sz);
    putchar('\n');
    free(out); free(e); free(in);
  }
  return 0;
}
