/* In-process harness for scan() (src/parse.c): same line protocol as scan_driver.ml */
#include "common.h"
#include "decode.h"
#include <stdio.h>
#include <string.h>
#include <arpa/inet.h>

static char line[1 << 20];

int main(void)
{
  while (fgets(line, sizeof line, stdin)) {
    char *l = strtok(line, " \n"), *d = strtok(NULL, " \n"), *sk = strtok(NULL, " \n");
    struct bitstream bs;
    uint32_t *words;
    size_t nw = 0, i;
    unsigned skip;
    int rv;

    if (!l || !d || !sk) { puts("BADLINE"); continue; }
    skip = (unsigned)strtoul(sk, NULL, 10);
    memset(&bs, 0, sizeof bs);
    bs.live = 0; bs.buff = 0;
    if (strcmp(l, "-")) {
      size_t n = strlen(l);
      for (i = 0; i < n; i++)
        if (l[i] == '1') bs.buff |= (uint64_t)1 << (63 - i);
      bs.live = n;
    }
    if (strcmp(d, "-")) nw = strlen(d) / 8;
    words = malloc((nw + 1) * 4);
    for (i = 0; i < nw; i++) {
      unsigned b[4], k;
      for (k = 0; k < 4; k++) sscanf(d + 8 * i + 2 * k, "%2x", &b[k]);
      ((unsigned char *)&words[i])[0] = b[0];
      ((unsigned char *)&words[i])[1] = b[1];
      ((unsigned char *)&words[i])[2] = b[2];
      ((unsigned char *)&words[i])[3] = b[3];
    }
    bs.data = words; bs.limit = words + nw; bs.eof = 0; bs.block = NULL;
    rv = scan(&bs, skip);
    fputs(rv == OK ? "OK " : rv == MORE ? "MORE " : "OTHER ", stdout);
    if (bs.live == 0) putchar('-');
    for (i = 0; i < bs.live; i++) putchar((bs.buff >> (63 - i)) & 1 ? '1' : '0');
    printf(" %ld\n", (long)(bs.limit - bs.data));
    /* bits below `live' must be zero (bit-buffer invariant) */
    if (bs.live < 64 && (bs.buff << bs.live) != 0) puts("DIRTYBUFF");
    free(words);
  }
  return 0;
}
