(* Replayer for scheduler traces of `lbzip2 -d` (hook H3) through the extracted
   SchedX model.  One command per line on stdin (produced by
   checks/schedx_part.py from consecutive trace records), one answer line per
   command on stdout:
   Every line is `alt1 | alt2 | ... || expected observation`: the alternatives are
   tried in order on the current state; the first whose step is defined and whose
   observable state equals the expectation is committed (answer `OK`), otherwise
   the answer is `MISMATCH ...` and the rest of the run is skipped.
     I n tin tout ultra
     IN size missing | EOF | WR
     P0 t | P1 t M|F|E|K bit off [a b]     (K: a=bs100k b=crc; F: a=garbage; E: a=code)
     R0 t basebit curbit curoff | R1 t rv bit off | R2 t
     E0 t | E1 t rv size crc blksz | RO t
     S0 t | S1 t found bit off
     CS task | CW | CX | CF                -> CHK 0|1   (selects / idle_ok / can_terminate / final)
   The per-thread continuation (which job a worker holds between two segments)
   is kept here; it is the head of x_running after the event that created it. *)
open Schedx_model

let rec pos_of_int n = if n = 1 then XH else if n land 1 = 0 then XO (pos_of_int (n lsr 1)) else XI (pos_of_int (n lsr 1))
let n_of_int n = if n = 0 then N0 else Npos (pos_of_int n)
let rec int_of_pos = function XH -> 1 | XO p -> 2 * int_of_pos p | XI p -> 2 * int_of_pos p + 1
let int_of_n = function N0 -> 0 | Npos p -> int_of_pos p
let ni = int_of_n
let b2i b = if b then 1 else 0

let obs (st : xstate) : string =
  let buf = Buffer.create 256 in
  let p = Printf.bprintf in
  let srt l = String.concat "," (List.sort compare l) in
  p buf "head=%d tail=%d ptok=%d pdone=%d pbit=%d poffs=%d roffs=%d eofm=%d" (ni st.x_head_offs) (ni st.x_tail_offs)
    (b2i st.x_parse_token) (b2i st.x_parsing_done) (ni st.x_parser_bs.d_bit) (ni st.x_parser_bs.d_off)
    (ni st.x_reord_offs) (ni st.x_eof_missing);
  p buf " inq=%s" (String.concat "," (List.map (fun b -> Printf.sprintf "%d/%d/%d" (ni b.ib_off) (ni b.ib_size) (ni b.ib_ref)) st.x_input_q));
  p buf " scan=%s" (srt (List.map (fun s -> Printf.sprintf "%012d/%d" (ni s.d_bit) (ni s.d_off)) st.x_scan_q));
  let flag (j : rjob) = match j.r_link with
    | None -> "m"
    | Some id -> (match get_unord id st.x_unords with
        | Some u -> if u.u_complete then (if u.u_legit then "cl" else "cn") else "s"
        | None -> "?") in
  p buf " retr=%s" (srt (List.map (fun (j : rjob) -> Printf.sprintf "%012d/%012d/%d/%s" (ni (fst j.r_base)) (ni j.r_cur.d_bit) (ni j.r_cur.d_off) (flag j)) st.x_retr_q));
  p buf " emit=%s" (srt (List.map (fun (e : ejob) -> Printf.sprintf "%012d.%d/%d" (ni (fst e.e_base)) (ni (snd e.e_base)) (ni e.e_status)) st.x_emit_q));
  p buf " reord=%s" (srt (List.map (fun (o : oblk) -> Printf.sprintf "%012d.%d/%d/%d" (ni (fst o.o_base)) (ni (snd o.o_base)) (ni o.o_status) (ni o.o_size)) st.x_reord_q));
  p buf " order=%s" (String.concat "," (List.map (fun (h : head) -> Printf.sprintf "%012d.%d" (ni (fst h.h_base)) (ni (snd h.h_base))) st.x_order_q));
  p buf " unord=%s" (srt (List.map (fun (u : unord) -> Printf.sprintf "%012d/%d/%d" (ni (fst u.u_base)) (b2i u.u_complete) (ni u.u_end.d_off)) (unord_q st)));
  p buf " eof=%d wu=%d os=%d" (b2i st.x_eof) (ni st.x_work_units) (ni st.x_out_slots);
  p buf " bad=%d failed=%s nrun=%d nun=%d nz=%d ins=%d" (b2i st.x_bad_attach)
    (match st.x_failed with None -> "-" | Some c -> string_of_int (ni c)) (List.length st.x_running)
    (List.length st.x_unords) (List.length st.x_zombies) (ni st.x_in_slots);
  Buffer.contents buf


let st = ref (init_state N0 N0 N0 false)
let conts : (int, cont) Hashtbl.t = Hashtbl.create 16
let dead = ref false
let hyp_broken : string option ref = ref None
let nsteps = ref 0

let find_sub (sep : string) (s : string) (from : int) : int option =
  let n = String.length s and m = String.length sep in
  let rec go i = if i + m > n then None else if String.sub s i m = sep then Some i else go (i + 1) in
  go from

let obs_pub s = let o = obs s in
  match find_sub " bad=" o 0 with Some k -> String.sub o 0 k | None -> o

let task_of = function
  | "reorder" -> TReorder | "parse" -> TParse | "emit" -> TEmit | "retrieve" -> TRetrieve | "scan" -> TScan
  | s -> failwith ("task " ^ s)

(* result of trying one alternative: new state and what to do with the thread's continuation *)
type contact = Keep | Set of int | Clear of int | SetIfSame of int

let try_alt (w : string list) : (xstate * contact) option =
  let i k = int_of_string (List.nth w k) in
  let n k = n_of_int (i k) in
  let s = !st in
  let ev e c = match step gen_cfg s e with Some s' -> Some (s', c) | None -> None in
  match w with
  | "IN" :: _ -> ev (EvInput (n 1, n 2)) Keep
  | "EOF" :: _ -> ev EvEof Keep
  | "WR" :: _ -> ev EvWritten Keep
  | "P0" :: _ -> ev EvParse0 (Set (i 1))
  | "P1" :: _ ->
    (match Hashtbl.find_opt conts (i 1) with
     | Some (CParse att) ->
       let bs = { d_bit = n 3; d_off = n 4 } in
       let r = match List.nth w 2 with
         | "M" -> PMore (bs, N0) | "F" -> PFinish (bs, n 5) | "E" -> PErr (bs, n 5)
         | _ -> POk (bs, N0, n 5, n 6) in
       (* label hypothesis ev_prog (SchedX/XOwn.v): a confirmed block starts >= HDR_MIN = 32 bits after the one confirmed before it *)
       (match r with
        | POk _ when ni bs.d_bit < ni s.x_next + 32 ->
          hyp_broken := Some (Printf.sprintf "ev_prog: parse OK at bit %d, the block confirmed before it is at bit %d" (ni bs.d_bit) (ni s.x_next)); None
        (* label hypothesis ev_term (SchedX/XLiveTerm.v): a parser call that returns MORE has consumed at least one bit *)
        | PMore _ when ni bs.d_bit <= ni s.x_parser_bs.d_bit ->
          hyp_broken := Some (Printf.sprintf "ev_term: parse MORE at bit %d, parser was at bit %d" (ni bs.d_bit) (ni s.x_parser_bs.d_bit)); None
        | _ -> ev (EvParse1 (att, r)) (Clear (i 1)))
     | _ -> None)
  | "R0" :: _ ->
    let cands = List.filter (fun (j : rjob) -> ni (fst j.r_base) = i 2 && ni j.r_cur.d_bit = i 3 && ni j.r_cur.d_off = i 4) s.x_retr_q in
    (match cands with j :: _ -> ev (EvRetr0 j) (Set (i 1)) | [] -> None)
  | "R1" :: _ ->
    (match Hashtbl.find_opt conts (i 1) with
     | Some (CRetr (j, att)) ->
       let cur = if i 4 < 0 then (let e = att_end att s in { d_bit = n_of_int (32 * ni e); d_off = e })
                 else { d_bit = n 3; d_off = n 4 } in
       ev (EvRetr1 (j, att, n 2, cur)) (SetIfSame (i 1))
     | _ -> None)
  | "R2" :: _ ->
    (match Hashtbl.find_opt conts (i 1) with
     | Some (CRetr2 e) -> ev (EvRetr2 e) (Clear (i 1))
     | _ -> None)
  | "E0" :: _ -> ev EvEmit0 (Set (i 1))
  | "E1" :: _ ->
    (match Hashtbl.find_opt conts (i 1) with
     | Some (CEmit e) -> ev (EvEmit1 (e, n 2, n 3, n 4, n 5)) (Clear (i 1))
     | _ -> None)
  | "RO" :: _ -> ev EvReorder Keep
  | "S0" :: _ -> ev EvScan0 (Set (i 1))
  | "S1" :: _ ->
    (match Hashtbl.find_opt conts (i 1) with
     | Some (CScan (sc, att)) ->
       let s' = { d_bit = n 3; d_off = n 4 } in
       let more = ni s'.d_off < ni (att_end att s) in
       (* label hypotheses ev_scan_prog / ev_fresh (SchedX/XLiveDefs.v): a scan that finds a magic ends strictly after
          the position it started from, and never reports the base of a candidate that is still queued *)
       if i 2 <> 0 && ni s'.d_bit <= ni sc.d_bit then begin
         hyp_broken := Some (Printf.sprintf "ev_scan_prog: scan from bit %d reports a magic ending at bit %d" (ni sc.d_bit) (ni s'.d_bit)); None end
       else if i 2 <> 0 && List.exists (fun (u : unord) -> ni (fst u.u_base) = ni s'.d_bit) (unord_q s) then begin
         hyp_broken := Some (Printf.sprintf "ev_fresh: scan reports bit %d, which is the base of a queued candidate" (ni s'.d_bit)); None end
       else ev (EvScan1 (sc, att, i 2 <> 0, s', more)) (Clear (i 1))
     | _ -> None)
  | "CS" :: t :: _ -> if selects (task_of t) s then Some (s, Keep) else None
  | "CW" :: _ -> if idle_ok s then Some (s, Keep) else None
  | "CX" :: _ -> if can_terminate s then Some (s, Keep) else None
  | "CAPS" :: _ -> Some (s, Keep)
  | _ -> None

let words l = List.filter (fun s -> s <> "") (String.split_on_char ' ' (String.trim l))

let split_on (sep : string) (s : string) : string list =
  let m = String.length sep in
  let rec go from acc =
    match find_sub sep s from with
    | Some k -> go (k + m) (String.sub s from (k - from) :: acc)
    | None -> List.rev (String.sub s from (String.length s - from) :: acc) in
  go 0 []

let caps_str (s : xstate) =
  let a = s.x_total_in and b = s.x_num_worker and c = s.x_total_out in
  Printf.sprintf "%d,%d,%d,%d,%d,%d,%d" (ni (cap_input_q a b c)) (ni (cap_scan_q a b c)) (ni (cap_retr_q a b c))
    (ni (cap_emit_q a b c)) (ni (cap_unord_q a b c)) (ni (cap_order_q a b c)) (ni (cap_reord_q a b c))

let () =
  try
    while true do
      let line = input_line stdin in
      (try
        let w = words line in
        match w with
        | "I" :: _ ->
          let i k = int_of_string (List.nth w k) in
          st := init_state (n_of_int (i 1)) (n_of_int (i 2)) (n_of_int (i 3)) (i 4 <> 0);
          Hashtbl.reset conts; dead := false; nsteps := 0;
          print_endline "OK init"
        | "CF" :: _ -> Printf.printf "FINAL %d steps=%d %s\n" (b2i (final !st)) !nsteps (obs !st)
        | "ANOM" :: _ -> print_endline ("MISMATCH anomaly in trace record: " ^ line)
        | "DERIVE" :: _ -> dead := true; print_endline ("MISMATCH cannot derive an event: " ^ line)
        | [] -> print_endline "EMPTY"
        | _ when !dead -> print_endline "SKIP"
        | _ ->
          (match split_on " || " line with
           | [alts; expected] ->
             let alts = split_on " | " alts in
             let expected = String.trim expected in
             let first_got = ref "no alternative has a defined step" in
             hyp_broken := None;
             let rec go = function
               | [] ->
                 dead := true;
                 (match !hyp_broken with
                  | Some m -> print_endline ("MISMATCH label hypothesis of the SchedX theorems violated by the trace after " ^ string_of_int !nsteps ^ " steps at `" ^ String.trim (List.hd alts) ^ "`: " ^ m ^ " :: before: " ^ obs !st)
                  | None ->
                 print_endline ("MISMATCH after " ^ string_of_int !nsteps ^ " steps at `" ^ String.trim (List.hd alts) ^ "`: model: " ^ !first_got ^ " :: trace: " ^ expected ^ " :: before: " ^ obs !st))
               | a :: rest ->
                 let aw = words a in
                 (match (try try_alt aw with Failure _ | Invalid_argument _ | Not_found -> None) with
                  | Some (s', c) ->
                    let o = if List.hd aw = "CAPS" then caps_str s' else obs_pub s' in
                    if o = expected then begin
                      let oldlen = List.length !st.x_running in
                      st := s'; incr nsteps;
                      (match c with
                       | Keep -> ()
                       | Set t -> (match s'.x_running with x :: _ -> Hashtbl.replace conts t x | [] -> ())
                       | Clear t -> Hashtbl.remove conts t
                       | SetIfSame t ->
                         (match s'.x_running with
                          | (CRetr2 _ as x) :: _ when List.length s'.x_running = oldlen -> Hashtbl.replace conts t x
                          | _ -> Hashtbl.remove conts t));
                      print_endline "OK"
                    end else begin
                      if !first_got = "no alternative has a defined step" then first_got := o;
                      go rest
                    end
                  | None -> go rest)
             in go alts
           | _ -> print_endline "BADLINE")
      with Failure m | Invalid_argument m -> print_endline ("MISMATCH exn " ^ m))
    done
  with End_of_file -> ()
