(* Driver for the extracted model of generate_prefix_code() (coq/Enc/GenModel.v).
   Same input and output format as harness/gen_h.c:
     G <cluster_factor> <s0,...,EOB>  ->  OK nm= as= nt= cost= old= sels= n2o= len0= len1= ...
     M <f0,f1,...>                    ->  LEN <csv>
   An error value of the model is printed as "ERR <what>". *)
open Gen_model

let rec pos_of_int n = if n = 1 then XH else if n land 1 = 0 then XO (pos_of_int (n lsr 1)) else XI (pos_of_int (n lsr 1))
let n_of_int n = if n = 0 then N0 else Npos (pos_of_int n)
let rec int_of_pos = function XH -> 1 | XO p -> 2 * int_of_pos p | XI p -> 2 * int_of_pos p + 1
let rec bits_of_pos = function XH -> 1 | XO p | XI p -> 1 + bits_of_pos p
let dec_of_n = function
  | N0 -> "0"
  | Npos p -> if bits_of_pos p > 62 then "TOOBIG" else string_of_int (int_of_pos p)

let arr_name = function
  | ALeaf -> "leaf_weight" | ATree -> "tree" | ARow -> "tree-row" | APkg -> "pkg_weight" | APrev -> "prev_weight"
  | ACurr -> "curr_weight" | ACount -> "count" | ALength -> "length" | AFreq -> "frequency"
let pm_err_name = function
  | OobRead a -> "oob-read-" ^ arr_name a
  | OobWrite a -> "oob-write-" ^ arr_name a
  | Underflow id -> "underflow-" ^ dec_of_n id
  | AssertFail id -> "assert-" ^ dec_of_n id
  | OutOfFuel -> "out-of-fuel"
let mcl_err_name = function
  | MOob id -> "oob-" ^ dec_of_n id
  | MUnderflow id -> "underflow-" ^ dec_of_n id
  | MAssert id -> "assert-" ^ dec_of_n id
let err_name = function
  | GOob id -> "oob-" ^ dec_of_n id
  | GAssert id -> "assert-" ^ dec_of_n id
  | GUnset id -> "unset-" ^ dec_of_n id
  | GPm e -> "assign_codes-" ^ pm_err_name e
  | GMcl e -> "make_code_lengths-" ^ mcl_err_name e

let csv l =
  let b = Buffer.create 1024 in
  List.iteri (fun i x -> if i > 0 then Buffer.add_char b ','; Buffer.add_string b (dec_of_n x)) l;
  Buffer.contents b

(* tail-recursive parse of a csv of non-negative integers *)
let parse_csv s =
  let n = String.length s in
  let rec go i cur have acc =
    if i = n then List.rev (if have then n_of_int cur :: acc else acc)
    else match s.[i] with
      | ',' -> go (i + 1) 0 false (if have then n_of_int cur :: acc else acc)
      | '0' .. '9' as c -> go (i + 1) (cur * 10 + Char.code c - 48) true acc
      | _ -> go (i + 1) cur have acc in
  go 0 0 false []

let () =
  Printf.printf "CONST MT=%s GS=%s MHCL=%s MINA=%s MAXA=%s SEL=%s\n" (dec_of_n mAX_TREES) (dec_of_n gROUP_SIZE)
    (dec_of_n mAX_HUFF_CODE_LENGTH) (dec_of_n mIN_ALPHA_SIZE) (dec_of_n mAX_ALPHA_SIZE) (dec_of_n enc_selector_size);
  flush stdout;
  try
    while true do
      let line = input_line stdin in
      (match List.filter (fun s -> s <> "") (String.split_on_char ' ' (String.trim line)) with
       | ["G"; cfs; vs] ->
         let v = parse_csv vs in
         if List.length v < 2 then print_endline "BADLINE" else
           (match gen_prefix_code (n_of_int (int_of_string cfs)) v with
            | GOk r ->
              let asz = match List.rev v with x :: _ -> 1 + (match x with N0 -> 0 | Npos p -> int_of_pos p) | [] -> 0 in
              Printf.printf "OK nm=%d as=%d nt=%s cost=%s old=%s sels=%s n2o=%s" (List.length v) asz
                (dec_of_n r.g_num_trees) (dec_of_n r.g_cost) (csv r.g_sels_old) (csv r.g_sels) (csv r.g_n2o);
              List.iteri (fun i t -> Printf.printf " len%d=%s" i (csv t)) r.g_tables;
              print_newline ()
            | GErr e -> Printf.printf "ERR %s\n" (err_name e))
       | ["M"; vs] ->
         let f = parse_csv vs in
         (match make_code_lengths (List.map (fun _ -> N0) f) f with
          | GOk l -> Printf.printf "LEN %s\n" (csv l)
          | GErr e -> Printf.printf "ERR %s\n" (err_name e))
       | _ -> print_endline "BADLINE");
      flush stdout
    done
  with End_of_file -> ()
