(* Driver for the extracted -cdf pipeline model (Copy.cstep).
   stdin: one case per line:  <force 0|1> <stdout 0|1> <sched seed> <hex bytes or -> <frag sizes comma-separated or ->
   stdout: one line: <COPY|DECOMPRESS|FAIL|STUCK> <exit> <raised> <hex of bytes written> <steps>
   The threads are scheduled pseudo-randomly from the seed; every enabled thread may
   be chosen (the theorems say the result does not depend on the choice). *)
open Copy_model

let rec pos_of_int n = if n = 1 then XH else if n land 1 = 0 then XO (pos_of_int (n lsr 1)) else XI (pos_of_int (n lsr 1))
let n_of_int n = if n = 0 then N0 else Npos (pos_of_int n)
let rec nat_of_int n = if n = 0 then O else S (nat_of_int (n - 1))
let rec int_of_nat = function O -> 0 | S m -> 1 + int_of_nat m
let rec int_of_pos = function XH -> 1 | XO p -> 2 * int_of_pos p | XI p -> 2 * int_of_pos p + 1
let int_of_n = function N0 -> 0 | Npos p -> int_of_pos p

let bytes_of_hex s =
  if s = "-" then [] else List.init (String.length s / 2) (fun i -> n_of_int (int_of_string ("0x" ^ String.sub s (2 * i) 2)))
let hex_of_bytes l =
  if l = [] then "-" else String.concat "" (List.map (fun b -> Printf.sprintf "%02x" (int_of_n b)) l)

let () =
  try
    while true do
      let line = String.trim (input_line stdin) in
      match String.split_on_char ' ' line with
      | [f; o; seed; hex; frag] ->
        let frags = if frag = "-" then [] else List.map (fun x -> nat_of_int (int_of_string x)) (String.split_on_char ',' frag) in
        let s = ref (cinit (f = "1") (o = "1") (bytes_of_hex hex) frags) in
        let rng = ref (int_of_string seed * 2654435761 + 12345) in
        let steps = ref 0 in
        let stuck = ref false in
        while not (cfinal !s) && not !stuck && !steps < 10000000 do
          rng := (!rng * 1103515245 + 12345) land 0x3fffffff;
          let order = match (!rng lsr 8) mod 6 with
            | 0 -> [TM; TR; TS] | 1 -> [TM; TS; TR] | 2 -> [TR; TM; TS]
            | 3 -> [TR; TS; TM] | 4 -> [TS; TM; TR] | _ -> [TS; TR; TM] in
          let rec try_ = function
            | [] -> stuck := true
            | e :: r -> (match cstep !s e with Some s1 -> s := s1; incr steps | None -> try_ r) in
          try_ order
        done;
        let kind = match !s.k_main with
          | MDone -> "COPY" | MDecompress -> "DECOMPRESS" | MFail -> "FAIL" | _ -> "STUCK" in
        let ex = match exit_of !s with Exit0 -> "0" | KilledUSR2 -> "USR2" | NotFinished -> "-" in
        Printf.printf "%s %s %d %s %d\n" kind ex (int_of_nat !s.k_raised) (hex_of_bytes !s.k_written) !steps
      | _ -> print_endline "BADLINE"
    done
  with End_of_file -> ()
