/* In-process harness for retrieve() of src/decode.c, same line protocol as retr_driver.ml
   (the extracted model Safe/RetrModel.v).

   input line :  <live> <buff: 16 hex digits> <words: 8 hex digits each, or -> <n1,n2,...>
       live/buff : the bit buffer the block starts with (bs->live, bs->buff as the parser/scanner leave
                   them behind the 32-bit block CRC)
       words     : the input that follows, as the 32-bit big-endian words the decompressor reads
       n1,n2,... : the words are handed to retrieve() in chunks of n1, n2, ... words (bs->data/bs->limit
                   as expand.c's attach() sets them: one non-empty part of the input per call, live/buff/
                   eof carried over by detach()); words beyond the sum are never attached.  When the
                   chunks are used up and retrieve() still says MORE, it is called the way attach() does
                   at the end of the input: data = limit = NULL, eof = (live < 32).
   output line:  one token per call
                   c:<rv>,<rs->state>,<bs.live>,<bs.buff hex>,<words consumed of the chunk>,<ds.block_size>,
                     <rand>,<bwt_idx>;<j>,<t>,<g>,<num_trees>,<num_selectors>,<alpha_size>,<run>,<runChar>,
                     <shift>,<big>,<small>          (the part behind ';' only while the state exists, rv != OK)
                 and for rv == OK:  T:<tt[] as value*count runs>  f:<ftab[] as value*count runs>
   decode.c is included textually.  Every chunk lives in its own malloc()ed buffer of exactly its size
   and tt has exactly MAX_BLOCK_SIZE entries, so that the sanitizer flavour sees every access outside.
   The retriever state is filled with 0xAA (it comes from malloc() in lbzip2). */
#include "decode.c"
#include <stdio.h>
#include <stdlib.h>

void *
xmalloc(size_t n)
{
  void *p = malloc(n ? n : 1);
  if (!p)
    abort();
  return p;
}

static char line[1 << 24];

static int
hexv(int c)
{
  if (c >= '0' && c <= '9')
    return c - '0';
  if (c >= 'a' && c <= 'f')
    return c - 'a' + 10;
  if (c >= 'A' && c <= 'F')
    return c - 'A' + 10;
  return -1;
}

static void
runs32(const char *tag, const uint32_t *a, size_t n)
{
  size_t i = 0;
  printf(" %s:", tag);
  if (n == 0)
    putchar('-');
  while (i < n) {
    size_t j = i;
    while (j < n && a[j] == a[i])
      j++;
    printf("%s%u*%zu", i ? "," : "", (unsigned)a[i], j - i);
    i = j;
  }
}

int
main(void)
{
  while (fgets(line, sizeof line, stdin)) {
    struct decoder_state ds;
    struct bitstream bs;
    struct retriever_internal_state *rs;
    char *p = line, *q;
    unsigned live;
    unsigned long long buff;
    size_t nwords, i, pos = 0;
    uint32_t *words;
    int rv = MORE, eofcalls = 0;

    live = strtoul(p, &p, 10);
    buff = strtoull(p, &p, 16);
    while (*p == ' ')
      p++;
    q = p;
    if (*q == '-')
      q++;
    while (hexv(*q) >= 0)
      q++;
    nwords = (*p == '-') ? 0 : (size_t)(q - p) / 8;
    words = malloc((nwords ? nwords : 1) * sizeof *words);
    for (i = 0; i < nwords; i++) {
      uint32_t x = 0;
      int k;
      for (k = 0; k < 8; k++)
        x = (x << 4) | (uint32_t)hexv(p[8 * i + k]);
      words[i] = x;
    }
    p = q;
    while (*p == ' ')
      p++;

    memset(&ds, 0xAA, sizeof ds);
    ds.rand = true;
    ds.internal_state = rs = xmalloc(sizeof *rs);
    memset(rs, 0xAA, sizeof *rs);
    {
      unsigned r;
      for (r = 0; r < NUM_ROWS; r++)
        rs->imtf_row[r] = rs->imtf_slide;
    }
    rs->state = S_INIT;
    ds.tt = xmalloc(MAX_BLOCK_SIZE * sizeof(uint32_t));
    ds.block_size = 0;

    bs.live = live;
    bs.buff = buff;
    bs.block = NULL;
    bs.eof = false;

    while (rv == MORE) {
      unsigned long n = strtoul(p, &q, 10);
      uint32_t *chunk = NULL;
      size_t consumed;

      if (q != p && n > 0 && pos + n <= nwords) {
        p = q;
        if (*p == ',')
          p++;
        chunk = malloc(n * sizeof *chunk);
        for (i = 0; i < n; i++)
          chunk[i] = htonl(words[pos + i]);
        pos += n;
        bs.data = chunk;
        bs.limit = chunk + n;
      }
      else {
        if (eofcalls++ >= 2)
          break;
        bs.data = NULL;
        bs.limit = NULL;
        bs.eof = (bs.live < 32u);
      }
      rv = retrieve(&ds, &bs);
      consumed = chunk ? (size_t)(bs.data - chunk) : 0;
      printf(" c:%d,%u,%u,%016llx,%zu,%u,%u,%u", rv,
             rv == OK ? 0u : rs->state, bs.live, (unsigned long long)bs.buff, consumed, ds.block_size,
             (unsigned)ds.rand, ds.bwt_idx);
      if (rv != OK)
        printf(";%u,%u,%u,%u,%u,%u,%u,%u,%u,%u,%u", rs->j, rs->t, rs->g, rs->num_trees, rs->num_selectors,
               rs->alpha_size, rs->run, rs->runChar, rs->shift, (unsigned)rs->big, (unsigned)rs->small);
      free(chunk);
    }
    if (rv == OK) {
      runs32("T", ds.tt, ds.block_size);
      runs32("f", ds.ftab, 256);
    }
    else
      free(ds.internal_state);
    putchar('\n');
    free(ds.tt);
    free(words);
  }
  return 0;
}
