(* Driver for the extracted encoder-side model.  One witness per line (key=value as printed
   by enc_h_block): prints whether the witness is acceptable, the model's MTF symbols and the
   bytes of write_block. *)
open Enc_model

let rec pos_of_int n = if n = 1 then XH else if n land 1 = 0 then XO (pos_of_int (n lsr 1)) else XI (pos_of_int (n lsr 1))
let n_of_int n = if n = 0 then N0 else Npos (pos_of_int n)
let rec int_of_pos = function XH -> 1 | XO p -> 2 * int_of_pos p | XI p -> 2 * int_of_pos p + 1
let int_of_n = function N0 -> 0 | Npos p -> int_of_pos p

let field kvs k = try List.assoc k kvs with Not_found -> ""
let ints s = if s = "" || s = "-" then [] else List.map (fun x -> n_of_int (int_of_string x)) (String.split_on_char ',' s)
let bytes_of_hex s = if s = "-" || s = "" then [] else
  List.init (String.length s / 2) (fun i -> n_of_int (int_of_string ("0x" ^ String.sub s (2 * i) 2)))

let hex_of_bits bits =
  let b = Buffer.create 64 in
  let rec go l = match l with
    | b7 :: b6 :: b5 :: b4 :: b3 :: b2 :: b1 :: b0 :: r ->
      let v = List.fold_left (fun a x -> 2 * a + (if x then 1 else 0)) 0 [b7; b6; b5; b4; b3; b2; b1; b0] in
      Buffer.add_string b (Printf.sprintf "%02x" v); go r
    | [] -> ()
    | r -> let v = List.fold_left (fun a x -> 2 * a + (if x then 1 else 0)) 0 (r @ List.init (8 - List.length r) (fun _ -> false)) in
      Buffer.add_string b (Printf.sprintf "%02x!" v) in
  go bits; Buffer.contents b

let () =
  try
    while true do
      let line = input_line stdin in
      let toks = String.split_on_char ' ' (String.trim line) in
      match toks with
      | "W" :: m :: rest ->
        let kvs = List.filter_map (fun t -> match String.index_opt t '=' with
            | Some i -> Some (String.sub t 0 i, String.sub t (i + 1) (String.length t - i - 1)) | None -> None) rest in
        let nt = int_of_string (field kvs "nt") in
        let tables = List.init nt (fun t -> ints (field kvs (Printf.sprintf "len%d" t))) in
        let nsel = int_of_string (field kvs "nsel") in
        let sels = ints (field kvs "sels") in
        let w = { w_blk = bytes_of_hex (field kvs "blk"); w_idx = n_of_int (int_of_string (field kvs "idx"));
                  w_tables = tables; w_sels = sels; w_extra_sel = (nsel > List.length sels);
                  w_pad = n_of_int (int_of_string (field kvs "pad")); w_crc = n_of_int (int_of_string (field kvs "crc")) } in
        let ok = witness_ok (n_of_int (int_of_string m)) w in
        let syms = block_syms w in
        Printf.printf "ok=%b syms=%s out=%s\n" ok
          (String.concat "," (List.map (fun x -> string_of_int (int_of_n x)) syms))
          (hex_of_bits (write_block w))
      | _ -> print_endline "BADLINE"
    done
  with End_of_file -> ()
