(* Driver for the extracted scanner model: one case per line. *)
open Scan_model

let rec pos_of_int n = if n = 1 then XH else if n land 1 = 0 then XO (pos_of_int (n lsr 1)) else XI (pos_of_int (n lsr 1))
let n_of_int n = if n = 0 then N0 else Npos (pos_of_int n)
let rec nat_of_int n = if n = 0 then O else S (nat_of_int (n - 1))

let bits_of_string s = if s = "-" then [] else List.init (String.length s) (fun i -> s.[i] = '1')
let string_of_bits l = if l = [] then "-" else String.concat "" (List.map (fun b -> if b then "1" else "0") l)

let words_of_hex s =
  if s = "-" then [] else begin
    let n = String.length s / 8 in
    List.init n (fun i ->
      let b k = n_of_int (int_of_string ("0x" ^ String.sub s (8 * i + 2 * k) 2)) in
      (((b 0, b 1), b 2), b 3))
  end

let () =
  try
    while true do
      let line = input_line stdin in
      match String.split_on_char ' ' (String.trim line) with
      | [l; d; sk] ->
        let bs = { live = bits_of_string l; data = words_of_hex d } in
        (match scan bs (nat_of_int (int_of_string sk)) with
         | ScanOK r -> Printf.printf "OK %s %d\n" (string_of_bits r.live) (List.length r.data)
         | ScanMORE r -> Printf.printf "MORE %s %d\n" (string_of_bits r.live) (List.length r.data))
      | _ -> print_endline "BADLINE"
    done
  with End_of_file -> ()
