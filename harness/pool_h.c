/* C11 (queue primitives) correspondence harness: drives the REAL deque / pqueue macros of
   src/process.h and the real up_heap()/down_heap() of src/process.c (linked, together with
   the rest of the program; main() of main.c is renamed) with operation sequences read
   from stdin and prints every observable result plus the integer members of the structure
   after every operation.  Same input/output format as harness/pool_driver.ml (the extracted
   model Safe/PoolModel.v).

   Input, one sequence per line:
     D <capacity> <op> <op> ...     deque(struct item):
         p<v> push   u<v> unshift   s shift   o pop   g<i> dq_get   t<i>:<v> dq_set   z size   e empty
     H <capacity> <op> <op> ...     pqueue(struct el *):
         q<major>.<minor>.<id> enqueue   d dequeue   k peek   z size   e empty
   Output, one line per sequence: for every op  <result>@<head>,<size>  (deque) or
     <result>@<size>[<id>,<id>,...]  (heap: ids of root[0..size-1] in array order);
     result: "-" for operations without a value, v<value> / i<id> for elements, n<number>, b<0|1>.
   The caller only sends sequences that respect the documented preconditions (non-full,
   non-empty, index < size); the macros' own assert()s are compiled in. */
#define main lbzip2_main
#include "main.c"
#undef main
#include "process.h"
#include <stdlib.h>

struct item { long v; int pad; };
struct el { struct position pos; unsigned id; };

static char line[1 << 20];
static char out[1 << 22];
static size_t outn;

#define OUT(...) (outn += (size_t)snprintf(out + outn, sizeof out - outn, __VA_ARGS__))

static void run_deque(unsigned cap, char *ops)
{
  struct deque(struct item) q;
  char *tok;

  deque_init(q, cap);
  for (tok = strtok(ops, " \n"); tok; tok = strtok(NULL, " \n")) {
    struct item it;
    it.pad = 0;
    switch (tok[0]) {
    case 'p': it.v = strtol(tok + 1, NULL, 10); push(q, it); OUT("-"); break;
    case 'u': it.v = strtol(tok + 1, NULL, 10); unshift(q, it); OUT("-"); break;
    case 's': it = shift(q); OUT("v%ld", it.v); break;
    case 'o': it = pop(q); OUT("v%ld", it.v); break;
    case 'g': { unsigned i = (unsigned)strtoul(tok + 1, NULL, 10); it = dq_get(q, i); OUT("v%ld", it.v); break; }
    case 't': {
      char *c;
      unsigned i = (unsigned)strtoul(tok + 1, &c, 10);
      it.v = strtol(c + 1, NULL, 10);
      (void)dq_set(q, i, it);
      OUT("-");
      break;
    }
    case 'z': OUT("n%u", (unsigned)size(q)); break;
    case 'e': OUT("b%d", (int)empty(q)); break;
    default: OUT("?"); break;
    }
    OUT("@%u,%u ", q.head, q.size);
  }
  while (!empty(q)) (void)shift(q);
  deque_uninit(q);
}

static void run_heap(unsigned cap, char *ops)
{
  struct pqueue(struct el *) q;
  struct el *pool = calloc(65536, sizeof *pool);
  unsigned npool = 0, i;
  char *tok;

  pqueue_init(q, cap);
  for (tok = strtok(ops, " \n"); tok; tok = strtok(NULL, " \n")) {
    struct el *p;
    switch (tok[0]) {
    case 'q': {
      char *c;
      p = &pool[npool++ % 65536];
      p->pos.major = strtoull(tok + 1, &c, 10);
      p->pos.minor = strtoull(c + 1, &c, 10);
      p->id = (unsigned)strtoul(c + 1, NULL, 10);
      enqueue(q, p);
      OUT("-");
      break;
    }
    case 'd': p = dequeue(q); OUT("i%u", p->id); break;
    case 'k': p = peek(q); OUT("i%u", p->id); break;
    case 'z': OUT("n%u", (unsigned)size(q)); break;
    case 'e': OUT("b%d", (int)empty(q)); break;
    default: OUT("?"); break;
    }
    OUT("@%u[", q.size);
    for (i = 0; i < q.size; i++) OUT("%s%u", i ? "," : "", q.root[i]->id);
    OUT("] ");
  }
  while (!empty(q)) (void)dequeue(q);
  pqueue_uninit(q);
  free(pool);
}

int main(void)
{
  if (sizeof(unsigned) != 4) { puts("CONST unsigned-is-not-32-bit"); return 2; }
  printf("CONST UMOD=%llu\n", (unsigned long long)UINT_MAX + 1ull);
  fflush(stdout);
  while (fgets(line, sizeof line, stdin)) {
    char kind = line[0];
    char *c;
    unsigned cap = (unsigned)strtoul(line + 1, &c, 10);
    outn = 0;
    out[0] = 0;
    if (kind == 'D') run_deque(cap, c);
    else if (kind == 'H') run_heap(cap, c);
    else OUT("BADLINE");
    puts(out);
    fflush(stdout);   /* keep the lines already produced if a later sequence aborts */
  }
  return 0;
}
