(* Driver for the extracted sliding-list inverse-MTF model (Safe/SlideModel.v):
   same line protocol as safe_h_slide.c.
   input line : "<ninuse> <comma separated positions>"
   output line: for each call "<byte>@<r0>,<r1>,...,<r15>" (byte returned, then the 16 row
                offsets after the call), separated by blanks; "ABORT"/"OOB" ends the calls;
                then " | " and the 256 cells of the concatenated rows in hex. *)
open Safe_slide_model

let rec pos_of_int n = if n = 1 then XH else if n land 1 = 0 then XO (pos_of_int (n lsr 1)) else XI (pos_of_int (n lsr 1))
let n_of_int n = if n = 0 then N0 else Npos (pos_of_int n)
let rec int_of_pos = function XH -> 1 | XO p -> 2 * int_of_pos p | XI p -> 2 * int_of_pos p + 1
let int_of_n = function N0 -> 0 | Npos p -> int_of_pos p

let slide_length = int_of_n sLIDE_LENGTH
(* contents of the slide before retrieve() initialises it: same pattern as the C harness *)
let junk = List.init slide_length (fun i -> n_of_int ((i * 7 + 3) land 255))

let () =
  let buf = Buffer.create (1 lsl 20) in
  try
    while true do
      let line = input_line stdin in
      Buffer.clear buf;
      (match String.split_on_char ' ' (String.trim line) with
       | [nu; ps] ->
         let ninuse = int_of_string nu in
         let flags = List.init 256 (fun j -> j < ninuse) in
         let cs = if ps = "-" then [] else List.map int_of_string (String.split_on_char ',' ps) in
         (match slide_init_c junk flags with
          | None -> Buffer.add_string buf "INIT-OOB"
          | Some (st0, alpha) ->
            Buffer.add_string buf (Printf.sprintf "alpha=%d" (int_of_n alpha));
            let st = ref st0 in
            (try
               List.iter (fun c ->
                   match mtf_one_c (n_of_int c) !st with
                   | Done (x, st') ->
                     st := st';
                     Buffer.add_char buf ' ';
                     Buffer.add_string buf (string_of_int (int_of_n x));
                     Buffer.add_char buf '@';
                     List.iteri (fun i r ->
                         if i > 0 then Buffer.add_char buf ',';
                         Buffer.add_string buf (string_of_int (int_of_n r))) st'.s_rows
                   | Oob -> Buffer.add_string buf " OOB"; raise Exit
                   | Abort -> Buffer.add_string buf " ABORT"; raise Exit) cs
             with Exit -> ());
            Buffer.add_string buf " | ";
            List.iter (fun v -> Buffer.add_string buf (Printf.sprintf "%02x" (int_of_n v))) (absl !st))
       | _ -> Buffer.add_string buf "BADLINE");
      print_endline (Buffer.contents buf)
    done
  with End_of_file -> ()
