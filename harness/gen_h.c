/* Correspondence harness for generate_prefix_code() of src/encode.c and the static functions it calls
   (including the .c file gives access to them).  The model side is harness/gen_driver.ml
   (coq/Enc/GenModel.v extracted); both print the same line format.

   Input, one case per line:
     G <cluster_factor> <s0,s1,...,EOB>   run the REAL generate_prefix_code() on the symbol vector (the last symbol
                                           is EOB = as-1; code[0][v] = number of v in the vector, as do_mtf leaves it).
                                           The whole union u.s is poisoned with 0xA5 first, so that a read of a
                                           tmap / length / frequency entry the function did not write shows up.
                                           Output: OK nm= as= nt= cost= old=<selector[], old numbering>
                                                   sels=<tmap_old2new[selector[]]> n2o=<tmap_new2old[0..nt-1]>
                                                   len0=.. len1=.. (length[tmap_new2old[i]][0..as-1])
     M <f0,f1,...>                         make_code_lengths() alone on a zeroed length[]: output LEN <csv>  */
#include "encode.c"
#include <stdio.h>

int main(void)
{
  char *line = NULL;
  size_t cap = 0;
  struct encoder_state *e = malloc(encoder_alloc_size(MAX_BLOCK_SIZE));

  printf("CONST MT=%d GS=%d MHCL=%d MINA=%d MAXA=%d SEL=%u\n", MAX_TREES, GROUP_SIZE, MAX_HUFF_CODE_LENGTH,
         MIN_ALPHA_SIZE, MAX_ALPHA_SIZE, (unsigned)sizeof(e->u.s.selector));
  fflush(stdout);
  while (getline(&line, &cap, stdin) > 0) {
    char *ms = strtok(line, " \n");
    if (!ms) { puts("BADLINE"); continue; }
    if (ms[0] == 'G') {
      char *cfs = strtok(NULL, " \n"), *vs = strtok(NULL, " \n"), *q;
      uint16_t *mtfv;
      size_t k = 0, i;
      unsigned as, t, ns, cost;
      if (!cfs || !vs) { puts("BADLINE"); continue; }
      encoder_init(e, MAX_BLOCK_SIZE, (unsigned)strtoul(cfs, NULL, 10));
      memset(&e->u.s, 0xA5, sizeof(e->u.s));
      mtfv = (void *)e->SA;
      for (q = vs; *q && k < MAX_BLOCK_SIZE + GROUP_SIZE; ) {
        mtfv[k++] = (uint16_t)strtoul(q, &q, 10);
        if (*q == ',') q++;
      }
      if (k < 2) { puts("BADLINE"); continue; }
      e->nmtf = k;
      as = mtfv[k - 1] + 1;
      for (i = 0; i < as && i <= MAX_ALPHA_SIZE; i++) e->u.s.code[0][i] = 0;
      for (i = 0; i < k; i++) e->u.s.code[0][mtfv[i]]++;
      cost = generate_prefix_code(e);
      ns = (e->nmtf + GROUP_SIZE - 1) / GROUP_SIZE;
      printf("OK nm=%u as=%u nt=%u cost=%u old=", (unsigned)e->nmtf, as, (unsigned)e->u.s.num_trees, cost);
      for (i = 0; i < ns; i++) printf("%s%u", i ? "," : "", (unsigned)e->u.s.selector[i]);
      printf(" sels=");
      for (i = 0; i < ns; i++) printf("%s%u", i ? "," : "", (unsigned)e->u.s.tmap_old2new[e->u.s.selector[i] % MAX_TREES]);
      printf(" n2o=");
      for (t = 0; t < e->u.s.num_trees && t < MAX_TREES; t++) printf("%s%u", t ? "," : "", (unsigned)e->u.s.tmap_new2old[t]);
      for (t = 0; t < e->u.s.num_trees && t < MAX_TREES; t++) {
        uint8_t *len = e->u.s.length[e->u.s.tmap_new2old[t] % MAX_TREES];
        printf(" len%u=", t);
        for (i = 0; i < as; i++) printf("%s%u", i ? "," : "", (unsigned)len[i]);
      }
      putchar('\n');
    }
    else if (ms[0] == 'M') {
      static uint32_t freq[MAX_ALPHA_SIZE + 1];
      static uint8_t length[MAX_ALPHA_SIZE + 1];
      char *vs = strtok(NULL, " \n"), *q;
      unsigned as = 0, i;
      if (!vs) { puts("BADLINE"); continue; }
      for (q = vs; *q && as < MAX_ALPHA_SIZE; ) {
        freq[as++] = (uint32_t)strtoul(q, &q, 10);
        if (*q == ',') q++;
      }
      memset(length, 0, sizeof length);
      make_code_lengths(length, freq, as);
      printf("LEN ");
      for (i = 0; i < as; i++) printf("%s%u", i ? "," : "", (unsigned)length[i]);
      putchar('\n');
    }
    else puts("BADLINE");
    fflush(stdout);   /* keep the lines already produced if a later case aborts */
  }
  free(line);
  free(e);
  return 0;
}
