(* Driver for the extracted RLE model: same line protocol as rle_h_collect.c.
   The per-call trace is produced by looping over the extracted [collect_call];
   for modes S and D the blocks are additionally computed by the extracted
   [collect_run] (the function the theorems are about) and must coincide with the
   blocks of the trace, otherwise the token DRIVERMISMATCH is printed.
   Mode G prints what the extracted specification [spec_blocks] says:
     G <M> <s|d> bufs...   ->  g:<len>,<crc>,<rle1 hex> ... *)
open Rle_model

let rec pos_of_int n = if n = 1 then XH else if n land 1 = 0 then XO (pos_of_int (n lsr 1)) else XI (pos_of_int (n lsr 1))
let n_of_int n = if n = 0 then N0 else Npos (pos_of_int n)
let rec int_of_pos = function XH -> 1 | XO p -> 2 * int_of_pos p | XI p -> 2 * int_of_pos p + 1
let int_of_n = function N0 -> 0 | Npos p -> int_of_pos p
let int_of_z = function Z0 -> 0 | Zpos p -> int_of_pos p | Zneg p -> - (int_of_pos p)

let bytes_of_hex s =
  if s = "-" then [] else List.init (String.length s / 2) (fun i -> n_of_int (int_of_string ("0x" ^ String.sub s (2 * i) 2)))
let hex_of_bytes l =
  if l = [] then "-" else begin
    let b = Buffer.create 64 in
    List.iter (fun x -> Buffer.add_string b (Printf.sprintf "%02x" (int_of_n x))) l;
    Buffer.contents b
  end

let rec drop k l = if k = 0 then l else match l with [] -> [] | _ :: r -> drop (k - 1) r

let out = Buffer.create 4096
let report_call ret consumed (s : enc) =
  let rs = int_of_z s.rle_state in
  Buffer.add_string out (Printf.sprintf "c:%d,%d,%d,%d,%s " (if ret then 1 else 0) consumed (int_of_n s.nblock) rs
                           (if rs > 0 then string_of_int (int_of_n s.rle_character) else "-"))
let block_token (ob : out_blk) =
  Printf.sprintf "b:%d,%08x,%s m:1 " (int_of_n ob.ob_weight) (int_of_n ob.ob_crc) (hex_of_bytes ob.ob_bytes)

let () =
  try
    while true do
      let line = input_line stdin in
      Buffer.clear out;
      (match List.filter (fun s -> s <> "") (String.split_on_char ' ' (String.trim line)) with
       | "G" :: ms :: sd :: bufs ->
         let m = n_of_int (int_of_string ms) in
         let bufs = List.map bytes_of_hex bufs in
         (match spec_blocks (sd = "s") m bufs with
          | None -> Buffer.add_string out "NOSPEC"
          | Some g -> List.iter (fun p -> Buffer.add_string out
                                    (Printf.sprintf "g:%d,%08x,%s " (List.length p) (int_of_n (crc_of p)) (hex_of_bytes (rle1 p)))) g)
       | mode :: ms :: bufs ->
         let mi = int_of_string ms in
         let m = n_of_int mi in
         let bufs = List.map bytes_of_hex bufs in
         let blocks = ref [] in
         let emit s w = let ob = finish_block s (n_of_int w) in
           blocks := ob :: !blocks; Buffer.add_string out (block_token ob) in
         if mode = "R" then begin
           let s = ref (encoder_init m) and weight = ref 0 and stop = ref false in
           List.iter (fun b -> if not !stop then begin
               let ((ret, cons), s') = collect_call !s b in
               let cons = int_of_n cons in
               report_call ret cons s'; s := s'; weight := !weight + cons;
               if ret then stop := true end) bufs;
           emit !s !weight
         end else if mode = "D" then begin
           List.iter (fun b ->
               let left = ref b and stuck = ref false in
               while !left <> [] && not !stuck do
                 let ((ret, cons), s') = collect_call (encoder_init m) !left in
                 let cons = int_of_n cons in
                 report_call ret cons s';
                 left := drop cons !left;
                 emit s' cons;
                 if cons = 0 then (Buffer.add_string out "STUCK "; stuck := true)
               done) bufs
         end else begin
           let cur = ref None and weight = ref 0 in
           List.iter (fun b ->
               let left = ref b and guard = ref 0 and stuck = ref false in
               while !left <> [] && not !stuck do
                 let s = (match !cur with Some s -> s | None -> weight := 0; encoder_init m) in
                 let ((ret, cons), s') = collect_call s !left in
                 let cons = int_of_n cons in
                 report_call ret cons s';
                 weight := !weight + cons;
                 left := drop cons !left;
                 cur := Some s';
                 if ret then (emit s' !weight; cur := None);
                 if cons = 0 then (incr guard; if !guard > 2 then (Buffer.add_string out "STUCK "; stuck := true))
               done) bufs;
           (match !cur with Some s -> emit s !weight | None -> ())
         end;
         if mode = "S" || mode = "D" then begin
           match collect_run (mode = "S") m bufs with
           | None -> Buffer.add_string out "NOFUEL "
           | Some obs ->
             let a = String.concat "" (List.map block_token obs)
             and b = String.concat "" (List.map block_token (List.rev !blocks)) in
             if a <> b then Buffer.add_string out ("DRIVERMISMATCH " ^ a)
         end
       | _ -> Buffer.add_string out "BADLINE");
      print_endline (Buffer.contents out)
    done
  with End_of_file -> ()
