/* LD_PRELOAD heap accounting for the decompression-scheduler checks (C13x, finding F3).
   Counts live heap bytes (malloc_usable_size), their peak, and the number of live
   blocks whose usable size equals SCHEDX_HEAP_CLASS (default 56 = struct unord_blk on
   x86-64).  At exit one line is appended to the file named by SCHEDX_HEAP_LOG:
     HEAP live=<bytes> peak=<bytes> class_live=<blocks> class_total=<allocations>  */
#define _GNU_SOURCE
#include <dlfcn.h>
#include <malloc.h>
#include <stdatomic.h>
#include <stdio.h>
#include <stdlib.h>
#include <string.h>
#include <unistd.h>

static void *(*real_malloc)(size_t);
static void (*real_free)(void *);
static void *(*real_calloc)(size_t, size_t);
static void *(*real_realloc)(void *, size_t);
static atomic_long live, peak, class_live, class_total;
static size_t klass = 56;
static char boot[65536];
static size_t boot_used;
static int initing;

static void init(void)
{
  if (real_malloc || initing) return;
  initing = 1;
  real_malloc = dlsym(RTLD_NEXT, "malloc");
  real_free = dlsym(RTLD_NEXT, "free");
  real_calloc = dlsym(RTLD_NEXT, "calloc");
  real_realloc = dlsym(RTLD_NEXT, "realloc");
  { const char *e = getenv("SCHEDX_HEAP_CLASS"); if (e) klass = strtoul(e, NULL, 10); }
  initing = 0;
}

static int is_boot(void *p) { return (char *)p >= boot && (char *)p < boot + sizeof boot; }

static void account(void *p, int sign)
{
  size_t u;
  long l, pk;
  if (!p || is_boot(p)) return;
  u = malloc_usable_size(p);
  if (sign > 0) {
    l = atomic_fetch_add(&live, (long)u) + (long)u;
    pk = atomic_load(&peak);
    while (l > pk && !atomic_compare_exchange_weak(&peak, &pk, l)) ;
    if (u == klass) { atomic_fetch_add(&class_live, 1); atomic_fetch_add(&class_total, 1); }
  } else {
    atomic_fetch_sub(&live, (long)u);
    if (u == klass) atomic_fetch_sub(&class_live, 1);
  }
}

void *malloc(size_t n)
{
  void *p;
  init();
  if (!real_malloc) { p = boot + boot_used; boot_used += (n + 15) & ~(size_t)15; return p; }
  p = real_malloc(n);
  account(p, 1);
  return p;
}

void *calloc(size_t a, size_t b)
{
  void *p;
  init();
  if (!real_calloc) { p = boot + boot_used; boot_used += (a * b + 15) & ~(size_t)15; return p; }
  p = real_calloc(a, b);
  account(p, 1);
  return p;
}

void *realloc(void *q, size_t n)
{
  void *p;
  init();
  if (is_boot(q)) { p = malloc(n); if (p && q) memcpy(p, q, n); return p; }
  account(q, -1);
  p = real_realloc(q, n);
  account(p, 1);
  return p;
}

void free(void *p)
{
  init();
  if (!p || is_boot(p)) return;
  account(p, -1);
  real_free(p);
}

static int reported;
__attribute__((destructor)) static void report(void)
{
  const char *f = getenv("SCHEDX_HEAP_LOG");
  char buf[256];
  int n, fd;
  FILE *fp;
  if (!f || reported) return;
  reported = 1;
  n = snprintf(buf, sizeof buf, "HEAP live=%ld peak=%ld class_live=%ld class_total=%ld\n",
               atomic_load(&live), atomic_load(&peak), atomic_load(&class_live), atomic_load(&class_total));
  fp = fopen(f, "a");
  if (fp) { fwrite(buf, 1, (size_t)n, fp); fclose(fp); }
  (void)fd;
}

/* lbzip2 leaves through _exit(): report there too */
void _exit(int code)
{
  void (*real_exit)(int) = dlsym(RTLD_NEXT, "_exit");
  report();
  real_exit(code);
  for (;;) ;
}
