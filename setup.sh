#!/bin/sh
# Build the framework from files on disk only (offline): regenerate Gen/, build the
# whole Coq development (full .vo build), extraction, and warm the harness cache.
set -e
cd "$(dirname "$0")"
mkdir -p .work evidence coq/Gen coq/Extract/ml
python3 lib/gen_from_source.py --repo "${VERIF_REPO:-/repo}" --out coq/Gen
cd coq
python3 - <<'PY'
import sys, os
sys.path.insert(0, os.path.join(os.path.dirname(os.getcwd()), "lib"))
import vlib
vlib.ensure_makefile()
PY
timeout 3000 make -f Makefile.coq -k -j16 > ../.work/setup_make.log 2>&1 || { tail -40 ../.work/setup_make.log; echo "setup: coq build had failures (checks will report them)"; }
echo "setup done"
