"""Correspondence helper for the decode()/emit() model (coq/Safe/EmitModel.v) of C08/C09.

correspond(check) runs harness/safe_h_emit.c (the real decode() and emit() of
/repo/src/decode.c) and the extracted model (harness/safe_emit_driver.ml) on the same
cases and compares, per case: tt and ftab after decode(), rle_index/rle_avail, and for
every emit() call the return code, the bytes written and rle_state, finally ds.crc.
In addition the concatenated output of the implementation is compared with an
independent python oracle (inverse BWT by sorting, derandomisation, un-RLE); those
differences are returned under "oracle_mismatches" (they are property violations, not
model/implementation differences).
"""
import os

import vlib
from runner import Broken

RAND_THRESH = 617


# ---------------------------------------------------------------------------
# python reference pieces
# ---------------------------------------------------------------------------
def bwt(block):
    """Last column of the sorted rotation matrix and the row of the identity rotation."""
    n = len(block)
    b = bytes(block)
    dbl = b + b
    rots = sorted(range(n), key=lambda i: dbl[i:i + n])
    col = [b[(i - 1) % n] for i in rots]
    return col, rots.index(0)


def ibwt(col, idx):
    n = len(col)
    order = sorted(range(n), key=lambda i: (col[i], i))   # stable
    out = []
    j = idx
    for _ in range(n):
        j = order[j]
        out.append(col[j])
    return out


_RT = None


def rand_table():
    global _RT
    if _RT is None:
        import re
        src = open(os.path.join(vlib.REPO, "src", "decode.c")).read()
        m = re.search(r"rand_table\[512\]\s*=\s*\{(.*?)\};", src, re.S)
        _RT = [int(x.replace("+", "")) for x in re.findall(r"\+?\d+", m.group(1))]
        assert len(_RT) == 512
    return _RT


def derand(block):
    rt = rand_table()
    out = list(block)
    i, j = 0, RAND_THRESH
    while j < len(out):
        out[j] ^= 1
        i = (i + 1) & 0x1FF
        j += rt[i]
    return out


def unrle(block):
    """(output bytes, True if the block ends right after four equal bytes)."""
    out = []
    prev, cnt = None, 0
    for c in block:
        if cnt == 4:
            out.extend([prev] * c)
            prev, cnt = None, 0
            continue
        cnt = cnt + 1 if c == prev else 1
        prev = c
        out.append(c)
    return out, cnt == 4


def rle1(plain):
    out = []
    i = 0
    n = len(plain)
    while i < n:
        j = i
        while j < n and plain[j] == plain[i] and j - i < 259:
            j += 1
        run = j - i
        if run >= 4:
            out.extend([plain[i]] * 4)
            out.append(run - 4)
        else:
            out.extend([plain[i]] * run)
        i = j
    return out


def crc32_bz(data):
    crc = 0xFFFFFFFF
    for b in data:
        crc ^= b << 24
        for _ in range(8):
            crc = ((crc << 1) ^ 0x04C11DB7) & 0xFFFFFFFF if crc & 0x80000000 else (crc << 1) & 0xFFFFFFFF
    return crc ^ 0xFFFFFFFF


# ---------------------------------------------------------------------------
# case generation
# ---------------------------------------------------------------------------
def gen_plain(r, n, alpha):
    """run-structured plaintext: runs of the lengths where the un-RLE automaton changes state"""
    out = []
    while len(out) < n:
        c = r.below(alpha)
        k = r.choice([1, 1, 1, 2, 3, 3, 4, 4, 5, 6, 255, 258, 259, 260, 263, 264, 518])
        out.extend([c] * k)
    return out


def gen_block(r, n, alpha):
    """post-RLE block content drawn directly: any byte may follow four equal bytes as a count"""
    out = []
    while len(out) < n:
        kind = r.below(8)
        c = r.below(alpha)
        if kind <= 2:
            out.append(c)
        elif kind == 3:
            out.extend([c] * r.range(2, 3))
        else:
            out.extend([c] * 4)
            out.append(r.choice([0, 0, 1, 2, 3, 4, 5, 254, 255, 255, c, r.below(256)]))
    return out[:max(n, 1)]


def mk(rnd, idx, col, sizes):
    return "%d %d %s %s" % (rnd, idx, "".join("%02x" % c for c in col), ",".join(str(s) for s in sizes))


def gen_cases(r, n_random, small_exhaustive=True):
    cases = []
    tags = []

    def add(tag, rnd, block, sizes, idx=None):
        col, i0 = bwt(block)
        cases.append(mk(rnd, i0 if idx is None else idx, col, sizes))
        tags.append(tag)

    # --- fixed boundary blocks: endings with 1..4 equal bytes, counts 0 and 255, runs 3,4,5,259
    fixed = []
    for tail in (1, 2, 3, 4):
        fixed.append([7, 9] + [5] * tail)
        fixed.append([5] * tail)
        fixed.append([1, 1, 1, 1, 0] + [2] * tail)
        fixed.append([1, 1, 1, 1, 255] + [1] * tail)
    fixed += [
        [3, 3, 3, 3, 0], [3, 3, 3, 3, 255], [3, 3, 3, 3, 1, 3, 3, 3, 3, 2], [3, 3, 3, 3, 3, 3, 3, 3, 3],
        [4, 4, 4, 4, 0, 4, 4, 4, 4, 0, 4], [9, 9, 9, 8, 8, 8, 8, 4, 8], [0, 0, 0, 0, 255, 0, 0, 0, 0, 0],
        rle1([6] * 3 + [7] * 4 + [8] * 5 + [9] * 259 + [1] * 260 + [2]),
        rle1([1, 2, 3, 4, 5, 6, 7, 8, 9, 10]), [1, 2, 1, 2, 1, 2], [5], [0], [255, 255, 255, 255, 255],
    ]
    for blk in fixed:
        out, _ = unrle(blk)
        L = len(out)
        add("fixed", 0, blk, [L + 7])
        add("fixed", 0, blk, [1])
        add("fixed", 0, blk, list(range(1, 40)))
        add("fixed", 1, blk, [2])
        if small_exhaustive:
            # every split point: the emitter is suspended after exactly k bytes
            for k in range(1, min(L, 300) + 1):
                add("split", 0, blk, [k, L + 5])
            # every primary index (a wrong index still gives a legal list walk)
            col, _ = bwt(blk)
            for idx in range(len(col)):
                cases.append(mk(0, idx, col, [3, 1, 2]))
                tags.append("allidx")

    # --- random cases
    for _ in range(n_random):
        kind = r.below(10)
        alpha = r.choice([1, 2, 2, 3, 4, 16, 256])
        if kind <= 3:
            blk = rle1(gen_plain(r, r.range(1, 60), alpha))
        elif kind <= 7:
            blk = gen_block(r, r.range(1, 40), alpha)
        elif kind == 8:
            blk = gen_block(r, r.range(100, 400), alpha)
        else:
            blk = [r.below(alpha) for _ in range(r.range(1, 30))]
        out, _ = unrle(blk)
        L = max(len(out), 1)
        sk = r.below(6)
        if sk == 0:
            sizes = list(range(1, 60))
        elif sk == 1:
            sizes = [r.range(1, 9) for _ in range(r.range(1, 12))]
        elif sk == 2:
            sizes = [r.range(1, L), L + 3]
        elif sk == 3:
            sizes = [r.range(1, 300) for _ in range(r.range(1, 5))]
        elif sk == 4:
            sizes = [1]
        else:
            sizes = [r.choice([900000, 4096, L, L + 1, max(L - 1, 1)])]
        add("random", 1 if r.below(8) == 0 else 0, blk, sizes, idx=None if r.below(4) else r.below(len(blk)))
    return cases, tags


def gen_rand_cases(r, n):
    """randomised blocks longer than RAND_THRESH (derandomisation flips bytes)"""
    cases, tags = [], []
    for k in range(n):
        alpha = r.choice([2, 3, 16, 256])
        ln = r.choice([618, 619, 700, 1236, 1337, 1400, r.range(618, 2200)])
        blk = (rle1(gen_plain(r, ln, alpha)) if r.below(2) else gen_block(r, ln, alpha))
        while len(blk) < 618:
            blk = blk + [r.below(alpha)]
        col, i0 = bwt(blk)
        sizes = r.choice([[1000000], [1], [7, 300, 2], list(range(1, 80)), [617, 1, 1, 5]])
        cases.append(mk(1, i0 if r.below(3) else r.below(len(blk)), col, sizes))
        tags.append("randomised")
        if k % 4 == 0:
            cases.append(mk(0, i0, col, sizes))
            tags.append("long")
    return cases, tags


# ---------------------------------------------------------------------------
# running
# ---------------------------------------------------------------------------
def build(flavor="dbg"):
    hs = vlib.build_c("safe_h_emit" + ("" if flavor == "dbg" else "-" + flavor),
                      ["safe_h_emit.c", os.path.join(vlib.REPO, "src", "crctab.c")], flavor=flavor)
    md = vlib.build_ocaml("safe_emit_model", os.path.join(vlib.COQ, "Extract", "ml"), ["safe_emit_model"],
                          "safe_emit_driver.ml")
    return hs, md


def run_cases(exe, cases, timeout=900):
    inp = ("\n".join(cases) + "\n").encode()
    rc, out, err = vlib.sh([exe], input=inp, timeout=timeout)
    return rc, out.splitlines(), err


def parse_calls(line):
    """[(rc, bytes, state)] and crc from an output line"""
    calls, crc = [], None
    for tok in line.split():
        if tok.startswith("e:"):
            rc, hx, st = tok[2:].split(",")
            calls.append((int(rc), [] if hx == "-" else [int(hx[i:i + 2], 16) for i in range(0, len(hx), 2)], int(st)))
        elif tok.startswith("c:"):
            crc = int(tok[2:], 16)
    return calls, crc


def oracle(case):
    rnd, idx, col, _ = case.split()
    col = [int(col[i:i + 2], 16) for i in range(0, len(col), 2)]
    blk = ibwt(col, int(idx))
    if rnd != "0":
        blk = derand(blk)
    return unrle(blk)


def correspond(check):
    quick = check.tier == "quick"
    r = check.rng
    cases, tags = gen_cases(r, 1500 if quick else 12000)
    c2, t2 = gen_rand_cases(r, 24 if quick else 160)
    cases += c2
    tags += t2
    hs, md = build("dbg")
    rc1, impl, e1 = run_cases(hs, cases)
    rc2, model, e2 = run_cases(md, cases)
    if rc1 != 0 or len(impl) != len(cases):
        check.broken.append(Broken("correspondence", "safe_h_emit crashed or truncated output (rc=%s, %d/%d lines)"
                                   % (rc1, len(impl), len(cases)), e1[-800:]))
    if rc2 != 0 or len(model) != len(cases):
        check.broken.append(Broken("correspondence", "extracted emit model driver failed (rc=%s)" % rc2, e2[-800:]))
    # sanitizer flavour on a subset (all cases in the thorough tier)
    sub = list(range(len(cases))) if not quick else [i for i in range(len(cases)) if i % 5 == 0 or tags[i] == "randomised"]
    hsa = vlib.build_c("safe_h_emit-asan", ["safe_h_emit.c", os.path.join(vlib.REPO, "src", "crctab.c")], flavor="asan")
    rc3, san, e3 = run_cases(hsa, [cases[i] for i in sub])
    if rc3 != 0 or len(san) != len(sub):
        bad = cases[sub[len(san)]] if len(san) < len(sub) else ""
        check.broken.append(Broken("correspondence", "sanitizer build of safe_h_emit failed (rc=%s) at case `%s`"
                                   % (rc3, bad[:200]), e3[-1500:]))
    else:
        for k, i in enumerate(sub):
            if i < len(impl) and san[k] != impl[i]:
                check.broken.append(Broken("correspondence", "asan and dbg builds of emit() differ on `%s`" % cases[i][:200], ""))
                break

    dis, omis = [], []
    hist = {"tags": {}, "suspended_in_state": {}, "final": {}, "calls": 0}
    nontriv = set()
    for i, c in enumerate(cases):
        a = impl[i] if i < len(impl) else "<none>"
        b = model[i] if i < len(model) else "<none>"
        hist["tags"][tags[i]] = hist["tags"].get(tags[i], 0) + 1
        if a != b:
            dis.append({"case": c[:400], "impl": a[:600], "model": b[:600]})
            continue
        calls, crc = parse_calls(a)
        hist["calls"] += len(calls)
        for (rv, _, st) in calls[:-1]:
            hist["suspended_in_state"][str(st)] = hist["suspended_in_state"].get(str(st), 0) + 1
        if calls:
            hist["final"][str(calls[-1][0])] = hist["final"].get(str(calls[-1][0]), 0) + 1
        if len(calls) >= 2:
            nontriv.add(c)
        # independent oracle on the implementation's output
        exp, err = oracle(c)
        got = [x for (_, bs, _) in calls for x in bs]
        last = calls[-1][0] if calls else None
        if err:
            ok = last == 14 and got == exp
        else:
            ok = last == 0 and got == exp and crc == crc32_bz(exp)
        if not ok:
            omis.append({"case": c[:400], "impl": a[:600], "expected_len": len(exp), "expected_err": err})
    for dd in dis[:5]:
        check.broken.append(Broken("correspondence", "emit/decode model vs implementation differ on `%s`" % dd["case"][:160],
                                   "impl=%s model=%s" % (dd["impl"][:300], dd["model"][:300])))
    return {
        "evaluations": len(cases), "distinct_nontrivial": len(nontriv),
        "rule": "BWT columns of run-structured/random blocks (runs 3,4,5,259,260+, counts 0/255, endings with 1-4 equal "
                "bytes), every split point and every primary index for the fixed small blocks, buffer sizes 1,2,3.. / random / "
                "huge, randomised blocks of 618..2200 bytes; non-trivial = emit() was suspended at least once",
        "samples": [c[:160] for c in cases[:3]] + [c[:160] for c in cases[-2:]],
        "histogram": hist, "disagreements": dis[:20], "oracle_mismatches": omis[:20],
        "sanitizer_cases": len(sub),
    }
