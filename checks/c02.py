"""C02 - compressed output is a strictly well-formed bzip2 stream."""
import os
import re

import vlib
import declib
import enclib
from runner import PropertyCheck, Broken, Violation


class Check(PropertyCheck):
    pid = "C02"
    props_module = "Properties.Properties_C02"
    extra_targets = ["Extract/ExtractEnc.vo", "Extract/ExtractDec.vo", "Extract/ExtractGen.vo", "Extract/ExtractPm.vo", "Extract/ExtractEncode.vo"]
    extra_props = ["Properties.Properties_C02gen", "Properties.Properties_C02gen_total", "Properties.Properties_C02enc"]
    gen_files = enclib.ENC_GEN
    trusted_base = enclib.ENC_TRUSTED
    assumptions = ["libbz2 (python bz2) stands for 'the reference bzip2 library'"]

    def correspond(self):
        quick = self.tier == "quick"
        cases = enclib.block_cases(self.rng, 220 if quick else 4000, 600 if quick else 1500)
        # alphabet sizes 3..258 with a single table (dummy second table for every size)
        for a in list(range(1, 257, 3 if quick else 1)):
            cases.append((400, bytes(range(a))))
        self.cases = cases
        self.hres, self.mres, stats = enclib.encoder_correspondence(self, cases, gen_vectors=True)
        self.witness_violations = []
        for (m, d), (st, kv, raw), mk in zip(cases, self.hres, self.mres):
            if st == "OK" and mk is not None and mk.get("ok") == "false":
                self.witness_violations.append(Violation(
                    "witness-not-strict", "block written by the real encoder for M=%d violates the strict format (witness_ok false): nt=%s nsel=%s idx=%s lens=%s" %
                    (m, kv.get("nt"), kv.get("nsel"), kv.get("idx"), [kv.get("len%d" % t) for t in range(int(kv.get("nt", "0")))]),
                    {"M": m, "input_hex": d.hex()[:4000], "harness": raw[:1500]}))
        files, want = [], []
        for (m, d), (st, kv, raw) in zip(cases, self.hres):
            if st == "OK":
                files.append(enclib.stream_of_block(kv))
                want.append(d[:int(kv["consumed"])])
        strict = declib.run_model("noexc", files)
        nbad = 0
        for f, w, r in zip(files, want, strict):
            if r != declib.fmt_out(w):
                nbad += 1
                if nbad <= 3:
                    self.broken.append(Broken("correspondence", "the strict format decoder (ref_noexc) rejects/mis-decodes a block written by the real encoder",
                                              "strict=%s expected=%s stream_hex=%s" % (r, declib.fmt_out(w), f.hex()[:300])))
        stats["strict_decode_mismatch"] = nbad
        nontriv = set((m, d) for (m, d), (st, kv, raw) in zip(cases, self.hres) if st == "OK" and int(kv["nblock"]) >= 4)
        return {"evaluations": len(cases), "distinct_nontrivial": len(nontriv),
                "rule": "as C01 plus every alphabet size (single-table blocks get the dummy second table); each real block is checked against "
                        "witness_ok (2-6 complete tables with lengths 1-20 incl. unused ones, selectors < #tables and <= 18002, primary index "
                        "valid, not randomised) and decoded by the extracted strict decoder; non-trivial = blocks of >= 4 bytes",
                "samples": [{"M": m, "input_hex": d.hex()[:80], "impl": raw[:160]} for (m, d), (st, kv, raw) in list(zip(cases, self.hres))[:3]],
                "encoder_stats": stats}

    @staticmethod
    def strict_items(line, level):
        """the strict-format items of C02 evaluated on the extracted inspector's report of the real output"""
        if not line.startswith("OK"):
            return ["inspector: " + line]
        bad = []
        body = line[3:].strip()
        for b in (body.split(";") if body else []):
            kv = dict(x.split("=", 1) for x in b.split(","))
            tables = [[int(x) for x in t.split(".")] for t in kv["tables"].split("|")]
            if int(kv["level"]) != level:
                bad.append("level digit %s" % kv["level"])
            if kv["rand"] != "false":
                bad.append("randomised block")
            if not (0 < int(kv["size"]) <= 100000 * level):
                bad.append("block-size %s" % kv["size"])
            if not int(kv["idx"]) < int(kv["size"]):
                bad.append("primary-index %s >= %s" % (kv["idx"], kv["size"]))
            if not 2 <= int(kv["nt"]) <= 6 or len(tables) != int(kv["nt"]):
                bad.append("table-count %s" % kv["nt"])
            if int(kv["nsel"]) > 18002:
                bad.append("selectors %s" % kv["nsel"])
            if kv["crc"] != "true":
                bad.append("block-crc")
            for t in tables:
                if any(l < 1 or l > 20 for l in t):
                    bad.append("code-length outside 1..20")
                elif sum(1 << (20 - l) for l in t) != 1 << 20:
                    bad.append("incomplete-table (Kraft sum %d/2^20): %s" % (sum(1 << (20 - l) for l in t), t))
        return bad

    def inspect_outputs(self, plains, level, seq):
        out = []
        comp = enclib.run_compress(plains, level, seq)
        small = []
        for p, (c, rc, err) in zip(plains, comp):
            if rc != 0 or c is None:
                continue
            try:
                ok = declib.libbz2_decode(c) == p
            except Exception as e:
                ok = False
            bad = []
            if not ok:
                bad.append("libbz2 does not decode it to the input")
            if c[:4] != b"BZh" + bytes([0x30 + level]):
                bad.append("header is %r, expected BZh%d" % (c[:4], level))
            if bad:
                out.append(Violation("malformed-output", "lbzip2 -%d%s output for %d input bytes: %s" % (level, " -u" if seq else "", len(p), "; ".join(bad)),
                                     {"input_hex": p.hex()[:4000], "input_len": len(p), "level": level, "sequential": seq}))
            if len(p) <= 2500:
                small.append((p, c))
        strict = declib.run_model("noexc", [c for p, c in small])
        insp = declib.run_model("inspect", [c for p, c in small])
        for (p, c), r in zip(small, insp):
            bad = self.strict_items(r, level)
            if bad:
                out.append(Violation("not-strict:" + bad[0].split()[0], "lbzip2 -%d%s output for %d input bytes: %s" %
                                     (level, " -u" if seq else "", len(p), "; ".join(bad)),
                                     {"input_hex": p.hex()[:4000], "output_hex": c.hex()[:2000], "level": level, "sequential": seq, "inspect": r[:1000]}))
        for (p, c), r in zip(small, strict):
            if r != declib.fmt_out(p):
                out.append(Violation("not-strict", "lbzip2 -%d%s output for %d input bytes is not accepted by the strict format decoder: %s" %
                                     (level, " -u" if seq else "", len(p), r),
                                     {"input_hex": p.hex()[:4000], "output_hex": c.hex()[:2000], "level": level, "sequential": seq}))
        return out, len(comp)

    def multi_operand_outputs(self):
        """several FILE operands in ONE invocation (the per-stream state of the compressor must be reset for every operand): every
        output file and every stream of the -c concatenation must be strict and decode to its operand"""
        import shutil
        import subprocess
        exe = vlib.build_lbzip2("rel")
        rng = self.rng
        out = []
        root = os.path.join(self.work, "multi")
        for rep in range(3 if self.tier == "quick" else 20):
            shutil.rmtree(root, ignore_errors=True)
            os.makedirs(root)
            plains = [enclib.gen_plain(rng, 2000) for _ in range(rng.range(2, 4))]
            if rep == 1:
                plains[0] = b""
            names = ["f%d" % i for i in range(len(plains))]
            for n, p in zip(names, plains):
                open(os.path.join(root, n), "wb").write(p)
            lvl = rng.range(1, 9)
            args = ["-%d" % lvl, "-n%d" % rng.choice([1, 2, 4])] + (["-u"] if rep % 2 else [])
            p1 = subprocess.run([exe] + args + ["-c", "--"] + names, cwd=root, stdout=subprocess.PIPE, stderr=subprocess.PIPE, timeout=120)
            p2 = subprocess.run([exe] + args + ["-k", "--"] + names, cwd=root, stdout=subprocess.PIPE, stderr=subprocess.PIPE, timeout=120)
            outs = []
            for n in names:
                q = os.path.join(root, n + ".bz2")
                outs.append(open(q, "rb").read() if os.path.exists(q) else None)
            problems = []
            try:
                if p1.returncode != 0 or declib.libbz2_decode(p1.stdout) != b"".join(plains):
                    problems.append("-c concatenation (exit %d) is not decoded by libbz2 to the concatenated operands" % p1.returncode)
            except Exception as e:
                problems.append("-c concatenation rejected by libbz2 (%s)" % type(e).__name__)
            for n, pl, o in zip(names, plains, outs):
                try:
                    if o is None or declib.libbz2_decode(o) != pl:
                        problems.append("output of operand %s is missing or does not decode to it" % n)
                except Exception as e:
                    problems.append("output of operand %s rejected by libbz2 (%s)" % (n, type(e).__name__))
            small = [o for o in outs if o is not None]
            strict = declib.run_model("noexc", small) if small else []
            for o, pl, r in zip([o for o in outs if o is not None], [pl for pl, o in zip(plains, outs) if o is not None], strict):
                if r != declib.fmt_out(pl):
                    problems.append("an operand's output is not accepted by the strict format decoder: %s" % r[:80])
            if problems:
                out.append(Violation("malformed-output:multi-operand", "lbzip2 %s on operands %s in one invocation: %s" % (
                    " ".join(args), names, "; ".join(problems[:3])),
                    {"operands_hex": [p.hex()[:4000] for p in plains], "args": args, "problems": problems[:6]}))
                break
        shutil.rmtree(root, ignore_errors=True)
        return out

    def direct(self):
        quick = self.tier == "quick"
        plains = [enclib.gen_plain(self.rng, 2500) for _ in range(50 if quick else 500)] + [b"", b"x"]
        plains += [bytes(range(a)) for a in range(1, 257, 4 if quick else 1)]     # single-table blocks: dummy second table
        out, n = [], 0
        for lvl in ([1, 5, 9] if quick else range(1, 10)):
            for seq in (False, True):
                v, k = self.inspect_outputs(plains, lvl, seq)
                out += v
                n += k
        v, k = self.inspect_outputs(enclib.big_plains(self.rng, quick), 1, False)
        out += v
        n += k
        v, k = self.inspect_outputs(enclib.boundary_plains(self.rng, 1, 16 if quick else 150), 1, True)
        out += v
        n += k
        deep = enclib.deep_table_plains(quick)
        v, k = self.inspect_outputs(deep, 9, False)      # first table 20 deep, RUNA unused with length 18/19
        for x in v:
            idx = [i for i, d in enumerate(deep) if len(d) == x.payload.get("input_len")]
            x.payload["generator"] = "enclib.deep_table_plains(False)[%d]" % idx[0] if idx else None
        out += v
        n += k
        out += self.multi_operand_outputs()
        self.notes.append("process-level outputs inspected: %d" % n)
        return (getattr(self, "witness_violations", []) + out)[:3]

    def search(self):
        self.rng = vlib.SplitMix(self.seed + 99)
        return self.direct()

    def replay(self, path):
        import json
        p = json.load(open(path))
        if "operands_hex" in p:
            import shutil
            import subprocess
            exe = vlib.build_lbzip2("rel")
            root = os.path.join(self.work, "replay_multi")
            shutil.rmtree(root, ignore_errors=True)
            os.makedirs(root)
            plains = [bytes.fromhex(h) for h in p["operands_hex"]]
            names = ["f%d" % i for i in range(len(plains))]
            for n, d in zip(names, plains):
                open(os.path.join(root, n), "wb").write(d)
            q = subprocess.run([exe] + list(p.get("args", [])) + ["-c", "--"] + names, cwd=root, stdout=subprocess.PIPE, stderr=subprocess.PIPE, timeout=120)
            try:
                ok = q.returncode == 0 and declib.libbz2_decode(q.stdout) == b"".join(plains)
            except Exception:
                ok = False
            print("lbzip2 %s -c %s: exit %d, libbz2 decodes the concatenation to the operands: %s" % (" ".join(p.get("args", [])), names, q.returncode, ok))
            return 0 if ok else 1
        if "input_hex" not in p:
            print(json.dumps(p.get("broken"), indent=1)[:3000])
            return 1
        data = bytes.fromhex(p["input_hex"])
        m = re.match(r"enclib\.deep_table_plains\(False\)\[(\d+)\]$", p.get("generator") or "")
        if m:
            data = enclib.deep_table_plains(False)[int(m.group(1))]
        v, n = self.inspect_outputs([data], p.get("level", 1), p.get("sequential", False))
        print([x.summary for x in v])
        return 1 if v else 0
