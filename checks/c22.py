"""C22 - invocation name and option sources select the documented mode.

Tie of Cli/CliModel.v (parse_cli) to /repo/src/main.c:
  * correspond(): the extracted model against the REAL binary (rel build), invoked
    through symlinks / arbitrary argv[0], with LBZIP2/BZIP2/BZIP set, on
      - every byte 1..255 as a one-letter option under every invocation name,
      - every long option spelled in the source plus near misses,
      - random token sequences (clusters, attached/separate -n/-m values, `--`, `-`,
        no-ops) cut at random into the three variables and the command line.
    Compared: exit status, stdout pieces (compressed with which header digit /
    decompressed / help / version), stderr class (+ offending option), the final
    directory contents (which files exist and what they hold), and, from the H3
    trace, the worker count, the slot total (small?) and `ultra`.
  * direct(): the documented rules evaluated on the binary alone (no model).
"""
import bz2
import json
import os
import re
import shutil
import subprocess
import threading
from concurrent.futures import ThreadPoolExecutor

import vlib
from runner import PropertyCheck, Broken, Violation

NAMES = [b"lbzip2", b"bzip2", b"bunzip2", b"lbunzip2", b"bzcat", b"lbzcat"]
DECOMP_NAMES = {b"bunzip2", b"lbunzip2", b"bzcat", b"lbzcat"}
CAT_NAMES = {b"bzcat", b"lbzcat"}
ENV_NAMES = ["LBZIP2", "BZIP2", "BZIP"]          # documented order (man page, ENVIRONMENT)
NOOP_SHORT = b"qs"                                # documented as ignored (+ --small by the property text)
NOOP_LONG = [b"--quiet", b"--small", b"--repetitive-fast", b"--repetitive-best", b"--exponential"]
COMPR_SUFFIXES = [b".bz2", b".tbz2", b".tbz", b".tz2"]

T = b"C22 payload: the quick brown fox jumps over the lazy dog\n" * 12
Z1 = bz2.compress(T, 9)
Z2 = bz2.compress(Z1, 9)
IN_CLASS = "c9(c9(T))"
D_CLASS = "c9(T)"


def hx(b):
    return b.hex() if b else "-"


def classify(data, depth=0):
    """Canonical description of a byte string produced from the payload."""
    if data == T:
        return "T"
    if data == b"":
        return "empty"
    if depth < 4 and data[:3] == b"BZh":
        try:
            d = bz2.BZ2Decompressor()
            inner = d.decompress(data)
            if d.eof and not d.unused_data:
                return "c%s(%s)" % (chr(data[3]), classify(inner, depth + 1))
        except Exception:
            pass
    return "?%d" % len(data)


def split_stdout(data):
    """stdout as a list of piece classes."""
    if data.startswith(b"Usage:"):
        return ["HELP"]
    if re.match(rb"\S+ version ", data):
        return ["VERSION"]
    out = []
    while data:
        if data.startswith(T):
            out.append("T")
            data = data[len(T):]
            continue
        try:
            d = bz2.BZ2Decompressor()
            d.decompress(data)
            if not d.eof:
                raise ValueError
            n = len(data) - len(d.unused_data)
            out.append(classify(data[:n]))
            data = data[n:]
        except Exception:
            out.append("?%d" % len(data))
            break
    return out


def classify_stderr(err):
    """Sorted list of (class, detail) for the messages on stderr.  A fatal message is always the
    last one; its quoted parts may contain any byte (including newlines), so it is matched on the
    whole text before the rest is classified line by line."""
    out = set()
    fatal = [
        (rb'[^\n]*: unknown option "(.*)", specify "-h" for help\n\Z', "unknown"),
        (rb'[^\n]*: option "-(.?)" requires an argument, specify "-h" for help\n\Z', "missing-arg"),
        (rb'[^\n]*: failed to parse "(.*)" from "-(.)" as an integer in \[\d+\.\.\d+\], specify "-h" for help\n\Z', "bad-arg"),
    ]
    for pat, cls in fatal:
        m = re.search(pat, err, re.S)
        if not m:
            continue
        if cls == "unknown":
            tok = m.group(1)
            # "--" can only be the one-letter option '-' (the token "--" itself is never unknown)
            if tok.startswith(b"--") and tok != b"--":
                out.add(("fatal:unknown-long", hx(tok)))
            else:
                out.add(("fatal:unknown-short", str(tok[1]) if len(tok) > 1 else "0"))
        elif cls == "missing-arg":
            out.add(("fatal:missing-arg", str(m.group(1)[0]) if m.group(1) else "0"))
        else:
            out.add(("fatal:bad-arg", "%d:%s" % (m.group(2)[0], hx(m.group(1)))))
        err = err[:m.start()]
        break
    for line in err.split(b"\n"):
        if not line:
            continue
        if b"are incompatible" in line:
            out.add(("fatal:incompat", "-"))
        elif b"from a terminal" in line:
            out.add(("fatal:tty-in", "-"))
        elif b"to a terminal" in line:
            out.add(("fatal:tty-out", "-"))
        elif b"skipping" in line:
            out.add(("warning", "-"))
        elif re.search(rb": (de)?compressing .* to ", line) or b"compression ratio" in line:
            out.add(("verbose", "-"))
        else:
            out.add(("other", line[:60].decode("latin-1")))
    return sorted(out)


def valid_fname(t):
    return 0 < len(t) <= 100 and b"/" not in t and b"\0" not in t and t not in (b".", b"..") \
        and not t.startswith(b"missing")


def py_env_tokens(env):
    """Documented tokenisation (spaces and tabs, no escaping), documented order."""
    out = []
    for v in env:
        if v is not None:
            out += [t for t in re.split(rb"[ \t]+", v) if t]
    return out


class Impl:
    """Runs the real binary in a scratch directory and canonicalises what it did."""

    def __init__(self, work):
        self.exe = vlib.build_lbzip2("rel")
        self.bindir = os.path.join(work, "bin")
        shutil.rmtree(self.bindir, ignore_errors=True)
        os.makedirs(self.bindir)
        for n in NAMES:
            os.symlink(self.exe, os.path.join(self.bindir, n.decode()))
        self.rundir = os.path.join(work, "run")
        shutil.rmtree(self.rundir, ignore_errors=True)
        os.makedirs(self.rundir)
        self.local = threading.local()
        self.counter = 0
        self.lock = threading.Lock()

    def run_on_tty(self, cmd, executable, cwd, benv, tty_in, tty_out):
        """Run with stdin and/or stdout connected to a pseudo-terminal (raw mode)."""
        import pty
        import tty
        import fcntl
        master, slave = pty.openpty()
        tty.setraw(slave)
        try:
            p = subprocess.Popen(cmd, executable=executable, cwd=cwd, env=benv,
                                 stdin=slave if tty_in else subprocess.PIPE,
                                 stdout=slave if tty_out else subprocess.PIPE, stderr=subprocess.PIPE)
            try:
                o, err = p.communicate(None if tty_in else Z2, timeout=30)
            except subprocess.TimeoutExpired:
                p.kill()
                o, err = p.communicate()
                err += b"[timeout]"
            out = o or b""
            if tty_out:
                fcntl.fcntl(master, fcntl.F_SETFL, os.O_NONBLOCK)
                try:
                    while True:
                        chunk = os.read(master, 65536)
                        if not chunk:
                            break
                        out += chunk
                except (BlockingIOError, OSError):
                    pass
            return p.returncode, out, err
        finally:
            os.close(master)
            os.close(slave)

    def scratch(self):
        d = getattr(self.local, "dir", None)
        if d is None:
            with self.lock:
                self.counter += 1
                d = os.path.join(self.rundir, "w%d" % self.counter)
            os.makedirs(os.path.join(d, "cwd"))
            self.local.dir = d
        return d

    def files_for(self, case):
        toks = list(case["args"]) + py_env_tokens(case["env"])
        names = []
        for t in toks + [b"in"]:
            if valid_fname(t) and t not in names:
                names.append(t)
        return names

    def run(self, case):
        d = self.scratch()
        cwd = os.path.join(d, "cwd").encode()
        for f in os.listdir(cwd):
            os.unlink(os.path.join(cwd, f))
        trace = os.path.join(d, "trace")
        if os.path.exists(trace):
            os.unlink(trace)
        files = self.files_for(case)
        for f in files:
            with open(os.path.join(cwd, f), "wb") as fh:
                fh.write(Z2)
        env = {"PATH": "/usr/bin:/bin", "LBZIP2_VERIF_TRACE": trace}
        benv = {k.encode(): v.encode() for k, v in env.items()}
        for nm, v in zip(ENV_NAMES, case["env"]):
            if v is not None:
                benv[nm.encode()] = v
        argv0 = case["argv0"]
        if argv0 in NAMES and not case.get("plain_argv0"):
            cmd = [os.path.join(self.bindir.encode(), argv0)] + list(case["args"])
            executable = None
        else:
            cmd = [argv0] + list(case["args"])
            executable = self.exe
        tty_in, tty_out = case.get("tty_in"), case.get("tty_out")
        if tty_in or tty_out:
            rc, out, err = self.run_on_tty(cmd, executable, cwd, benv, tty_in, tty_out)
        else:
            try:
                p = subprocess.run(cmd, executable=executable, input=Z2, cwd=cwd, env=benv,
                                   stdout=subprocess.PIPE, stderr=subprocess.PIPE, timeout=60)
                rc, out, err = p.returncode, p.stdout, p.stderr
            except subprocess.TimeoutExpired:
                rc, out, err = 124, b"", b"[timeout]"
        listing = {}
        for f in sorted(os.listdir(cwd)):
            with open(os.path.join(cwd, f), "rb") as fh:
                listing[hx(f)] = classify(fh.read())
        tr = None
        if os.path.exists(trace):
            with open(trace, "rb") as fh:
                first = fh.readline().decode("latin-1")
            m = re.search(r"tos=(\d+) nw=(\d+)", first)
            if m:
                tos, nw = int(m.group(1)), int(m.group(2))
                kind = first[:1]
                mu = re.search(r"ultra=(\d)", first)
                tr = {"kind": kind, "nw": nw,
                      "slots": ("2n+2" if tos == 2 * nw + 2 else "16n" if tos == 16 * nw else "2n" if tos == 2 * nw else str(tos)),
                      "ultra": int(mu.group(1)) if mu else None}
        created = [hx(f) for f in files]
        return {"exit": rc, "stdout": split_stdout(out), "stderr": classify_stderr(err), "files": fs_delta(created, listing),
                "trace": tr, "created": created}


def fs_delta(created, listing):
    """What happened to the directory: which of the pre-created files (all holding the payload)
    are gone, and which files are new or hold something else now.  Untouched files are left out so
    that runs with different sets of pre-created files stay comparable."""
    return {"removed": sorted(f for f in created if f not in listing),
            "written": {f: c for f, c in sorted(listing.items()) if f not in created or c != IN_CLASS}}


def xform_decompr(name):
    for cs, ds in ((b".bz2", b""), (b".tbz2", b".tar"), (b".tbz", b".tar"), (b".tz2", b".tar")):
        if name.endswith(cs):
            return name[:len(name) - len(cs)] + ds
    return name + b".out"


def content_decompress(c):
    m = re.match(r"c\d\((.*)\)$", c)
    return m.group(1) if m else None


def expected_from_model(line, created):
    """What the process must do, given the model's outcome and the files present.
    Returns an observation dict (same shape as Impl.run) or None if the scenario
    leaves the part of main() this harness can predict (e.g. decompressing plain text)."""
    files0 = {f: IN_CLASS for f in created}
    files = fs_delta(created, files0)
    parts = line.split()
    if parts[0] == "USAGE":
        return {"exit": 0, "stdout": ["HELP"], "stderr": [], "files": files, "trace": None}
    if parts[0] == "VERSION":
        return {"exit": 0, "stdout": ["VERSION"], "stderr": [], "files": files, "trace": None}
    if parts[0] == "FATAL":
        return {"exit": 1, "stdout": [], "stderr": [("fatal:" + parts[1], parts[2])], "files": files, "trace": None}
    if parts[0] != "RUN":
        return {"exit": -1, "stdout": ["model said: " + line], "stderr": [], "files": files, "trace": None}
    kv = dict(p.split("=", 1) for p in parts[1:])
    d, om, bs = kv["d"] == "1", kv["om"], kv["bs"]
    force, keep, verbose, small, ultra = kv["f"] == "1", kv["k"] == "1", kv["v"] == "1", kv["s"] == "1", kv["u"] == "1"
    nworker = int(kv["n"])
    ops = [] if kv["ops"] == "-" else [bytes.fromhex(x) if x != "-" else b"" for x in kv["ops"].split(",")]
    fs = {bytes.fromhex(k) if k != "-" else b"": v for k, v in files0.items()}
    stdout = []
    warned = False
    processed = 0
    first_kind = None
    for op in (ops or [None]):
        if op is None:
            inp = IN_CLASS
        else:
            if op not in fs:
                warned = True
                continue
            if not d and any(op.endswith(sfx) for sfx in COMPR_SUFFIXES):
                warned = True
                continue
            inp = fs[op]
        if d:
            outc = content_decompress(inp)
            if outc is None:
                return None
        else:
            if len(bs) != 1 or bs not in "123456789":
                return None
            outc = "c%s(%s)" % (bs, inp)
        if om == "R":
            oname = xform_decompr(op) if d else op + b".bz2"
            if force and oname in fs:
                del fs[oname]
            if oname in fs:
                warned = True
                continue
            if len(oname) > 255:
                return None
            fs[oname] = outc
            if not keep and op in fs and op != oname:
                del fs[op]
        elif om == "S":
            stdout.append(outc)
        processed += 1
        if first_kind is None:
            first_kind = "X" if d else "C"
    stderr = []
    if verbose and processed:
        stderr.append(("verbose", "-"))
    if warned:
        stderr.append(("warning", "-"))
    tr = None
    if processed:
        tr = {"kind": first_kind, "nw": nworker if nworker else None,
              "slots": "2n+2" if first_kind == "C" else ("2n" if small else "16n"),
              "ultra": int(ultra) if first_kind == "C" else None}
    return {"exit": 4 if warned else 0, "stdout": stdout, "stderr": sorted(stderr),
            "files": fs_delta(created, {hx(k): v for k, v in fs.items()}), "trace": tr}


def same_obs(impl, exp):
    """Compare an observed with an expected observation; returns list of differing fields."""
    diff = []
    for k in ("exit", "stdout", "files"):
        if impl[k] != exp[k]:
            diff.append(k)
    if [tuple(x) for x in impl["stderr"]] != [tuple(x) for x in exp["stderr"]]:
        diff.append("stderr")
    a, b = impl["trace"], exp["trace"]
    if (a is None) != (b is None):
        diff.append("trace")
    elif a is not None:
        if a["kind"] != b["kind"] or a["slots"] != b["slots"]:
            diff.append("trace")
        elif b["nw"] is not None and a["nw"] != b["nw"]:
            diff.append("trace.nw")
        elif b["ultra"] is not None and a["ultra"] != b["ultra"]:
            diff.append("trace.ultra")
    return diff


def obs_key(o):
    """Observation without the fields that legitimately differ between two runs of the binary."""
    return json.dumps({"exit": o["exit"], "stdout": o["stdout"], "stderr": [list(x) for x in o["stderr"]],
                       "files": o["files"], "trace": o["trace"]}, sort_keys=True)


def case_json(c):
    return {"argv0": c["argv0"].decode("latin-1"), "env": [None if v is None else v.decode("latin-1") for v in c["env"]],
            "args": [a.decode("latin-1") for a in c["args"]], "plain_argv0": bool(c.get("plain_argv0")), "gen": c.get("gen", ""),
            "tty_in": bool(c.get("tty_in")), "tty_out": bool(c.get("tty_out"))}


def case_from_json(j):
    return {"argv0": j["argv0"].encode("latin-1"), "env": [None if v is None else v.encode("latin-1") for v in j["env"]],
            "args": [a.encode("latin-1") for a in j["args"]], "plain_argv0": j.get("plain_argv0", False), "gen": j.get("gen", ""),
            "tty_in": j.get("tty_in", False), "tty_out": j.get("tty_out", False)}


def shell_line(c):
    def q(b):
        s = b.decode("latin-1")
        return "'" + s.replace("'", "'\\''") + "'"
    env = " ".join("%s=%s" % (n, q(v)) for n, v in zip(ENV_NAMES, c["env"]) if v is not None)
    return ("env " + env + " " if env else "") + " ".join(q(x) for x in [c["argv0"]] + list(c["args"]))


def mk(argv0, args, env=(None, None, None), gen="", plain=False):
    return {"argv0": argv0, "env": list(env), "args": list(args), "gen": gen, "plain_argv0": plain}


class Check(PropertyCheck):
    pid = "C22"
    props_module = "Properties.Properties_C22"
    extra_targets = ["Extract/ExtractCli.vo"]
    gen_files = ["CliTab.v"]
    trusted_base = [
        "Coq 8.16.1 kernel (coqc); vm_compute only for closed side conditions on the regenerated tables; no native_compute",
        "axioms: none (Print Assumptions: closed under the global context)",
        "translator lib/gen_cli.py (ev_name[], envsep, name chain, long-option chain, switch(opt), xstrtol suffix, "
        "initial values, main()'s post-setup statements -> Gen/CliTab.v as uninterpreted statement triples)",
        "hand-written in Cli/CliModel.v: meaning of the statement triples, the argument/cluster loops, -n/-m value handling, "
        "xstrtol/strtol, opts_outmode/opts_decompress, finalisation; tied by running the extracted model "
        "(ExtrOcamlBasic only) against the rel binary",
        "harness: checks/c22.py predicts the process behaviour (files, stdout, exit) from the model's configuration for "
        "regular single-link operands in a fresh directory; harness/cli_driver.ml",
        "platform: LP64 glibc (long/uintmax_t/size_t 64 bit, unsigned 32 bit, sysconf(_SC_THREAD_THREADS_MAX) = -1), C locale",
    ]
    assumptions = [
        "argument and environment strings contain no NUL (true of every real exec)",
        "stdin/stdout are pipes in all but the dozen pseudo-terminal cases (gen:tty) that exercise the two tty refusals",
        "-S (print_cctrs) and -m (max_mem) are parsed but read nowhere in the current source: not observable",
    ]

    # ------------------------------------------------------------------ generators
    def source_long_options(self):
        src = open(os.path.join(vlib.REPO, "src", "main.c"), encoding="latin-1").read()
        names = re.findall(r'strcmp\(\s*"([^"]*)"\s*,\s*argscan\s*\)', src)
        return sorted(set(n.encode() for n in names))

    def source_short_options(self):
        src = open(os.path.join(vlib.REPO, "src", "main.c"), encoding="latin-1").read()
        i = src.find("switch (opt)")
        body = src[i:i + 4000] if i >= 0 else src
        out = set()
        for m in re.finditer(r"case\s+'(\\?.)'\s*:", body):
            ch = m.group(1)
            out.add(0 if ch == "\\0" else ord(ch[-1]))
        out.discard(0)
        return sorted(out)

    def gen_single(self):
        """Every byte 1..255 as a one-letter option and every long option of the source (+ near
        misses) under every invocation name.  The quick tier runs the full byte sweep under two
        names and, under the other four, the letters the source recognises plus a random sample
        of the others (process creation costs ~20 ms here); thorough runs the full cross product."""
        quick = self.tier == "quick"
        r = self.rng
        cases = []
        known = self.source_short_options()
        for name in NAMES:
            if not quick or name == b"lbzip2":
                bs = range(1, 256)
            else:
                bs = sorted(set(known) | set(r.range(1, 255) for _ in range(6)))
            for b in bs:
                cases.append(mk(name, [b"-" + bytes([b]), b"in"], gen="single-short"))
        for name in ((b"bzcat",) if quick else (b"lbzip2", b"bzcat", b"bunzip2")):
            for b in range(1, 256):
                cases.append(mk(name, [b"-" + bytes([b])], gen="single-short-filter"))
        longs = self.source_long_options()
        self.longs = longs
        for li, l in enumerate(longs):
            near = [b"--" + l[:-1], b"--" + l + b"x", b"--" + l.upper(), b"--" + l + b"=1",
                    b"-" + l, b"---" + l, b"--" + l[:3]]
            for ni, name in enumerate(NAMES):
                cases.append(mk(name, [b"--" + l, b"in"], gen="single-long"))
                if not quick or ni == li % len(NAMES):
                    for v in near:
                        cases.append(mk(name, [v, b"in"], gen="near-miss-long"))
        for name in NAMES:
            cases.append(mk(name, [b"--", b"in"], gen="single-long"))
            cases.append(mk(name, [b"-", b"in"], gen="single-long"))
            cases.append(mk(name, [], gen="bare"))
            cases.append(mk(name, [b"in"], gen="bare"))
        return cases

    def gen_argv0(self):
        cases = []
        for a0 in [b"bzcat", b"./bzcat", b"/usr/bin/bunzip2", b"x/y/lbzcat", b"bzcat/", b"BZCAT", b"bzcat2", b"xbzcat",
                   b"bunzip", b"lbunzip2 ", b"", b"/", b"lbzip2", b"bzip2", b"a/lbunzip2", b"bunzip2/x"]:
            for args in (([], [b"in"]) if self.tier == "quick" else ([], [b"in"], [b"-k", b"in"])):
                cases.append(mk(a0, args, gen="argv0", plain=True))
        return cases

    def gen_tty(self):
        """The two terminal refusals of "Finalize options" (and the neighbouring accepted cases)."""
        cases = []
        for name, args, ti, to in [
                (b"lbzip2", [], False, True), (b"lbzip2", [b"-c", b"in"], False, True), (b"lbzip2", [b"in"], False, True),
                (b"lbzip2", [b"-d"], False, True), (b"bzcat", [b"in"], False, True), (b"bunzip2", [b"-z"], False, True),
                (b"bunzip2", [], True, False), (b"bunzip2", [b"in"], True, False), (b"lbzip2", [b"-t"], True, False),
                (b"bzcat", [], True, True), (b"lbzip2", [b"-dk", b"in"], True, True), (b"lbzcat", [b"-z"], True, True)]:
            c = mk(name, args, gen="tty")
            c["tty_in"], c["tty_out"] = ti, to
            cases.append(c)
        return cases

    N_VALUES = [b"1", b"2", b"3", b"4", b"2", b"0", b"x", b"", b"+3", b" 2", b"3 ", b"-1", b"-0", b"07", b"2x", b"1kk",
                b"k", b"4294967296", b"\t1", b"1\n", b"99999999999999999999"]
    M_VALUES = [b"1", b"5k", b"1E", b"16E", b"15E", b"9223372036854775807", b"9223372036854775808", b"-0", b"-1", b"7M",
                b"3g", b"2T", b"1p", b"1e", b"0k", b"17179869184G", b"17179869183G", b"1Z", b" 8", b"+9K", b"1K "]

    def rand_elements(self, r, allow_stop=True, noops=True, rich=True):
        """A list of 'elements'; each element is a list of tokens that must stay adjacent in order."""
        els = []
        n = r.range(0, 6)
        flags = b"cdzfkuvS123456789" + (b"qs" if noops else b"") + (b"t" if rich else b"")
        for _ in range(n):
            k = r.below(100)
            if k < 45:
                cl = bytes(r.choice(flags) for _ in range(r.range(1, 4)))
                if rich and r.chance(1, 25):
                    cl += bytes([r.choice(b"hLVx0-=")])
                if r.chance(1, 6):
                    letter = r.choice(b"nm")
                    val = r.choice(self.N_VALUES if letter == ord("n") else self.M_VALUES)
                    if r.chance(1, 2) and val:
                        els.append([b"-" + cl + bytes([letter]) + val])
                    elif r.chance(1, 12):
                        els.append([b"-" + cl + bytes([letter])])       # value = whatever comes next
                    else:
                        els.append([b"-" + cl + bytes([letter]), val])
                else:
                    els.append([b"-" + cl])
            elif k < 65:
                pool = [b"--stdout", b"--decompress", b"--compress", b"--fast", b"--best", b"--force", b"--keep",
                        b"--sequential", b"--verbose"]
                if rich:
                    pool += [b"--test"]
                if noops:
                    pool += NOOP_LONG
                if rich and r.chance(1, 15):
                    pool = [b"--help", b"--version", b"--license", b"--decompres", b"--Keep", b"--smal", b"--quiet=1"]
                els.append([r.choice(pool)])
            elif k < 88:
                els.append([r.choice([b"in", b"in", b"in2", b"in", b"missing", b"in.tbz", b"in3.bz2"])])
            elif k < 92 and allow_stop:
                els.append([b"--"])
            elif k < 95:
                els.append([b"-"])
            else:
                els.append([b"-" + bytes([r.choice(b"dzk")]) * r.range(1, 3)])
        return els

    def split_env(self, r, toks):
        """Cut a token list at random into LBZIP2 | BZIP2 | BZIP | argv.  Tokens that cannot
        live in an environment variable (empty, or containing space/tab) force the cut before them."""
        limit = len(toks)
        for i, t in enumerate(toks):
            if t == b"" or b" " in t or b"\t" in t:
                limit = i
                break
        cuts = sorted(r.range(0, limit) for _ in range(3)) if r.chance(3, 4) else [0, 0, 0]
        segs = [toks[:cuts[0]], toks[cuts[0]:cuts[1]], toks[cuts[1]:cuts[2]]]
        env = []
        for s in segs:
            if not s:
                env.append(r.choice([None, None, b"", b" ", b"\t \t"]))
            else:
                sep = lambda: r.choice([b" ", b"\t", b"  ", b" \t ", b" "])
                v = r.choice([b"", b" ", b"\t"]) + b"".join(t + sep() for t in s[:-1]) + s[-1] + r.choice([b"", b" ", b"\t\t"])
                env.append(v)
        return env, toks[cuts[2]:]

    def gen_random(self, n):
        r = self.rng
        cases = []
        for _ in range(n):
            els = self.rand_elements(r)
            toks = [t for e in els for t in e]
            env, argv = self.split_env(r, toks)
            cases.append(mk(r.choice(NAMES), argv, env, gen="random"))
        return cases

    def corpus(self):
        p = os.path.join(vlib.VERIF, "harness", "corpus", "c22.jsonl")
        out = []
        if os.path.exists(p):
            for l in open(p):
                l = l.strip()
                if l and not l.startswith("#"):
                    c = case_from_json(json.loads(l))
                    c["gen"] = "corpus"
                    out.append(c)
        return out

    # ------------------------------------------------------------------ running
    def impl(self):
        if not hasattr(self, "_impl"):
            self._impl = Impl(self.work)
            self._pool = ThreadPoolExecutor(max_workers=min(3, vlib.NCPU))   # more only adds kernel contention on this kind of VM
        return self._impl

    def run_impl(self, cases):
        im = self.impl()
        return list(self._pool.map(im.run, cases))

    def run_model(self, cases):
        md = vlib.build_ocaml("cli_model", os.path.join(vlib.COQ, "Extract", "ml"), ["cli_model"], "cli_driver.ml")
        lines = []
        for c in cases:
            lines.append(" ".join([hx(c["argv0"])] +
                                  ["~" if v is None else "%s=%s" % (hx(n.encode()), hx(v)) for n, v in zip(ENV_NAMES, c["env"])] +
                                  ["1" if c.get("tty_in") else "0", "1" if c.get("tty_out") else "0"] + [hx(a) for a in c["args"]]))
        rc, out, err = vlib.sh([md], input=("\n".join(lines) + "\n").encode(), timeout=600)
        res = out.splitlines()
        if rc != 0 or len(res) != len(cases):
            raise RuntimeError("extracted model driver failed rc=%s (%d lines for %d cases): %s" % (rc, len(res), len(cases), err[-500:]))
        return res

    def correspond(self):
        import time
        t0 = time.time()
        try:
            return self._correspond()
        finally:
            self.notes.append("correspond wall %.1fs" % (time.time() - t0))

    def _correspond(self):
        quick = self.tier == "quick"
        cases = self.corpus() + self.gen_tty() + self.gen_single() + self.gen_argv0() + self.gen_random(500 if quick else 12000)
        self.cases = cases
        impl = self.run_impl(cases)
        self.impl_obs = impl
        try:
            model = self.run_model(cases)
        except (RuntimeError, vlib.BuildError) as e:
            self.broken.append(Broken("correspondence", "extracted model driver", str(e)[-800:]))
            model = ["FATAL MODEL-GAP -"] * len(cases)
        self.model_out = model
        hist = {}
        dis = []
        nontriv = set()
        unpredicted = 0
        for c, ob, ml in zip(cases, impl, model):
            g = c["gen"]
            hist["gen:" + g] = hist.get("gen:" + g, 0) + 1
            kind = ml.split()[0] + (":" + ml.split()[1] if ml.startswith("FATAL") else "")
            hist["model:" + kind] = hist.get("model:" + kind, 0) + 1
            if any(v is not None and v.strip(b" \t") for v in c["env"]):
                hist["with_env_tokens"] = hist.get("with_env_tokens", 0) + 1
            exp = expected_from_model(ml, ob["created"])
            if exp is None:
                unpredicted += 1
                continue
            df = same_obs(ob, exp)
            if df:
                dis.append({"case": case_json(c), "cmd": shell_line(c), "fields": df, "model": ml,
                            "impl": {k: ob[k] for k in ("exit", "stdout", "stderr", "files", "trace")},
                            "expected": {k: exp[k] for k in ("exit", "stdout", "stderr", "files", "trace")}})
            if ml.startswith("RUN") and (c["args"] or any(c["env"])):
                nontriv.add(json.dumps(case_json(c), sort_keys=True))
        hist["unpredicted_by_harness"] = unpredicted
        self.disagreements = dis
        for dd in dis[:6]:
            self.broken.append(Broken("correspondence", "parse_cli model vs binary differ (%s) on `%s`" % (",".join(dd["fields"]), dd["cmd"][:160]),
                                      json.dumps({"model": dd["model"], "impl": dd["impl"], "expected": dd["expected"]})[:1500]))
        return {
            "evaluations": len(cases), "distinct_nontrivial": len(nontriv),
            "rule": "one process run of the rel binary per case; non-trivial = distinct cases with at least one option/operand/"
                    "environment token whose model outcome is a normal run (options took effect and (de)compression happened)",
            "samples": [shell_line(c) for c in (cases[:2] + cases[-3:])],
            "histogram": hist, "disagreements": len(dis),
        }

    # ------------------------------------------------------------------ documented rules on the binary
    def mode_of(self, ob, operand):
        """'D' / 'C' / None from an observation (what was produced from the payload)."""
        produced = list(ob["stdout"])
        for k, v in ob["files"]["written"].items():
            produced.append(v)
        if not produced:
            return None
        if all(p == D_CLASS for p in produced):
            return "D"
        if all(re.match(r"c\d\(c9\(c9\(T\)\)\)$", p) for p in produced):
            return "C"
        return "?"

    def direct_cases(self, scale):
        """List of (rule, [case, ...], judge) groups."""
        r = self.rng
        groups = []
        # R1: invocation name alone
        for name in NAMES:
            for args in ([], [b"in"]):
                groups.append(("name", [mk(name, args, gen="direct-name")], None))
        harmless_cl = b"kfvuS123456789qs"
        harmless_long = [b"--keep", b"--force", b"--verbose", b"--fast", b"--best", b"--sequential"] + NOOP_LONG
        # R2: last of -d/-z wins (no -t anywhere), any spelling, any source
        for _ in range(60 * scale):
            toks = []
            last = None
            for _ in range(r.range(1, 6)):
                k = r.below(10)
                if k < 3:
                    sp = r.choice([b"-d", b"-z", b"--decompress", b"--compress"])
                    toks.append(sp)
                    last = "D" if b"d" == sp[1:2] or sp == b"--decompress" else "C"
                elif k < 6:
                    cl = bytearray()
                    for _ in range(r.range(1, 5)):
                        ch = r.choice(b"dz" + harmless_cl)
                        cl.append(ch)
                        if ch == ord("d"):
                            last = "D"
                        elif ch == ord("z"):
                            last = "C"
                    toks.append(b"-" + bytes(cl))
                elif k < 8:
                    toks.append(r.choice(harmless_long))
                else:
                    toks.append(b"-c")
            name = r.choice(NAMES)
            env, argv = self.split_env(r, toks)
            if r.chance(1, 2):
                argv = argv + [b"in"]
            groups.append(("last-dz", [mk(name, argv, env, gen="direct-dz")], last))
        # R3: environment == prefix of the command line
        for _ in range(50 * scale):
            els = self.rand_elements(r, rich=r.chance(1, 3))
            toks = [t for e in els for t in e]
            if r.chance(1, 2):   # make the order of the variables matter
                toks = [r.choice([b"-d", b"-z", b"-1", b"-2"]), r.choice([b"-z", b"-d", b"-3", b"-4"]), r.choice([b"-d", b"-z", b"-5"])] + toks
            env, argv = self.split_env(r, toks)
            if not any(v is not None and v.strip(b" \t") for v in env):
                env = [b"-k", None, b"-v"]
            name = r.choice(NAMES)
            groups.append(("env-prefix", [mk(name, argv, env, gen="direct-env"),
                                          mk(name, py_env_tokens(env) + argv, gen="direct-env")], None))
        # R4: documented no-ops anywhere
        for _ in range(50 * scale):
            els = self.rand_elements(r, noops=False, rich=r.chance(1, 3))
            with_noops = []
            stopped = False
            pending = False      # previous token was a cluster ending in -n/-m: the next token is its value
            for e in els:
                if not stopped and not pending and r.chance(1, 2):
                    with_noops.append(r.choice([b"-q", b"-s", b"-qs", b"-sq", b"-ssq"] + NOOP_LONG))
                if pending:
                    with_noops += e
                    pending = False
                    continue
                if e == [b"--"]:
                    stopped = True
                t0 = e[0]
                if not stopped and len(t0) > 1 and t0[:1] == b"-" and t0[1:2] != b"-":
                    # a cluster: insert no-op letters before the first n/m (after which the text is a value)
                    body = t0[1:]
                    cut = len(body)
                    for i, ch in enumerate(body):
                        if ch in b"nm":
                            cut = i
                            break
                    flagpart = bytearray(body[:cut])
                    for _ in range(r.range(0, 2)):
                        flagpart.insert(r.range(0, len(flagpart)), r.choice(NOOP_SHORT))
                    with_noops.append(b"-" + bytes(flagpart) + body[cut:])
                    with_noops += e[1:]
                    pending = len(e) == 1 and cut == len(body) - 1
                else:
                    with_noops += e
            if not stopped and not pending and r.chance(1, 2):
                with_noops.append(r.choice([b"-s", b"--small", b"-q"]))
            plain = [t for e in els for t in e]
            name = r.choice(NAMES)
            # decompression of an operand makes `small` visible in the slot total of the trace
            if r.chance(1, 2):
                plain = [b"-d"] + plain
                with_noops = [b"-d"] + with_noops
            groups.append(("noop", [mk(name, plain, gen="direct-noop"), mk(name, with_noops, gen="direct-noop")], None))
        return groups

    def judge_groups(self, groups):
        flat = [c for _, cs, _ in groups for c in cs]
        obs = self.run_impl(flat)
        viols = []
        i = 0
        counts = {}
        for rule, cs, extra in groups:
            ob = obs[i:i + len(cs)]
            i += len(cs)
            counts[rule] = counts.get(rule, 0) + 1
            bad = None
            if rule == "name":
                c = cs[0]
                want = "D" if c["argv0"] in DECOMP_NAMES else "C"
                got = self.mode_of(ob[0], None)
                if got != want or ob[0]["exit"] != 0:
                    bad = "invoked as %s: expected %s, binary did %s (exit %s)" % (c["argv0"].decode(), want, got, ob[0]["exit"])
                elif c["argv0"] in CAT_NAMES and (not ob[0]["stdout"] or ob[0]["files"]["removed"] or ob[0]["files"]["written"]):
                    bad = "invoked as %s: output did not go to stdout / operand not kept" % c["argv0"].decode()
            elif rule == "last-dz":
                c = cs[0]
                want = extra or ("D" if c["argv0"] in DECOMP_NAMES else "C")
                got = self.mode_of(ob[0], None)
                if ob[0]["exit"] != 0 or got != want:
                    bad = "last of -d/-z says %s, binary did %s (exit %s, stderr %s)" % (want, got, ob[0]["exit"], ob[0]["stderr"])
            elif rule in ("env-prefix", "noop"):
                if obs_key(ob[0]) != obs_key(ob[1]):
                    what = "environment tokens vs the same tokens placed first on the command line" if rule == "env-prefix" \
                        else "with vs without the documented no-op options"
                    bad = "%s behave differently: %s | %s" % (what, obs_key(ob[0])[:300], obs_key(ob[1])[:300])
            if bad:
                viols.append(Violation("cli-rule:" + rule, "%s; run: %s" % (bad, " ;; ".join(shell_line(c) for c in cs)),
                                       {"rule": rule, "cases": [case_json(c) for c in cs], "expected_mode": extra,
                                        "observed": [{k: o[k] for k in ("exit", "stdout", "stderr", "files", "trace")} for o in ob],
                                        "how": "cd into a fresh directory holding `in` (a .bz2 of a .bz2), feed the same bytes on stdin, run the line(s) "
                                               "with argv[0] as shown (symlink to .work/bin/lbzip2-rel); ./check C22 --replay <this file>"}))
        self.direct_counts = counts
        return viols

    def direct(self):
        import time
        t0 = time.time()
        viols = self.judge_groups(self.direct_cases(1 if self.tier == "quick" else 10))
        self.notes.append("direct wall %.1fs" % (time.time() - t0))
        seen = set()
        out = []
        for v in viols:      # one per rule is enough
            if v.key not in seen:
                seen.add(v.key)
                out.append(v)
        self.notes.append("direct rule tests: %s" % json.dumps(self.direct_counts))
        return out

    def search(self):
        """Something is broken: hunt for an invocation on which a documented rule fails on the binary."""
        import time
        t0 = time.time()
        groups = self.direct_cases(3)
        r = self.rng
        # aim at the tokens of disagreeing correspondence cases: re-test them under the env-prefix and no-op rules
        for dd in getattr(self, "disagreements", [])[:12]:
            c = case_from_json(dd["case"])
            toks = py_env_tokens(c["env"]) + c["args"]
            groups.append(("env-prefix", [c, mk(c["argv0"], toks, gen="search")], None))
            stripped = [t for t in toks if t not in NOOP_LONG and t not in (b"-q", b"-s")]
            if stripped != toks and b"--" not in toks:
                groups.append(("noop", [mk(c["argv0"], stripped, gen="search"), mk(c["argv0"], toks, gen="search")], None))
        # every ordering of -d/-z across the three variables and argv
        for name in (b"lbzip2", b"bunzip2", b"bzcat"):
            for a in (b"-d", b"-z", None):
                for b_ in (b"-d", b"-z", None):
                    for cc in (b"-z", b"-d", None):
                        for dd_ in ([b"-z"], []):
                            seq = [x for x in (a, b_, cc) if x] + dd_
                            last = None
                            for x in seq:
                                last = "D" if x == b"-d" else "C"
                            groups.append(("last-dz", [mk(name, dd_, [a, b_, cc], gen="search")], last))
        viols = self.judge_groups(groups)
        self.notes.append("search: %d rule groups, wall %.1fs" % (len(groups), time.time() - t0))
        seen = set()
        out = []
        for v in viols:
            if v.key not in seen:
                seen.add(v.key)
                out.append(v)
        return out

    def replay(self, path):
        p = json.load(open(path))
        if "cases" not in p:
            print("replay file names no input:", json.dumps(p.get("broken"), indent=1)[:3000])
            return 1
        cs = [case_from_json(j) for j in p["cases"]]
        groups = [(p["rule"], cs, p.get("expected_mode"))]
        for c in cs:
            print("run:", shell_line(c))
        v = self.judge_groups(groups)
        for o in self.run_impl(cs):
            print("  ->", obs_key(o)[:400])
        try:
            for c, ml in zip(cs, self.run_model(cs)):
                print("model:", ml)
        except Exception as e:
            print("model not available:", e)
        if v:
            print("still violated:", v[0].summary[:600])
            return 1
        print("rule holds on this input now")
        return 0
