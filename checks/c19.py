"""C19 - -cdf passes non-bzip2 data through unchanged."""
import json
import os
import time

import vlib
import schedc_lib as L
from runner import PropertyCheck, Broken, Violation


class Check(PropertyCheck):
    pid = "C19"
    props_module = "Properties.Properties_C19"
    extra_targets = ["Extract/ExtractCopy.vo"]
    gen_files = ["SchedCTab.v"]
    trusted_base = [
        "Coq 8.16.1 kernel (coqc); vm_compute only in the two Examples; no axioms",
        "translator lib/gen_schedc.py: copy() constants, copy_terminate raise condition, the magic test, the fallback "
        "condition and the length expression of the header write are transcribed from process.c into Gen/SchedCTab.v; the "
        "bodies of copy_on_input_avail/copy_on_write_complete and the pseudo_process initialiser are checked textually",
        "hand model SchedC/Copy.v (work() sniff, reader, writer, halt, signal counting); tied by running the extracted model "
        "(harness/schedc_copy_driver.ml) and the real binary on the same inputs and comparing path, exit status and bytes",
        "POSIX: read() on a pipe returns 1..n bytes or 0 at end of file; a blocked SIGUSR2 raised twice stays pending once; "
        "out_slots (unsigned) is modelled in Z, a transient -1 stands for UINT_MAX",
    ]
    assumptions = ["standard output is the output (fd 1) and -f is given, for the pass-through theorems"]

    def cases(self):
        r = self.rng
        cs = []
        G = 65536
        sizes = list(range(0, 6)) + list(range(G - 4, G + 5)) + list(range(2 * G - 2, 2 * G + 3)) + \
            [G + 3, G + 4, G + 5, 2 * G + 4, 3 * G + 4]
        sizes += [r.range(6, 3000) for _ in range(8)] + [r.range(3000, 400000) for _ in range(6 if self.tier == "quick" else 40)]
        for n in sizes:
            cs.append(("rand", L.noise(r, n)))
        # near-miss prefixes and genuine headers followed by garbage
        for pre in (b"B", b"BZ", b"BZh", b"BZh0", b"BZhA", b"BZh:", b"BZi1", b"AZh1", b"BZH1", b"bZh1"):
            for extra in (0, 1, 100, G + 7):
                cs.append(("nearmiss", pre + L.noise(r, extra)))
        for d in b"19":
            for extra in (0, 1, 50, 7000):
                cs.append(("magic+garbage", b"BZh" + bytes([d]) + L.noise(r, extra)))
        # a valid compressed stream (must be decompressed as with plain -d)
        import bz2
        cs.append(("magic+valid", bz2.compress(b"hello world\n" * 50, 1)))
        cs.append(("magic+valid", bz2.compress(L.noise(r, 70000), 9)))
        # a near-miss prefix followed by noise can be a genuine header by chance ("BZh" + a noise byte '1'..'9'): label by content
        cs = [(("magic+garbage" if (len(d) >= 4 and d[:3] == b"BZh" and 0x31 <= d[3] <= 0x39 and not k.startswith("magic")) else k), d)
              for k, d in cs]
        return cs

    def frag_plans(self, n):
        r = self.rng
        plans = [None, [1], [r.range(1, 7) for _ in range(50)], [r.choice([1, 2, 3, 4, 5, 4096]) for _ in range(40)]]
        if n > 20000:
            plans[1] = [1] * 9 + [4096] * 3          # bytes 0..8 one at a time, then packets
        return plans

    def run_impl(self, exe, data, mode, plan, args=("-cdf",), seed=None):
        env = {"LBZIP2_VERIF_SCHED": str(seed)} if seed is not None else None
        if mode == "file":
            path = os.path.join(self.work, "in_%d.bin" % (os.getpid() * 1000 + self.rng.below(1000)))
            with open(path, "wb") as f:
                f.write(data)
            try:
                return L.run_file(exe, list(args), path, env=env, timeout=40)
            finally:
                os.unlink(path)
        if mode == "shim":
            # deterministic read() fragmentation: plan = (seed, max bytes per read)
            env = dict(env or {})
            env.update({"LD_PRELOAD": L.build_shim(), "SCHEDC_SHORTREAD": str(plan[0]), "SCHEDC_SHORTREAD_MAX": str(plan[1])})
            return L.run_piped(exe, list(args), data, frags=None, env=env, timeout=90)
        return L.run_piped(exe, list(args), data, frags=plan, env=env, timeout=60)

    def correspond(self):
        exe_d = vlib.build_lbzip2("dbg")
        exe_r = vlib.build_lbzip2("rel")
        md = vlib.build_ocaml("copy_model", os.path.join(vlib.COQ, "Extract", "ml"), ["copy_model"], "schedc_copy_driver.ml")
        cs = self.cases()
        jobs = []
        for ix, (kind, data) in enumerate(cs):
            plans = self.frag_plans(len(data))
            jobs.append((ix, kind, data, "file", None))
            jobs.append((ix, kind, data, "pipe", plans[2]))
            jobs.append((ix, kind, data, "shim", (self.rng.below(1000), 1)))            # one byte per read()
            jobs.append((ix, kind, data, "shim", (self.rng.below(1000), self.rng.choice([2, 3, 5, 7, 4096, 70000]))))
        self.rng_seeds = [self.rng.below(100000) for _ in jobs]

        def one(k):
            ix, kind, data, mode, plan = jobs[k]
            exe = exe_d if k % 2 == 0 else exe_r
            rc, out, err, to = self.run_impl(exe, data, mode, plan, seed=self.rng_seeds[k] if k % 3 else None)
            ref = None
            if kind.startswith("magic"):
                ref = self.run_impl(exe, data, mode, plan, args=("-cd",), seed=None)
            return (rc, out, err.decode("latin-1")[-200:], to, ref)
        results = L.pmap(one, list(range(len(jobs))))
        self.jobs_, self.results_ = jobs, results
        # the model on the same cases (fragmentation limited to what the unary-nat model can run quickly)
        lines = []
        for k, (ix, kind, data, mode, plan) in enumerate(jobs):
            if len(data) > 140000:
                lines.append(None)
                continue
            if mode == "shim":
                plan_m = [1] if plan[1] == 1 else [1 + (plan[0] * 7 + i * 13) % plan[1] for i in range(64)]
            else:
                plan_m = plan
            fr = plan_m if (plan_m and len(data) <= 3000) else ([4096] if plan_m else None)
            frs = "-" if not fr else ",".join(str(x) for x in (fr * 40)[:4000])
            lines.append("1 1 %d %s %s" % (k, data.hex() or "-", frs))
        inp = "\n".join(l for l in lines if l) + "\n"
        rc2, mo, me = vlib.sh([md], input=inp.encode(), timeout=600)
        mout = iter(mo.splitlines())
        hist = {"COPY": 0, "DECOMPRESS": 0, "FAIL": 0, "file": 0, "pipe": 0, "shim": 0, "sizes_0_3": 0, "block_boundary": 0, "model_skipped": 0}
        nontrivial = set()
        ndis = 0
        if rc2 != 0:
            self.broken.append(Broken("correspondence", "extracted copy model driver failed", me[-500:]))
        for k, (ix, kind, data, mode, plan) in enumerate(jobs):
            rc, out, err, to, ref = results[k]
            hist[mode] += 1
            if len(data) <= 3:
                hist["sizes_0_3"] += 1
            if len(data) % 65536 in (0, 1, 2, 3, 4, 5, 65535, 65534, 65533, 65532) and len(data) > 60000:
                hist["block_boundary"] += 1
            if lines[k] is None:
                hist["model_skipped"] += 1
                continue
            m = next(mout, "MISSING").split()
            if len(m) < 5:
                self.broken.append(Broken("correspondence", "model gave no verdict for case %d" % k, " ".join(m)))
                continue
            mkind, mexit, mraised, mhex = m[0], m[1], m[2], m[3]
            hist[mkind] = hist.get(mkind, 0) + 1
            if mkind == "COPY":
                want = (0, bytes.fromhex("" if mhex == "-" else mhex))
                got = (rc, out)
                ok = (not to) and got == want and mexit == "0" and mraised == "1"
                if len(data) > 4:
                    nontrivial.add((data[:64], len(data), mode, tuple(plan or ())[:8]))
            elif mkind == "DECOMPRESS":
                ok = (not to) and ref is not None and (rc, out) == (ref[0], ref[1])
            else:
                ok = False
            if not ok:
                ndis += 1
                if ndis <= 5:
                    self.broken.append(Broken("correspondence", "-cdf run differs from the model: kind=%s size=%d input=%s "
                                              "frag=%s" % (kind, len(data), mode, (plan or [])[:6]),
                                              "model=%s exit=%s raised=%s; impl rc=%s timeout=%s out_len=%d stderr=%s" % (
                                                  mkind, mexit, mraised, rc, to, len(out), err)))
        return {"evaluations": len(jobs), "distinct_nontrivial": len(nontrivial),
                "rule": "one evaluation = one `lbzip2 -cdf` run (file input or packet-pipe input with the stated read() "
                        "fragmentation, asserts-on and release builds alternating, hook H1 on two thirds) compared with the "
                        "extracted Copy model on the same bytes (path taken, exit status, SIGUSR2 count, bytes written; for "
                        "inputs starting with a bzip2 header: identical stdout and status to plain `-cd`); non-trivial = "
                        "distinct (input, fragmentation) cases longer than 4 bytes that went through the reader/writer pipeline",
                "samples": [{"kind": j[1], "size": len(j[2]), "input": j[3], "frag": (j[4] or [])[:5]} for j in jobs[:4]],
                "histogram": hist, "disagreements": ndis}

    def slow_sink_runs(self):
        """-cdf copy with a consumer of standard output that starts reading late and slowly: more than two 64 KiB buffers are
        under way between reader and writer if anything but in_slots bounds them (output_q is a 2-element ring in copy mode)."""
        import subprocess
        exe = vlib.build_lbzip2("rel")
        r = self.rng
        out = []
        sizes = [131077, 200000, 1 << 20] if self.tier == "quick" else [131077, 200000, 400000, 1 << 20, 3 << 20]
        for size in sizes:
            data = b"BZh:" + L.noise(r, size - 4)
            path = os.path.join(self.work, "slow_%d.bin" % size)
            with open(path, "wb") as f:
                f.write(data)
            try:
                for inmode in ("file", "pipe"):
                    fin = open(path, "rb") if inmode == "file" else subprocess.PIPE
                    p = subprocess.Popen([exe, "-cdf", "-n2"], stdin=fin, stdout=subprocess.PIPE, stderr=subprocess.PIPE)
                    if inmode == "pipe":
                        import threading
                        def feed(pp=p, d=data):
                            try:
                                pp.stdin.write(d)
                                pp.stdin.close()
                            except OSError:
                                pass
                        threading.Thread(target=feed, daemon=True).start()
                    else:
                        fin.close()
                    time.sleep(0.6)
                    got = bytearray()
                    import select
                    deadline = time.time() + vlib.hang_timeout(40)
                    rc = None
                    while True:
                        ready, _, _ = select.select([p.stdout], [], [], max(0.0, min(1.0, deadline - time.time())))
                        if ready:
                            b = os.read(p.stdout.fileno(), 4096)
                            if not b:
                                break
                            got += b
                            if len(got) < 65536:
                                time.sleep(0.002)
                        elif time.time() >= deadline:       # no output and no end of file: the program hangs
                            p.kill()
                            vlib.note_hang()
                            rc = 124
                            break
                    if rc is None:
                        try:
                            rc = p.wait(timeout=30)
                        except subprocess.TimeoutExpired:
                            p.kill()
                            rc = 124
                    err = p.stderr.read().decode("latin-1")[-200:]
                    if rc != 0 or bytes(got) != data:
                        out.append(Violation("cdf-copy-mismatch", "lbzip2 -cdf -n2 with a slow consumer of standard output (%s input, %d bytes): exit %s, "
                                             "%d bytes copied, equal=%s %s" % (inmode, size, rc, len(got), bytes(got) == data, err.replace("\n", " | ")),
                                             {"size": size, "mode": "slowsink-" + inmode, "rc": rc, "stderr": err, "input_hex": data[:2000].hex()}))
                        return out
            finally:
                os.unlink(path)
        self.notes.append("slow-consumer copy runs: %d sizes x {file, pipe}: all exact" % len(sizes))
        return out

    def direct(self):
        """The property itself: stdout == stdin, exit 0, for non-magic inputs."""
        v = self.slow_sink_runs()
        for (ix, kind, data, mode, plan), (rc, out, err, to, ref) in zip(getattr(self, "jobs_", []), getattr(self, "results_", [])):
            magic = len(data) >= 4 and data[:3] == b"BZh" and 0x31 <= data[3] <= 0x39
            desc = "size=%d first=%s input=%s frag=%s" % (len(data), data[:6].hex(), mode, (plan or [])[:6])
            payload = {"input_hex": data[:300000].hex(), "size": len(data), "mode": mode, "frag": plan, "rc": rc, "stderr": err}
            if to:
                v.append(Violation("cdf-hang", "lbzip2 -cdf does not terminate (watchdog): " + desc, payload))
            elif not magic and (rc != 0 or out != data):
                what = "exit status %s" % rc if rc != 0 else "output differs from input (%d vs %d bytes, first difference at %d)" % (
                    len(out), len(data), next((i for i in range(min(len(out), len(data))) if out[i] != data[i]), min(len(out), len(data))))
                v.append(Violation("cdf-copy-mismatch", "lbzip2 -cdf on non-bzip2 input: %s; %s" % (what, desc), payload))
            elif magic and ref is not None and (rc, out) != (ref[0], ref[1]):
                v.append(Violation("cdf-magic-differs", "input with a bzip2 header: -cdf and plain -cd differ; " + desc, payload))
            if len(v) >= 4:
                break
        return v

    def search(self):
        # more seeds / fragmentations around the block boundaries and tiny inputs
        exe = vlib.build_lbzip2("dbg")
        r = self.rng
        jobs = []
        for n in list(range(0, 9)) + [65536 + d for d in range(-5, 9)] + [131072 + d for d in range(0, 8)]:
            data = L.noise(r, n)
            for rep in range(3):
                jobs.append((0, "rand", data, "shim", (r.below(1000), r.choice([1, 2, 3, 5, 4096]))))
            jobs.append((0, "rand", data, "file", None))
        seeds = [r.below(100000) for _ in jobs]

        def one(k):
            ix, kind, data, mode, plan = jobs[k]
            rc, out, err, to = self.run_impl(exe, data, mode, plan, seed=seeds[k])
            return (rc, out, err.decode("latin-1")[-200:], to, None)
        res = L.pmap(one, list(range(len(jobs))))
        self.jobs_, self.results_ = jobs, res
        return self.direct()

    def replay(self, path):
        p = json.load(open(path))
        if "input_hex" not in p:
            print("replay file names no input:", json.dumps(p.get("broken"), indent=1)[:3000])
            return 1
        data = bytes.fromhex(p["input_hex"])
        exe = vlib.build_lbzip2("dbg")
        bad = 0
        for rep in range(10):
            rc, out, err, to = self.run_impl(exe, data, p.get("mode", "pipe"), p.get("frag"), seed=rep)
            if to or rc != 0 or out != data:
                bad += 1
        print("replayed 10 runs of the %d-byte input: %d failing" % (len(data), bad))
        return 1 if bad else 0
