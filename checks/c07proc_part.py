"""C07 helper - process level of "damaged input is rejected cleanly".

correspond(check): ties the data-error roles of the fatal-exit state machine (coq/IoFail/DataFail.v,
theorems in coq/Properties/Properties_C07proc.v; tables regenerated into coq/Gen/DataFailTab.v and
coq/Gen/IoFailTab.v) to the real binary.  No fault injection is needed: damaged inputs make the real
program take the modelled path.

For every generated file (the whole defect catalogue of harness/bzcraft.py, truncations of valid files,
files without bzip2 magic, valid files with and without trailing garbage):
  * the extracted codec model (Extract/ml/dec_model.ml via harness/dec_driver.ml, `lbz` policy) gives the
    verdict: OK, or the error kind;
  * the error kind selects the call sites of the regenerated table [data_sites] that can report it
    (main-thread site of work() for "not bzip2", worker sites whose err2str() argument admits the code).
    With several workers the real program may report ANOTHER error of the same damaged file than the
    sequential codec model (the parser runs ahead of the block decoders: e.g. "bad block header magic"
    instead of "invalid delta code"); therefore the stderr text is compared with the lines the model
    renders for the worker sites over all error codes, the thread kind (main / worker) being fixed by the
    codec verdict; the histogram counts how often the code is the codec model's;
  * the extracted process model (Extract/ml/datafail_model.ml via harness/datafail_driver.ml) is run for
    such a site under a random schedule with random other-thread events and returns the outcome, the
    number of diagnostics and the rendered stderr line (program name and file designation substituted);
  * the real binary (built from the current source) is run on the file in six modes (-d / -t / -dc, each
    on stdin and on a FILE operand), with 1/2/3/4 workers, hook H1 schedule seeds and hook H2 block sizes;
    exit status and the complete stderr text must equal the prediction (exit 0 and empty stderr when the
    codec model accepts - trailing garbage is accepted silently, there is no warning); for `-d FILE` the
    directory must afterwards contain the input only (cleanup() precedes _exit() in the model);
  * in a sample of runs hook H3 (LBZIP2_VERIF_TRACE) tells which tasks were in progress when the process
    died: one of them must be the function of a site that prints the observed text (exact with one worker).
Disagreements are appended to check.broken as Broken("correspondence", ...).
"""
import os
import re
import shutil
import subprocess
from concurrent.futures import ThreadPoolExecutor

import vlib
import declib
from runner import Broken

# dec_driver.ml error names -> enumerators of `enum error` (common.h); NotBzip2 is not an enumerator
ERR_C_NAME = {
    "EOF": "ERR_EOF", "Header": "ERR_HEADER", "Bitmap": "ERR_BITMAP", "Trees": "ERR_TREES", "Groups": "ERR_GROUPS",
    "Selector": "ERR_SELECTOR", "Delta": "ERR_DELTA", "Prefix": "ERR_PREFIX", "Incomplete": "ERR_INCOMPLT",
    "Empty": "ERR_EMPTY", "Unterm": "ERR_UNTERM", "Runlen": "ERR_RUNLEN", "BlkCrc": "ERR_BLKCRC",
    "StrmCrc": "ERR_STRMCRC", "Overflow": "ERR_OVERFLOW", "BwtIdx": "ERR_BWTIDX",
}
# (name, options, FILE operand?)
MODES = [("d-stdin", ["-d"], False), ("t-stdin", ["-t"], False), ("dc-stdin", ["-dc"], False),
         ("d-file", ["-d"], True), ("t-file", ["-t"], True), ("dc-file", ["-dc"], True)]
FNAME = "x.bz2"


def build_driver():
    return vlib.build_ocaml("datafail_model", os.path.join(vlib.COQ, "Extract", "ml"), ["datafail_model"], "datafail_driver.ml")


def _fields(line):
    d = {}
    for m in re.finditer(r"(\w+)=((?:EXIT |KILL )?\S+)", line):
        d[m.group(1)] = m.group(2)
    return d


def _hex(s):
    return s.encode("latin-1").hex() if s else "-"


def gen_files(rng, quick):
    files = []

    def add(f, tag):
        files.append((bytes(f), tag))
    per_kind = 2 if quick else 5
    for kind in declib.bzcraft.DEFECTS:
        for _ in range(per_kind):
            try:
                f, k, _exp = declib.bzcraft.one_defect(rng, kind, 200)
            except RecursionError:
                continue
            add(f, "defect:" + k)
    for _ in range(3 if quick else 5):
        f, _plain = declib.bzcraft.valid_file(rng, 150)
        add(f, "valid")
        add(f + rng.bytes(rng.range(1, 9)), "valid+garbage")
        add(f + b"\0" * rng.range(1, 5), "valid+zeros")
        step = max(4, len(f) // 40) if quick else max(1, len(f) // 150)
        for cut in range(rng.below(step), len(f), step):
            add(f[:cut], "trunc")
    for f in (b"", b"B", b"BZ", b"BZh", b"BZh0" + b"x" * 20, b"BZh:" + b"x" * 9, b"hello world, not bzip2 at all\n",
              b"\x1f\x8b\x08\x00" + b"\0" * 30, b"\0" * 10, b"BZh9", b"BZh91AY&SY", b"BZh1\x17\x72\x45\x38\x50\x90\0\0\0\0"):
        add(f, "fixed")
    return files


def rand_schedule(rng, nothers):
    toks = []
    for _ in range(rng.range(0, 30)):
        c = rng.below(10)
        if c < 3:
            toks.append("F")
        elif c < 6:
            toks.append("M")
        elif c == 6:
            toks.append(rng.choice(["O", "D", "C"]))
        elif nothers:
            toks.append("x%d:%s" % (rng.below(nothers), rng.choice("rcie")))
    return ",".join(toks) if toks else "-"


def correspond(check, flavor="rel"):
    """Conventions of PropertyCheck.correspond: uses check.rng, appends Broken(...) to check.broken,
    returns the coverage dict."""
    rng = check.rng
    quick = getattr(check, "tier", "quick") == "quick"
    empty = {"evaluations": 0, "distinct_nontrivial": 0, "rule": "build failed", "samples": [], "histogram": {}}
    try:
        exe = vlib.build_lbzip2(flavor)
        drv = build_driver()
        declib.model_driver()
    except vlib.BuildError as ex:
        check.broken.append(Broken("correspondence", "c07proc_part: binary or model driver does not build", str(ex)[-1500:]))
        return empty
    pname = os.path.basename(exe)

    # ---- the regenerated tables as seen by the extracted model
    rc, out, err = vlib.sh([drv], input=b"SITES\nTASKS\nCHECK\n", timeout=600)
    lines = out.splitlines()
    sites = [_fields(l) for l in lines if l.startswith("SITE ")]
    for i, l in enumerate([l for l in lines if l.startswith("SITE ")]):
        sites[i]["idx"] = int(l.split()[1])
    tasks = {}
    chk = {}
    for l in lines:
        if l.startswith("TASKS "):
            tasks = dict(kv.split("=") for kv in l[6:].split(",") if "=" in kv)
        if l.startswith("CHECK "):
            chk = _fields(l)
    if rc != 0 or not sites or not chk:
        check.broken.append(Broken("correspondence", "datafail driver failed (rc=%s)" % rc, (out + err)[-1500:]))
        return empty
    for k in ("dcheck_all", "structure_ok", "no_warning_site", "no_warn_call"):
        if chk.get(k) != "true":
            check.broken.append(Broken("correspondence", "extracted model: %s = %s on the regenerated tables "
                                       "(the corresponding proof obligation of Properties_C07proc is open)" % (k, chk.get(k)), l))
    main_sites = [s for s in sites if s["main"] == "1"]
    worker_sites = [s for s in sites if s["main"] == "0"]

    # ---- files and codec verdicts
    files = gen_files(rng, quick)
    model = declib.run_model("lbz", [f for f, _ in files])
    codes = {}
    names = sorted(set(ERR_C_NAME.values()))
    rc, out, err = vlib.sh([drv], input=("".join("CODE %s\n" % n for n in names)).encode(), timeout=600)
    for n, l in zip(names, out.splitlines()):
        codes[n] = None if l.strip() == "CODE none" else int(l.split()[1])

    # ---- the runs: (file index, mode, workers, env)
    runs = []
    for i, (f, tag) in enumerate(files):
        for j, (mname, opts, isfile) in enumerate(MODES):
            if quick and tag == "trunc" and (i + j) % 3:
                continue
            nw = [1, 2, 4, 3][(i + j) % 4]
            env = {}
            if (i + 2 * j) % 3 == 0:
                env["LBZIP2_VERIF_SCHED"] = str(1 + rng.below(100000))
            g = declib.GRANULES[(i + j) % len(declib.GRANULES)]
            if g:
                env["LBZIP2_VERIF_IN_GRANUL"], env["LBZIP2_VERIF_OUT_GRANUL"] = g
            trace = (i + j) % 4 == 0
            if trace and (i // 4) % 2 == 0:
                nw = 1
            runs.append(dict(i=i, mode=mname, opts=opts, isfile=isfile, nw=nw, env=env, trace=trace))

    # ---- predictions
    req = []
    for r in runs:
        m = model[r["i"]]
        r["kind"] = m.split()[1] if m.startswith("ERR") else ("OK" if m.startswith("OK") else m)
        r["cands"] = []
        if r["kind"] == "NotBzip2":
            r["cands"] = [(s, 0) for s in main_sites]
        elif r["kind"] in ERR_C_NAME and codes.get(ERR_C_NAME[r["kind"]]) is not None:
            r["cands"] = [(s, codes[ERR_C_NAME[r["kind"]]]) for s in worker_sites]
        sep, fsname = ('"', FNAME) if r["isfile"] else ("", "stdin")
        r["req"] = []
        for s, code in r["cands"]:
            nothers = r["nw"] + 2
            r["req"].append(len(req))
            req.append("RUN %d %d %d %d %s %s %s %s" % (s["idx"], code, rng.below(2), nothers, rand_schedule(rng, nothers),
                                                       _hex(pname), _hex(sep), _hex(fsname)))
    # every line a site can print: (FILE operand?, site, code) for every code of `enum error` named by the codec model
    table_keys = []
    for isfile in (False, True):
        sep, fsname = ('"', FNAME) if isfile else ("", "stdin")
        for s in sites:
            for code in ([0] if s["main"] == "1" else sorted(c for c in codes.values() if c is not None)):
                table_keys.append((isfile, s["idx"], code, len(req)))
                req.append("RUN %d %d 0 0 - %s %s %s" % (s["idx"], code, _hex(pname), _hex(sep), _hex(fsname)))
    rc, out, err = vlib.sh([drv], input=("\n".join(req) + "\n").encode(), timeout=1200)
    res = [_fields(l) for l in out.splitlines()]
    if rc != 0 or len(res) != len(req):
        check.broken.append(Broken("correspondence", "datafail driver failed on RUN requests (rc=%s, %d/%d lines)" % (rc, len(res), len(req)),
                                   err[-1500:]))
        return empty

    # ---- the real binary
    root = os.path.join(getattr(check, "work", os.path.join(vlib.WORK, "C07")), "c07proc")
    shutil.rmtree(root, ignore_errors=True)
    os.makedirs(root)

    def run_one(kr):
        k, r = kr
        f = files[r["i"]][0]
        d = os.path.join(root, "r%d" % k)
        os.makedirs(d)
        e = dict(os.environ)
        e.update(r["env"])
        tr = os.path.join(root, "trace%d" % k)
        if r["trace"]:
            e["LBZIP2_VERIF_TRACE"] = tr
        args = [exe, "-n%d" % r["nw"]] + r["opts"]
        inp = f
        if r["isfile"]:
            with open(os.path.join(d, FNAME), "wb") as fh:
                fh.write(f)
            args.append(FNAME)
            inp = b""
        try:
            p = subprocess.run(args, input=inp, stdout=subprocess.PIPE, stderr=subprocess.PIPE, timeout=20, env=e, cwd=d)
            rc_, so, se = p.returncode, p.stdout, p.stderr
        except subprocess.TimeoutExpired:
            rc_, so, se = "HANG", b"", b""
        listing = sorted(os.listdir(d))
        open_tasks = None
        if r["trace"]:
            open_tasks = []
            if os.path.exists(tr):
                cur = {}
                with open(tr, errors="replace") as fh:
                    for ln in fh:
                        m = re.search(r" k=(\S+) t=(\d+)", ln)
                        if not m:
                            continue
                        if m.group(1).startswith("S:"):
                            cur[m.group(2)] = m.group(1)[2:]
                        elif m.group(1) in ("R", "X", "W"):
                            cur.pop(m.group(2), None)
                open_tasks = sorted(set(cur.values()))
                os.remove(tr)
        shutil.rmtree(d, ignore_errors=True)
        return rc_, so, se, listing, open_tasks
    with ThreadPoolExecutor(vlib.NCPU) as ex:
        impl = list(ex.map(run_one, list(enumerate(runs))))
    shutil.rmtree(root, ignore_errors=True)

    # ---- comparison
    by_idx = dict((s["idx"], s) for s in sites)
    hist = {"kind": {}, "mode": {}, "site": {}, "workers": {}, "same_error_as_codec_model": {}, "other_error_than_codec_model": {}, "traced": 0, "traced_exact": 0, "sched_seeded": 0,
            "model_schedules": len(req)}
    distinct = set()
    ndiff = 0
    samples = []

    def differ(what, r, detail):
        nonlocal ndiff
        ndiff += 1
        if ndiff <= 6:
            f, tag = files[r["i"]]
            check.broken.append(Broken("correspondence", "process-level data-error model vs `%s -n%d %s%s`: %s (%s file, %d bytes, codec verdict %s)"
                                       % (pname, r["nw"], " ".join(r["opts"]), " FILE" if r["isfile"] else "", what, tag, len(f), r["kind"]),
                                       "%s env=%s file_hex=%s" % (detail, r["env"], f.hex()[:400])))
    for r, (rc_, so, se, listing, open_tasks) in zip(runs, impl):
        f, tag = files[r["i"]]
        hist["kind"][r["kind"]] = hist["kind"].get(r["kind"], 0) + 1
        hist["mode"][r["mode"]] = hist["mode"].get(r["mode"], 0) + 1
        hist["workers"][r["nw"]] = hist["workers"].get(r["nw"], 0) + 1
        hist["sched_seeded"] += "LBZIP2_VERIF_SCHED" in r["env"]
        if r["kind"] == "OK":
            # the codec model accepts (possibly with trailing garbage): success, nothing on stderr, no warning status
            if rc_ != int(chk.get("exit_clean", "0")) or se != b"":
                differ("model predicts exit %s with empty stderr, implementation gives %s" % (chk.get("exit_clean"), rc_), r,
                       "stderr=%r" % se[:200])
            elif r["mode"] in ("d-stdin", "dc-stdin", "dc-file") and declib.fmt_out(so) != model[r["i"]]:
                differ("output differs from the codec model", r, "impl=%s model=%s" % (declib.fmt_out(so), model[r["i"]]))
            continue
        if not r["cands"]:
            differ("no call site of the regenerated table can report this verdict", r, "model=%s" % model[r["i"]])
            continue
        distinct.add((f, r["mode"]))
        preds = [res[q] for q in r["req"]]
        bad_model = [p for p in preds if p.get("RES") != p.get("PRED") or p.get("PRINTED") != p.get("PREDPRINTED") or p.get("ADMITS") is None]
        if bad_model:
            differ("model run under a random schedule differs from its canonical prediction", r, str(bad_model[0]))
            continue
        # outcome per site from the model runs under random schedules (the theorem says: the same for all)
        out_of = dict((sc[0]["idx"], (p["RES"], p["PRINTED"])) for sc, p in zip(r["cands"], preds))
        # which (site, code) prints exactly what the implementation printed?  With several workers the
        # implementation may report another error of the same damaged file than the sequential codec
        # model (the parser runs ahead of the block decoders), so every code is admitted for worker sites;
        # the thread kind (main / worker) must be the predicted one.
        cand_main = r["cands"][0][0]["main"]
        matched = []
        for (isfile, sidx, code, q) in table_keys:
            p = res[q]
            if isfile != r["isfile"] or sidx not in out_of or p.get("ADMITS") != "1" or p.get("LINE") in (None, "none"):
                continue
            want_res, want_printed = out_of[sidx]
            m = re.match(r"EXIT (\d+)$", want_res)
            if m and rc_ == int(m.group(1)) and se == (bytes.fromhex(p["LINE"]) if want_printed == "1" else b""):
                matched.append((by_idx[sidx], code))
        if not matched:
            p0 = [p for p in preds if p.get("ADMITS") == "1"][:1]
            differ("exit status / stderr differ: model %s for the %s sites (diagnostic e.g. %r), implementation %s with stderr %r"
                   % (sorted(set(v[0] for v in out_of.values())), "main-thread" if cand_main == "1" else "worker",
                      bytes.fromhex(p0[0]["LINE"]) if p0 and p0[0]["LINE"] not in ("none", "-") else b"", rc_, se[:200]), r,
                   "admissible sites: %s" % [(s["func"], s["arg"]) for s, _ in r["cands"]])
            continue
        ok_sites = [s for s, _ in matched]
        same = any(code == c for (_, c) in r["cands"] for (_, code) in matched)
        hist["same_error_as_codec_model" if same else "other_error_than_codec_model"][r["nw"]] = \
            hist["same_error_as_codec_model" if same else "other_error_than_codec_model"].get(r["nw"], 0) + 1
        if so != b"" and r["mode"] in ("t-stdin", "t-file"):
            differ("-t wrote to stdout", r, "stdout %d bytes" % len(so))
        if r["mode"] == "d-file" and listing != [FNAME]:
            differ("directory after a failed `-d FILE` is %s (model: cleanup() precedes _exit(), the input is kept)" % listing, r, "")
        key = "/".join(sorted(set("%s(%s)" % (s["func"], s["arg"]) for s in ok_sites)))
        hist["site"][key] = hist["site"].get(key, 0) + 1
        if open_tasks is not None:
            hist["traced"] += 1
            funcs = set(s["func"] for s in ok_sites)
            if ok_sites[0]["main"] == "1":
                if open_tasks:
                    differ("main-thread site but the trace shows running tasks %s" % open_tasks, r, "")
            else:
                running = set(tasks.get(t, "?" + t) for t in open_tasks)
                if not (running & funcs):
                    differ("hook H3: the tasks in progress at the end of the trace are %s, none is the function of an admissible site %s"
                           % (sorted(running), sorted(funcs)), r, "")
                elif len(running) == 1:
                    hist["traced_exact"] += 1
        if len(samples) < 3:
            samples.append({"tag": tag, "mode": r["mode"], "workers": r["nw"], "verdict": r["kind"], "rc": rc_,
                            "stderr": se.decode("latin-1")[:120], "file_hex": f.hex()[:80]})
    return {
        "evaluations": len(runs),
        "distinct_nontrivial": len(distinct),
        "rule": "runs of the real binary (-d/-t/-dc on stdin and on a FILE operand; 1-4 workers; H1 schedule seeds; H2 block sizes) on the "
                "defect catalogue, truncations, non-bzip2 files and valid files with/without trailing garbage; compared with the extracted "
                "process model (site chosen by the extracted codec model's verdict, random model schedules): exit status, complete stderr "
                "text, no output file after `-d FILE`, task in progress (H3) = function of the site; non-trivial = distinct (file, mode) "
                "pairs on which a data-error site fires",
        "samples": samples,
        "histogram": hist,
        "disagreements": ndiff,
        "files": len(files),
    }


if __name__ == "__main__":     # stand-alone run: python3 checks/c07proc_part.py [seed] [quick|thorough]
    import sys
    import json
    import time

    class _C:
        pass
    c = _C()
    c.rng = vlib.SplitMix(int(sys.argv[1]) if len(sys.argv) > 1 else 7)
    c.broken = []
    c.tier = sys.argv[2] if len(sys.argv) > 2 else "quick"
    c.work = os.path.join(vlib.WORK, "C07")
    os.makedirs(c.work, exist_ok=True)
    t0 = time.time()
    r = correspond(c)
    print(json.dumps(r, indent=1)[:4000])
    print("seconds: %.1f" % (time.time() - t0))
    for b in c.broken[:8]:
        print("BROKEN", b.kind, b.what[:500], "|", b.detail[:300])
    sys.exit(1 if c.broken else 0)
