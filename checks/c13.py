"""C13 - Peak memory is bounded by the worker count (compression scheduler part).

Proof: ledger invariant mem(state) <= B(n, level) with B linear in n (Properties_C13).
Tie: sizes / slot formulas / capacities regenerated; trace replay shared with C11;
MEASUREMENT (support, not proof): peak live heap of the real binary under an
LD_PRELOAD malloc counter on growing inputs stays below B(n) and flat in input size."""
import json
import os
import struct

import vlib
import schedc_lib as L
from runner import PropertyCheck, Broken, Violation

try:
    import schedx_part
except Exception:
    schedx_part = None
if schedx_part is not None and not all(hasattr(schedx_part, f) for f in ("correspond_x", "direct_x", "search_x")):
    schedx_part = None

LEAK_LIMIT = 4096             # bytes that may remain allocated at a successful exit (measured: 888 with one worker, 1184 otherwise)
LIBC_SLACK = 1 << 20          # stdio buffers, per-thread allocator bookkeeping, getopt, ... (not modelled)


def out_bound(level):
    """Hypothesis OB of the theorem, instantiated for the measurement: worst-case size of
    one compressed block of level*100000 RLE bytes (incompressible data expands by < 1% + tables)."""
    m = level * 100000
    return m + m // 50 + 8192


class Check(PropertyCheck):
    pid = "C13"
    props_module = "Properties.Properties_C13"
    extra_targets = ["Extract/ExtractSchedC.vo"] + (list(getattr(schedx_part, "extra_targets", [])) if schedx_part else [])
    gen_files = ["SchedCTab.v", "DecTabs.v", "CrcTab.v", "Consts.v"] + (list(getattr(schedx_part, "gen_files", [])) if schedx_part else [])
    extra_props = list(getattr(schedx_part, "extra_props_c13", [])) if schedx_part else []
    trusted_base = [
        "Coq 8.16.1 kernel (coqc); vm_compute in one Example; no axioms",
        "translator lib/gen_schedc.py: slot formulas, capacities, encoder_alloc_size expression, sizeof of struct in_blk / "
        "work_blk / block / encoder_state (measured by compiling a probe against the current sources), allocation sites "
        "checked textually",
        "hand model: which object belongs to which model item (SchedC/SchedCMem.v); the bound OB on one output buffer is a "
        "hypothesis of the theorem (codec property)",
        "measurement only (support): LD_PRELOAD malloc counter harness/schedc_heapcount.c",
    ]
    assumptions = [
        "PARTIAL: heap objects of compress.c/process.c only; RSS = heap + thread stacks + allocator slack + libc + binary "
        "is not modelled; decompression scheduler belongs to area SchedX",
        "forall e, buf_size e <= OB",
    ]

    def bounds(self, pairs):
        rp = L.build_replayer()
        inp = "".join("BOUND %d %d %d\n" % (out_bound(l), n, l) for n, l in pairs)
        rc, out, err = vlib.sh([rp], input=inp.encode(), timeout=60)
        res = {}
        for line in out.splitlines():
            p = line.split()
            if len(p) == 5 and p[0] == "BOUND":
                res[(int(p[2]), int(p[3]))] = int(p[4])
        return res

    def measure(self, exe, data, n, level, tag, extra=()):
        so = L.build_shim()
        hp = os.path.join(self.work, "heap_%s.bin" % tag)
        if os.path.exists(hp):
            os.unlink(hp)
        ip = os.path.join(self.work, "in_%s.dat" % tag)
        with open(ip, "wb") as f:
            f.write(data)
        try:
            rc, out, err, to = L.run_file(exe, ["-n", str(n), "-%d" % level] + list(extra), ip,
                                          env={"LD_PRELOAD": so, "SCHEDC_HEAP_OUT": hp}, timeout=300)
            peak = blocks = live = -1
            if os.path.exists(hp):
                raw = open(hp, "rb").read()
                if len(raw) >= 24:
                    live, peak, blocks = struct.unpack("<qqq", raw[:24])
            return {"rc": rc, "timeout": to, "peak": peak, "blocks": blocks, "live": live, "out_len": len(out)}
        finally:
            for p in (hp, ip):
                if os.path.exists(p):
                    os.unlink(p)

    def correspond(self):
        # tie of the model: trace replay (shared with C11), small batch
        import c11
        c = c11.Check(self.tier, self.seed)
        c.work = self.work
        js = c.jobs(30 if self.tier == "quick" else 120)
        results = c.run_jobs(js, "m")
        rc, out, err, unp = c.replay_all(results)
        fails = 0
        nontriv = set()
        for r in results:
            st = out.get(r["tag"])
            if r["timeout"] or r["rc"] != 0 or not st or st[0] != "OK":
                fails += 1
                if fails <= 3:
                    self.broken.append(Broken("correspondence", "trace is not a run of the model (n=%d seed=%d rc=%s)" % (
                        r["n"], r["seed"], r["rc"]), (st[1] if st else r["err"])[:1000]))
            elif len(r["trace"]) > 20:
                nontriv.add((r["job"], tuple(r["trace"][:300])))
        # measurement
        exe = vlib.build_lbzip2("rel")
        sizes = [1, 8, 64] if self.tier == "quick" else [1, 4, 16, 64, 256]
        ns = [1, 2, 4, 8]
        level = 9
        rng = vlib.SplitMix(self.seed + 99)
        base = {"zeros": bytes(1 << 20), "random": L.noise(rng, 1 << 20)}
        jobs = [(kind, mb, n, ultra) for kind in ("zeros", "random") for mb in sizes for n in ns for ultra in (False,)]
        jobs += [("random", sizes[-1] // 4 or 1, n, True) for n in (1, 4)]
        bnd = self.bounds([(n, level) for n in ns])

        def one(k):
            kind, mb, n, ultra = jobs[k]
            data = base[kind] * mb
            return self.measure(exe, data, n, level, "k%d" % k, extra=("--sequential",) if ultra else ())
        meas = L.pmap(one, list(range(len(jobs))), par=6)
        self.meas = list(zip(jobs, meas))
        self.bnd = bnd
        table = {}
        for (kind, mb, n, ultra), m in self.meas:
            table["%s/%dMB/n%d%s" % (kind, mb, n, "/seq" if ultra else "")] = {"peak": m["peak"], "live_at_exit": m.get("live"), "bound": bnd.get((n, level)),
                                                                          "live_blocks_at_peak": m["blocks"], "rc": m["rc"]}
        cov = {"evaluations": len(results) + len(jobs), "distinct_nontrivial": len(nontriv) + len(jobs),
               "rule": "evaluations = traced runs replayed through the extracted scheduler model (tie of the model; non-trivial = "
                       "distinct traces with more than 20 records) + heap measurements (support, not proof): peak live heap bytes "
                       "under the LD_PRELOAD counter for level 9, zeros and random data, %s MB, n in %s, compared with the proved "
                       "B(n) evaluated by the extracted definition with OB=%d plus %d bytes of unmodelled libc allocations" % (
                           sizes, ns, out_bound(level), LIBC_SLACK) +
                       ("" if schedx_part else "; decompression part (area SchedX) not present: compression only"),
               "samples": [list(j) for j in js[:3]], "histogram": {"measurements": table, "replay_failures": fails}}
        if schedx_part:
            try:
                cx = schedx_part.correspond_x(self) or {}
                cov["decompression"] = {k: v for k, v in cx.items() if k != "samples"}
                cov["evaluations"] += int(cx.get("evaluations", 0))
                cov["distinct_nontrivial"] += int(cx.get("distinct_nontrivial", 0))
                cov["rule"] += " || decompression: " + str(cx.get("rule", ""))[:1200]
            except vlib.BuildError:
                raise
            except Exception as e:
                self.broken.append(Broken("correspondence", "schedx_part.correspond_x crashed", repr(e)[:500]))
        return cov

    def direct(self):
        v = []
        level = 9
        peaks = {}
        for (kind, mb, n, ultra), m in getattr(self, "meas", []):
            desc = "%s data, %d MB, -n %d -%d%s" % (kind, mb, n, level, " --sequential" if ultra else "")
            b = self.bnd.get((n, level))
            payload = {"kind": kind, "mb": mb, "n": n, "ultra": ultra, "peak": m["peak"], "bound": b}
            if m["timeout"] or m["rc"] != 0 or m["peak"] < 0:
                v.append(Violation("measure-failed", "measurement run failed (rc=%s): %s" % (m["rc"], desc), payload, found_input=True))
                continue
            if b is not None and m["peak"] > b + LIBC_SLACK:
                v.append(Violation("heap-above-bound", "peak live heap %d bytes exceeds the proved bound B(%d)=%d (+%d slack): %s" % (
                    m["peak"], n, b, LIBC_SLACK, desc), payload))
            if m.get("live", 0) > LEAK_LIMIT:
                v.append(Violation("heap-not-released", "%d bytes still allocated at a successful exit (a per-block or per-chunk buffer that is "
                                   "never released grows with the input): %s" % (m["live"], desc), payload))
            peaks.setdefault((kind, n, ultra), []).append((mb, m["peak"]))
        # "flat in the input size" = the same fixed bound B(n) holds for every input size measured above; the
        # series per (data, n) is recorded in the evidence histogram (how full the pipeline gets is timing dependent)
        if schedx_part and not getattr(self, "_x_done", False):
            v += self.leaks_x()
        if schedx_part and not getattr(self, "_x_done", False):
            self._x_done = True
            # decompression: peak live heap against B(n), leaked unord blocks (F3), crashes of the replayed runs
            v += [x for x in (schedx_part.direct_x(self, leaks=True) or [])]
        return v[:4]

    def leaks_x(self):
        """Decompression: bytes still allocated at a successful exit must not depend on the input (valid inputs with few / many
        rejected block candidates, few / many streams; speculation busy at n >= 2).  A buffer that is not released per block,
        candidate or stream shows up here long before it moves the peak."""
        sp = schedx_part
        exe = vlib.build_lbzip2("rel")
        work = os.path.join(self.work, "heap")
        rng = vlib.SplitMix(self.seed + 5)
        quick = self.tier == "quick"
        inputs = [("%d rejected candidates" % k, sp.many_candidates(rng, k, 300)) for k in ((8, 32) if quick else (8, 32, 128))]
        inputs += [("%d small streams with a false magic each" % k, sp.gen_magic_bitmaps(rng, k)) for k in ((200, 800) if quick else (200, 800, 4000))]
        # every feature of the format the crafting encoder knows (randomised blocks, 2..6 tables, unused tables, extra selectors,
        # empty streams, several streams, trailing garbage), few and many blocks: nothing allocated per block may survive the block
        import declib
        for k in ((20, 80) if quick else (20, 80, 320)):
            # concatenation of k valid files without trailing garbage (garbage would end the decoding)
            data, plain, made = b"", b"", 0
            while made < k:
                blocks = [declib.bzcraft.valid_block(rng, 300) for _ in range(rng.choice([1, 1, 2, 3]))]
                for b in blocks:
                    if rng.chance(1, 2):
                        b.rand = 1
                data += declib.bzcraft.to_bytes(declib.bzcraft.stream(blocks, rng.range(1, 9), rng))
                plain += b"".join(bytes(b.data) for b in blocks)
                made += len(blocks)
            inputs.append(("%d crafted blocks (half of them randomised)" % k, sp.Crafted("crafted-%d" % k, data, plain, True)))
        jobs = [(name, c, n, ig) for name, c in inputs for n in (2, 4, 8) for ig in (None, 64)]
        jobs += [(name, c, 1, None) for name, c in inputs if name.endswith("randomised)")]

        def one(j):
            name, c, n, ig = j
            return sp.heap_run(exe, c, n, None if ig is None else rng.below(1000), ig, work)
        res = L.pmap(one, jobs, par=6)
        out, table = [], {}
        for (name, c, n, ig), (rc, o, e, h) in zip(jobs, res):
            table["%s/n%d/ig%s" % (name, n, ig)] = None if not h else {"live_at_exit": h[0], "peak": h[1], "rc": rc}
            if rc == 0 and h and h[0] > LEAK_LIMIT and not out:
                out.append(Violation("heap-not-released:decompress",
                                     "valid input (%s), `lbzip2 -dc -n%d`%s: %d bytes still allocated at exit status 0 (fixed small constant "
                                     "expected: everything is released in uninit)" % (name, n, "" if ig is None else " with %d-byte input blocks" % ig, h[0]),
                                     {"input_hex": c.data.hex()[:2000000], "n": n, "in_granul": ig, "live_at_exit": h[0], "kind": "leak"}))
        self.notes.append("decompression: live heap bytes at exit / peak: %s" % json.dumps(table)[:1500])
        return out

    def search(self):
        # a broken obligation: measure at more worker counts and both modes with a large input
        exe = vlib.build_lbzip2("rel")
        rng = vlib.SplitMix(self.seed + 7)
        blk = L.noise(rng, 1 << 20)
        jobs = [("random", 96, n, u) for n in (1, 2, 3, 6, 12, 16) for u in (False, True)]
        self.bnd = self.bounds([(n, 9) for n in (1, 2, 3, 6, 12, 16)])

        def one(k):
            kind, mb, n, ultra = jobs[k]
            return self.measure(exe, blk * mb, n, 9, "s%d" % k, extra=("--sequential",) if ultra else ())
        self.meas = list(zip(jobs, L.pmap(one, list(range(len(jobs))), par=4)))
        found = self.direct()
        if schedx_part and not found:
            found += schedx_part.search_x(self) or []
        return found

    def replay(self, path):
        p = json.load(open(path))
        if p.get("kind") == "leak" and schedx_part:
            c = schedx_part.Crafted("replay", bytes.fromhex(p["input_hex"]), None, True)
            rc, o, e, h = schedx_part.heap_run(vlib.build_lbzip2("rel"), c, int(p["n"]), None,
                                               None if p.get("in_granul") in (None, "None") else int(p["in_granul"]), os.path.join(self.work, "heap"))
            print("rc=%s live_at_exit=%s (limit %d)" % (rc, h[0] if h else None, LEAK_LIMIT))
            return 1 if (rc == 0 and h and h[0] > LEAK_LIMIT) else 0
        if "n" not in p:
            print("replay file names no input:", json.dumps(p.get("broken"), indent=1)[:3000])
            return 1
        exe = vlib.build_lbzip2("rel")
        rng = vlib.SplitMix(self.seed + 99)
        base = bytes(1 << 20) if p["kind"] == "zeros" else L.noise(rng, 1 << 20)
        m = self.measure(exe, base * p["mb"], p["n"], 9, "rp", extra=("--sequential",) if p.get("ultra") else ())
        b = self.bounds([(p["n"], 9)]).get((p["n"], 9))
        print("peak=%s bound=%s" % (m["peak"], b))
        return 1 if (b is not None and m["peak"] > b + LIBC_SLACK) else 0
