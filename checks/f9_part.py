"""Regression hunt for finding F9 (fixed in /repo eaee3ab): heap overflow of unord_q in src/expand.c.

A valid single-block file whose coded symbol stream spells one slow and many quickly failing false block magics
(harness/f9gen.py).  Before the repair `lbzip2 -d -n2` wrote past the unord_q array (one stale unord_blk of an overtaken
speculative job + 17n-3 candidates backed by slots/units)."""
import os
import sys
from concurrent.futures import ThreadPoolExecutor

import vlib
from runner import Violation

sys.path.insert(0, os.path.join(vlib.VERIF, "harness"))


def hunt(check, runs_per_n=2):
    import f9gen
    data, plain, _ = f9gen.build()
    exes = [("rel", vlib.build_lbzip2("rel"))]
    if check.tier != "quick":
        exes.append(("asan", vlib.build_lbzip2("asan")))
    jobs = [(fl, exe, n) for fl, exe in exes for n in (2, 4, 8) for _ in range(runs_per_n if check.tier == "quick" else 6)]

    def one(j):
        fl, exe, n = j
        env = {"LBZIP2": "", "BZIP2": "", "BZIP": "", "ASAN_OPTIONS": "detect_leaks=0"}
        rc, out, err = vlib.shb([exe, "-dc", "-n%d" % n], env=env, timeout=120, input=data)
        return rc, out == plain, (err.decode("latin-1") if isinstance(err, bytes) else str(err))[-600:]
    with ThreadPoolExecutor(max_workers=4) as ex:
        res = list(ex.map(one, jobs))
    bad = [(j, r) for j, r in zip(jobs, res) if r[0] != 0 or not r[1]]
    check.notes.append("F9 regression hunt (unord_q overflow input, %d bytes): %d runs, %d bad" % (len(data), len(jobs), len(bad)))
    if not bad:
        return []
    (fl, exe, n), (rc, same, err) = bad[0]
    return [Violation("c11x:unord-q-overflow",
                      "valid input (one block whose symbol stream spells 1 slow + many failing false block magics; harness/f9gen.py): "
                      "`lbzip2 -dc -n%d` (%s build) rc=%s, output %s the plain text (%d of %d runs bad): %s" % (
                          n, fl, rc, "equals" if same else "differs from", len(bad), len(jobs), err[-200:].replace("\n", " | ")),
                      {"generator": "harness/f9gen.py build()", "n": n, "flavor": fl, "rc": rc, "stderr": err, "kind": "f9"})]


def ring_wrap_hunt(check):
    """order_q / the other fixed-capacity ring buffers of process.h wrap around after `capacity` elements (order_q: 17n blocks).
    Files with more blocks than that, every block needing several output buffers (small out_granul through hook H2, and once
    naturally: blocks that expand to more than 900000 bytes), few workers: the continuation entry of a multi-buffer block is put
    back with unshift() exactly when head == 0."""
    import bz2
    rng = check.rng
    exe = vlib.build_lbzip2("rel")
    files = []
    # (a) 80 small blocks in one stream each (python bz2 makes one block per call here), tiny output buffers
    plain, comp = b"", b""
    for i in range(80):
        d = bytes(rng.below(7) + 97 for _ in range(2500 + rng.below(500)))
        plain += d
        comp += bz2.compress(d, 1)
    files.append(("80 one-block streams, out_granul 700", comp, plain, {"LBZIP2_VERIF_OUT_GRANUL": "700"}))
    # (b) one stream with 40 blocks of level 1 (100000 RLE bytes each), out_granul 30000
    d = bytes(rng.below(256) for _ in range(4_000_000))
    files.append(("one stream of 40 level-1 blocks, out_granul 30000", bz2.compress(d, 1), d, {"LBZIP2_VERIF_OUT_GRANUL": "30000"}))
    if check.tier != "quick":
        # (c) no hooks: 40 blocks that each expand to ~1 MB (runs of 50 equal bytes), shipped buffer size
        d = b"".join(bytes([rng.below(256)]) * 50 for _ in range(20000 * 40))
        files.append(("40 blocks expanding to 1 MB each, shipped sizes", bz2.compress(d, 1), d, {}))
    jobs = [(f, n) for f in files for n in (1, 2, 3)]

    def one(j):
        (name, comp, plain, env), n = j
        e = {"LBZIP2": "", "BZIP2": "", "BZIP": ""}
        e.update(env)
        rc, out, err = vlib.shb([exe, "-dc", "-n%d" % n], env=e, timeout=60, input=comp)
        return rc, out == plain, (err.decode("latin-1") if isinstance(err, bytes) else str(err))[-300:]
    with ThreadPoolExecutor(max_workers=4) as ex:
        res = list(ex.map(one, jobs))
    bad = [(j, r) for j, r in zip(jobs, res) if r[0] != 0 or not r[1]]
    check.notes.append("ring-buffer wrap hunt: %d runs (%s), %d bad" % (len(jobs), "; ".join(f[0] for f in files), len(bad)))
    if not bad:
        return []
    ((name, comp, plain, env), n), (rc, same, err) = bad[0]
    return [Violation("c11x:ring-buffer-wrap",
                      "valid input (%s): `%s lbzip2 -dc -n%d` rc=%s%s, output %s the plain text (%d of %d runs bad) %s" % (
                          name, " ".join("%s=%s" % kv for kv in env.items()), n, rc, " (watchdog: hang)" if rc == 124 else "",
                          "equals" if same else "differs from", len(bad), len(jobs), err[-150:].replace("\n", " | ")),
                      {"input_hex": comp.hex()[:3000000], "env": env, "n": n, "rc": rc, "kind": "ringwrap"})]
