"""Regression hunt for finding F9 (fixed in /repo eaee3ab): heap overflow of unord_q in src/expand.c.

A valid single-block file whose coded symbol stream spells one slow and many quickly failing false block magics
(harness/f9gen.py).  Before the repair `lbzip2 -d -n2` wrote past the unord_q array (one stale unord_blk of an overtaken
speculative job + 17n-3 candidates backed by slots/units)."""
import os
import sys
from concurrent.futures import ThreadPoolExecutor

import vlib
from runner import Violation

sys.path.insert(0, os.path.join(vlib.VERIF, "harness"))


def hunt(check, runs_per_n=2):
    import f9gen
    data, plain, _ = f9gen.build()
    exes = [("rel", vlib.build_lbzip2("rel"))]
    if check.tier != "quick":
        exes.append(("asan", vlib.build_lbzip2("asan")))
    jobs = [(fl, exe, n) for fl, exe in exes for n in (2, 4, 8) for _ in range(runs_per_n if check.tier == "quick" else 6)]

    def one(j):
        fl, exe, n = j
        env = {"LBZIP2": "", "BZIP2": "", "BZIP": "", "ASAN_OPTIONS": "detect_leaks=0"}
        rc, out, err = vlib.shb([exe, "-dc", "-n%d" % n], env=env, timeout=120, input=data)
        return rc, out == plain, (err.decode("latin-1") if isinstance(err, bytes) else str(err))[-600:]
    with ThreadPoolExecutor(max_workers=4) as ex:
        res = list(ex.map(one, jobs))
    bad = [(j, r) for j, r in zip(jobs, res) if r[0] != 0 or not r[1]]
    check.notes.append("F9 regression hunt (unord_q overflow input, %d bytes): %d runs, %d bad" % (len(data), len(jobs), len(bad)))
    if not bad:
        return []
    (fl, exe, n), (rc, same, err) = bad[0]
    return [Violation("c11x:unord-q-overflow",
                      "valid input (one block whose symbol stream spells 1 slow + many failing false block magics; harness/f9gen.py): "
                      "`lbzip2 -dc -n%d` (%s build) rc=%s, output %s the plain text (%d of %d runs bad): %s" % (
                          n, fl, rc, "equals" if same else "differs from", len(bad), len(jobs), err[-200:].replace("\n", " | ")),
                      {"generator": "harness/f9gen.py build()", "n": n, "flavor": fl, "rc": rc, "stderr": err, "kind": "f9"})]
