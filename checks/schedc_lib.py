"""Shared machinery of the SchedC checks (C11, C03, C13, C19): input generators,
running the real binary with hooks H1/H3, turning a trace into replayer input,
running the extracted-model replayer."""
import os
import re
import subprocess
import tempfile
import time
from concurrent.futures import ThreadPoolExecutor

import vlib

NPAR = min(16, vlib.NCPU)


# ---------------------------------------------------------------------------
# inputs
# ---------------------------------------------------------------------------
def expanding(rng, n):
    """Runs of exactly four equal bytes: RLE1 turns each into 5 bytes, so a full
    input chunk (level*100000 bytes) overflows one block and is split in two."""
    out = bytearray()
    prev = -1
    while len(out) < n:
        b = rng.below(256)
        if b == prev:
            b = (b + 1) % 256
        out += bytes([b]) * 4
        prev = b
    return bytes(out[:n])


def noise(rng, n):
    # cheap pseudo-random bytes (python's per-byte loop is too slow for MBs)
    import hashlib
    seed = rng.next().to_bytes(8, "little")
    out = bytearray()
    c = 0
    while len(out) < n:
        out += hashlib.sha256(seed + c.to_bytes(8, "little")).digest()
        c += 1
    return bytes(out[:n])


def make_input(rng, level, nchunks, tail, kind):
    """nchunks full chunks of level*100000 bytes plus `tail` bytes."""
    g = level * 100000
    total = nchunks * g + tail
    if kind == "expand":
        return expanding(rng, total)
    if kind == "noise":
        return noise(rng, total)
    if kind == "zeros":
        return bytes(total)
    # mixed: alternate per chunk
    out = bytearray()
    j = 0
    while len(out) < total:
        m = min(g, total - len(out))
        out += expanding(rng, m) if (j + rng.below(2)) % 2 == 0 else noise(rng, m)
        j += 1
    return bytes(out)


# ---------------------------------------------------------------------------
# running lbzip2
# ---------------------------------------------------------------------------
def run_lbzip2(exe, args, data=None, env=None, timeout=60, stdin_path=None, stdout_path=None):
    """Returns (rc, stdout bytes, stderr bytes, timed_out)."""
    e = dict(os.environ)
    for k in list(e):
        if k.startswith("LBZIP2") or k in ("BZIP2", "BZIP"):
            del e[k]
    if env:
        e.update(env)
    fin = open(stdin_path, "rb") if stdin_path else None
    fout = open(stdout_path, "wb") if stdout_path else None
    try:
        p = subprocess.run([exe] + list(args), input=data if fin is None else None, stdin=fin,
                           stdout=fout if fout else subprocess.PIPE, stderr=subprocess.PIPE, env=e, timeout=vlib.hang_timeout(timeout))
        return p.returncode, (p.stdout or b""), p.stderr, False
    except subprocess.TimeoutExpired as ex:
        vlib.note_hang()
        return 124, (ex.stdout or b""), (ex.stderr or b""), True
    finally:
        if fin:
            fin.close()
        if fout:
            fout.close()


def traced_run(exe, data, n, level, ultra, seed, workdir, tag, timeout=40):
    """Compress `data` with hooks H1 (seed) and H3 (trace).  Returns dict."""
    tr = os.path.join(workdir, "trace_%s.txt" % tag)
    if os.path.exists(tr):
        os.unlink(tr)
    args = ["-n", str(n), "-%d" % level] + (["--sequential"] if ultra else [])
    env = {"LBZIP2_VERIF_TRACE": tr}
    if seed is not None:
        env["LBZIP2_VERIF_SCHED"] = str(seed)
    t0 = time.time()
    rc, out, err, to = run_lbzip2(exe, args, data=data, env=env, timeout=timeout)
    lines = []
    if os.path.exists(tr):
        with open(tr, encoding="latin-1") as f:
            lines = [l.rstrip("\n") for l in f if l.startswith("C ")]
        os.unlink(tr)
    return {"rc": rc, "out": out, "err": err.decode("latin-1")[-400:], "timeout": to, "trace": lines,
            "wall": time.time() - t0, "n": n, "level": level, "ultra": ultra, "seed": seed, "tag": tag}


# ---------------------------------------------------------------------------
# trace -> replayer input
# ---------------------------------------------------------------------------
REC = re.compile(r"^C coll=(\S*) trans=(\S*) reord=(\S*) order=(\S+) nid=(\d+) tok=(\d) unf=(\d) ultra=(\d) caps=(\S+) "
                 r"k=(\S+) t=(\d+) eof=(\d) wu=(\d+) os=(\d+) tos=(\d+) nw=(\d+)$")


def parse_line(line):
    m = REC.match(line)
    if not m:
        return None
    coll = {}
    for it in filter(None, m.group(1).split(",")):
        p, l = it.split("/")
        a, b = p.split(".")
        coll[(int(a), int(b))] = int(l)
    return {"coll": coll, "kind": m.group(10), "t": int(m.group(11)), "unf": m.group(7) == "1", "tok": m.group(6) == "1",
            "trans": [x for x in m.group(2).split(",") if x], "reord": [x for x in m.group(3).split(",") if x]}


def chunk_scripts(lines):
    """For every input chunk: its length and, for each collect() call made on it,
    (bytes left afterwards, block-full flag).  Read off the trace itself:
    `maj.min/left` entries of coll_q, and whether the collector then stored the
    block as unfinished work (R with unf=1) or went on to encode it."""
    recs = [parse_line(l) for l in lines]
    if any(r is None for r in recs):
        bad = [l for l, r in zip(lines, recs) if r is None][0]
        raise ValueError("unparsable trace record: %r" % bad[:200])
    first = {}                      # major -> initial length
    results = {}                    # (major, minor) -> [left_after, full]
    pend = {}                       # thread -> dict(stage, pos, seq)
    for r in recs:
        for (a, b), l in r["coll"].items():
            if b == 0 and a not in first:
                first[a] = l
        t, k = r["t"], r["kind"]
        if k in ("S:collect", "S:collect_seq"):
            pos = min(r["coll"]) if r["coll"] else None
            pend[t] = {"stage": "start", "pos": pos, "seq": k.endswith("_seq")}
            continue
        st = pend.get(t)
        if not st:
            continue
        if st["stage"] == "start":          # the U of the first segment
            st["stage"] = "taken" if st["pos"] is not None else "fin"
            continue
        if st["stage"] == "taken":
            a, b = st["pos"]
            nxt = (a, b + 1)
            if k == "U" and nxt in r["coll"]:
                results[st["pos"]] = [r["coll"][nxt], True]
                st["stage"] = "fin" if st["seq"] else "done"
                continue
            results[st["pos"]] = [0, True]
            st["stage"] = "fin" if st["seq"] else "done"
            # fall through: this record is already the finishing one
        if st["stage"] == "fin":
            if st["pos"] is not None and k == "R":
                results[st["pos"]][1] = False           # stored as unfinished work
            st["stage"] = "done"
        if st["stage"] == "done":
            pend.pop(t, None)
    chunks = []
    for a in sorted(first):
        items = []
        b = 0
        while (a, b) in results:
            items.append(tuple(results[(a, b)]))
            b += 1
        chunks.append((first[a], items))
    return chunks


def replay_input(tag, n, ultra, level, lines):
    out = ["TRACE %s %d %d %d" % (tag, n, 1 if ultra else 0, level)]
    for l0, items in chunk_scripts(lines):
        out.append("CHUNK %d %s" % (l0, " ".join("%d:%d" % (l, 1 if f else 0) for l, f in items)))
    out += lines
    out.append("END")
    return "\n".join(out) + "\n"


def build_replayer():
    return vlib.build_ocaml("schedc_replay", os.path.join(vlib.COQ, "Extract", "ml"), ["schedc_model"], "schedc_replay.ml")


def run_replayer(exe, text, timeout=300):
    rc, out, err = vlib.sh([exe], input=text.encode(), timeout=timeout)
    res = {}
    for line in out.splitlines():
        parts = line.split(" ", 2)
        if len(parts) >= 2 and parts[0] in ("OK", "FAIL"):
            res[parts[1]] = (parts[0], parts[2] if len(parts) > 2 else "")
    return rc, res, err


def concurrency(lines):
    """max number of tasks simultaneously in their unlocked part, from S/R records."""
    running = set()
    mx = 0
    for l in lines:
        m = re.search(r" k=(\S+) t=(\d+)", l)
        if not m:
            continue
        k, t = m.group(1), m.group(2)
        if k.startswith("S:"):
            running.add(t)
        elif k == "R":
            running.discard(t)
        mx = max(mx, len(running))
    return mx


def pmap(fn, items, par=NPAR):
    with ThreadPoolExecutor(max_workers=par) as ex:
        return list(ex.map(fn, items))


# ---------------------------------------------------------------------------
# fragmented pipe input (O_DIRECT "packet" pipe: each write of <= PIPE_BUF bytes is
# returned by exactly one read()), file input, stdout capture
# ---------------------------------------------------------------------------
def clean_env(extra=None):
    e = dict(os.environ)
    for k in list(e):
        if k.startswith("LBZIP2") or k in ("BZIP2", "BZIP", "LD_PRELOAD") or k.startswith("SCHEDC_"):
            del e[k]
    if extra:
        e.update(extra)
    return e


def run_piped(exe, args, data, frags=None, env=None, timeout=60, stdout_path=None):
    """Feed `data` to the process through an ordinary pipe, written in pieces of the
    sizes `frags` (cycled; None = 4096-byte pieces) with a yield between pieces, so
    that read() sees real, timing-dependent fragmentation.  Deterministic
    fragmentation is obtained with the LD_PRELOAD shim (SCHEDC_SHORTREAD*).
    Returns (rc, out, err, timed_out)."""
    import threading
    r, w = os.pipe()
    fout = open(stdout_path, "wb") if stdout_path else None
    p = subprocess.Popen([exe] + list(args), stdin=r, stdout=fout if fout else subprocess.PIPE, stderr=subprocess.PIPE,
                         env=clean_env(env))
    os.close(r)

    def feed():
        try:
            pos = 0
            i = 0
            n = len(data)
            mv = memoryview(data)
            while pos < n:
                k = 4096 if not frags else max(1, min(4096, frags[i % len(frags)]))
                i += 1
                os.write(w, mv[pos:pos + k])
                pos += k
                if frags and i % 8 == 0:
                    time.sleep(0)
        except OSError:
            pass
        finally:
            try:
                os.close(w)
            except OSError:
                pass
    th = threading.Thread(target=feed, daemon=True)
    th.start()
    try:
        out, err = p.communicate(timeout=vlib.hang_timeout(timeout))
        to = False
    except subprocess.TimeoutExpired:
        vlib.note_hang()
        p.kill()
        out, err = p.communicate()
        to = True
    th.join(timeout=5)
    if fout:
        fout.close()
    return p.returncode if not to else 124, out or b"", err or b"", to


def run_file(exe, args, path, env=None, timeout=60):
    with open(path, "rb") as f:
        try:
            p = subprocess.run([exe] + list(args), stdin=f, stdout=subprocess.PIPE, stderr=subprocess.PIPE,
                               env=clean_env(env), timeout=vlib.hang_timeout(timeout))
            return p.returncode, p.stdout, p.stderr, False
        except subprocess.TimeoutExpired as ex:
            vlib.note_hang()
            return 124, ex.stdout or b"", ex.stderr or b"", True


def build_shim():
    """LD_PRELOAD shim: heap counter + short writes/reads."""
    import hashlib
    src = os.path.join(vlib.VERIF, "harness", "schedc_heapcount.c")
    so = os.path.join(vlib.WORK, "bin", "schedc_heapcount.so")
    os.makedirs(os.path.dirname(so), exist_ok=True)
    dig = hashlib.sha256(open(src, "rb").read()).hexdigest()
    stamp = so + ".stamp"
    if os.path.exists(so) and os.path.exists(stamp) and open(stamp).read() == dig:
        return so
    with vlib.Lock("build-schedc-shim"):
        tmp = so + ".tmp%d" % os.getpid()
        rc, out, err = vlib.sh(["gcc", "-O2", "-shared", "-fPIC", "-o", tmp, src, "-ldl"], timeout=120)
        if rc != 0:
            raise vlib.BuildError("schedc_heapcount.so does not compile:\n" + (out + err)[-2000:])
        os.replace(tmp, so)
        with open(stamp, "w") as f:
            f.write(dig)
    return so
