"""C08 - no undefined behaviour for any input (partial: array-level models + sanitizer support)."""
import importlib
import os
import subprocess
from concurrent.futures import ThreadPoolExecutor

import vlib
import declib
import enclib
from runner import PropertyCheck, Broken, Violation

PARTS = ["safe_slide", "safe_emit", "safe_tree"]


class Check(PropertyCheck):
    pid = "C08"
    props_module = "Properties.Properties_C08"
    extra_targets = ["Extract/ExtractSafeSlide.vo", "Extract/ExtractSafeEmit.vo", "Extract/ExtractSafeTree.vo"]
    gen_files = ["DecTabs.v", "Consts.v", "CrcTab.v"]
    trusted_base = [
        "Coq 8.16.1 kernel; vm_compute on closed side conditions over regenerated constants (SLIDE_LENGTH, ROW_WIDTH, array sizes); no axioms",
        "array-level models Safe/SlideModel.v (mtf_one), Safe/EmitModel.v (decode(), emit()), Safe/TreeModel.v (make_tree + table decode) are "
        "hand-written statement-by-statement transcriptions with bounds-checked accessors and explicit C integer widths; each is tied to the C by a "
        "call-by-call correspondence harness that #includes src/decode.c (harness/safe_h_slide.c, safe_h_emit.c, safe_h_tree.c) built with ASan/UBSan",
        "NOT covered by a theorem: divbwt.c (sort stacks, pointer arithmetic), encode.c array writes other than the selector bounds of witness_ok, "
        "main.c string handling, libc, the pointer computed by attach() in expand.c (finding F4, property C10/C11); for those the check only "
        "runs ASan/UBSan builds of the whole program on the generators (testing, labelled so)",
    ]
    assumptions = ["C semantics of the transcribed functions (gcc/clang, LP64); output buffer sizes below 2^32-1 (the shipped sizes are 900000)"]

    def correspond(self):
        cov = {"evaluations": 0, "distinct_nontrivial": 0, "rule": "", "samples": [], "parts": {}}
        rules = []
        for name in PARTS:
            try:
                mod = importlib.import_module(name)
            except ImportError as e:
                self.notes.append("part %s not available: %s" % (name, e))
                continue
            try:
                c = mod.correspond(self)
            except vlib.BuildError as e:
                self.broken.append(Broken("build", "harness of %s does not build" % name, str(e)[-1500:]))
                continue
            cov["parts"][name] = {k: v for k, v in c.items() if k not in ("samples",)}
            cov["evaluations"] += int(c.get("evaluations", 0))
            cov["distinct_nontrivial"] += int(c.get("distinct_nontrivial", 0))
            cov["samples"] += list(c.get("samples", []))[:2]
            rules.append("%s: %s" % (name, c.get("rule", "")))
            for v in c.get("oracle_mismatches", []) or []:
                self.oracle_viol.append(v)
        cov["rule"] = " || ".join(rules)[:3000]
        return cov

    oracle_viol = []

    def sanitizer_runs(self):
        """whole program under ASan+UBSan: compress and decompress generated inputs, several worker counts and I/O granules"""
        exe = vlib.build_lbzip2("asan")
        quick = self.tier == "quick"
        rng = self.rng
        plains = [enclib.gen_plain(rng, 3000) for _ in range(40 if quick else 400)]
        plains += [bytes(rng.below(256) for _ in range(150000)), b"\0" * 300000, (b"ab" * 70000)]
        files, hist = declib.gen_files(rng, 60 if quick else 600, 93 if quick else 930, 100 if quick else 1500, 250)
        env0 = dict(os.environ)
        env0["ASAN_OPTIONS"] = "detect_leaks=0:abort_on_error=0:exitcode=77"
        env0["UBSAN_OPTIONS"] = "halt_on_error=1:exitcode=77:print_stacktrace=1"
        jobs = []
        for i, p in enumerate(plains):
            jobs.append((["-%d" % rng.choice([1, 1, 2, 9]), "-n%d" % rng.choice([1, 2, 4, 8])] + (["-u"] if i % 3 == 0 else []), p, None, "compress"))
        # scheduler arrays of the compressor: a slow first block followed by many fast ones fills reord_q (2*workers+1 blocks waiting)
        slowfast = bytes(rng.below(256) for _ in range(100000)) + b"\0" * (100000 * (8 if quick else 20))
        for n in (2, 3, 4) if quick else (2, 3, 4, 6, 8):
            for rep in range(2):
                jobs.append((["-1", "-n%d" % n], slowfast, None, "compress:slow-first-block"))
        # a completely full level-9 block whose MTF stage does not shrink it: 900001 symbols = 18001 coding groups, the maximum
        # (selector[] / selectorMTF[] of the encoder, selector[] of the decoder are used up to their last element)
        full = enclib.maxgroups_plain()
        jobs.append((["-9", "-n2"], full, None, "compress:18001-groups"))
        for i, (f, t) in enumerate(files):
            g = declib.GRANULES[i % len(declib.GRANULES)]
            jobs.append((["-d", "-n%d" % rng.choice([1, 2, 4, 8])], f, g, "decompress:" + t))
        # groups of 20-bit codes against many input block sizes (the >= 32 words fast path of retrieve() near a block end)
        for _ in range(2 if quick else 6):
            f, plain = declib.bzcraft.dense20_file(rng, 30000 if quick else 80000)
            for gran in (520, 1000, 1024, 1500, 2048, 3000, 4096, 8192, 12000):
                jobs.append((["-d", "-n%d" % rng.choice([1, 3])], f, (str(gran), "900000"), "decompress:dense20"))

        def work(j):
            args, data, g, tag = j
            e = dict(env0)
            if g:
                e["LBZIP2_VERIF_IN_GRANUL"], e["LBZIP2_VERIF_OUT_GRANUL"] = g
            try:
                p = subprocess.run([exe] + args, input=data, stdout=subprocess.PIPE, stderr=subprocess.PIPE, timeout=vlib.hang_timeout(120), env=e)
            except subprocess.TimeoutExpired:
                vlib.note_hang()
                return (j, "HANG", "")
            err = p.stderr.decode("latin-1")
            bad = p.returncode not in (0, 1) or "ERROR: AddressSanitizer" in err or "runtime error:" in err
            return (j, p.returncode, err) if bad else None
        with ThreadPoolExecutor(vlib.NCPU) as ex:
            res = [r for r in ex.map(work, jobs) if r]
        self.notes.append("sanitizer runs: %d (compress %d, decompress %d)" % (len(jobs), len(plains), len(files)))
        out = []
        for (args, data, g, tag), rc, err in res[:3]:
            line = [l for l in err.splitlines() if "ERROR" in l or "runtime error" in l or "SUMMARY" in l][:2]
            out.append(Violation("sanitizer:" + (line[0].split(":")[-1].strip()[:40] if line else str(rc)),
                                 "ASan/UBSan build, %s %s, granules %s: exit %s %s" % (tag, " ".join(args), g, rc, " | ".join(line)[:300]),
                                 {"args": args, "granules": g, "input_hex": data.hex()[:600000], "input_len": len(data), "stderr": err[-3000:],
                                  "how": "build with -fsanitize=address,undefined (vlib.build_lbzip2('asan')) and feed the input on stdin"}))
        return out

    def direct(self):
        import f9_part
        return list(self.oracle_viol)[:2] + self.sanitizer_runs() + f9_part.hunt(self)

    def search(self):
        return []

    def replay(self, path):
        import json
        p = json.load(open(path))
        if "input_hex" not in p:
            print(json.dumps(p.get("broken"), indent=1)[:3000])
            return 1
        exe = vlib.build_lbzip2("asan")
        e = dict(os.environ)
        if p.get("granules"):
            e["LBZIP2_VERIF_IN_GRANUL"], e["LBZIP2_VERIF_OUT_GRANUL"] = p["granules"]
        r = subprocess.run([exe] + p["args"], input=bytes.fromhex(p["input_hex"]), stdout=subprocess.PIPE, stderr=subprocess.PIPE, env=e)
        print(r.returncode, r.stderr.decode("latin-1")[-1500:])
        return 0 if r.returncode in (0, 1) and b"Sanitizer" not in r.stderr else 1
