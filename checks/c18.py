"""C18 - Multiple operands are processed independently (front-end part)."""
import json
import os
import shutil
import time
from concurrent.futures import ThreadPoolExecutor

import vlib
import frontlib as fl
from runner import PropertyCheck, Broken, Violation


class Check(PropertyCheck):
    pid = "C18"
    props_module = "Properties.Properties_C18"
    extra_targets = ["Extract/ExtractFront.vo"]
    gen_files = ["FrontTab.v"]
    trusted_base = [
        "Coq 8.16.1 kernel (coqc); no axioms",
        "translator lib/gen_front.py (exit codes, call order of the main loop) -> Gen/FrontTab.v",
        "hand model Front/MainLoop.v of the operand loop, tied by multi-operand scenario correspondence with the real binary; "
        "work() is a function parameter of the model: that the real work() behaves as a function of the input (no state carried "
        "from one operand to the next inside compress.c/expand.c/process.c) is observed here by combined-versus-separate runs, "
        "and is the subject of the scheduler models",
        "abstract file system as in C17 (opaque names, no permission checks, atime updates by read() not modelled)",
    ]
    assumptions = [
        "no other process modifies the tree during the run",
    ]

    def setup(self):
        if hasattr(self, "exe"):
            return
        self.exe = vlib.build_lbzip2("rel")
        self.codec = fl.Codec(self.exe)
        self.gen = fl.Gen(self.rng, self.codec)
        self.scn_dir = os.path.join(self.work, "scn")
        shutil.rmtree(self.scn_dir, ignore_errors=True)
        os.makedirs(self.scn_dir, exist_ok=True)

    def gen_multi(self, n):
        scns, hist = [], {}
        for _ in range(n):
            scn, h = self.gen.scenario(nops=self.rng.choice([2, 2, 3, 3, 4, 5]))
            if self.rng.chance(1, 4):
                scn["xflags"] = [self.rng.choice(["-u", "--sequential"])]
                h["sequential"] = 1
            for k, v in h.items():
                hist[k] = hist.get(k, 0) + v
            scns.append(scn)
        return scns, hist

    def gen_stdout_mixes(self):
        """-d -c -f (copy mode for non-bzip2 operands) and -c invocations whose operand lists mix valid, non-bzip2 (sizes
        0..5, 100, 70000), near-miss headers and corrupt files in every order: state that work() leaves behind for the next
        operand (request_close, finish, eof, slot counters, granules set by copy() versus set_memory_constraints())."""
        r = self.rng
        t1, t2 = 1_234_567_890_123_456_789, 1_111_111_111_000_000_001

        def noise(n):
            b = r.bytes(n)
            return (b"x" + b[1:]) if b[:2] == b"BZ" else b
        plain_small, plain_big = b"small text\n" * 7, bytes(r.choice(b"abcdefgh \n") for _ in range(70000))
        z_small, z_big, z_empty = (self.codec.get("C", x)[1] for x in (plain_small, plain_big, b""))
        bad = bytearray(z_small)
        bad[len(bad) // 2] ^= 0x20
        pool_d = {
            "bz-small": z_small, "bz-big": z_big, "bz-empty": z_empty,
            "raw0": b"", "raw1": noise(1), "raw3": noise(3), "raw4": noise(4), "raw5": noise(5), "raw100": noise(100),
            "raw70000": noise(70000),
            "near-BZh0": b"BZh0" + noise(40), "near-BZh": b"BZh", "near-BZH9": b"BZH9" + noise(10), "hdr-only": b"BZh9",
            "corrupt": bytes(bad), "truncated": z_small[:len(z_small) - 7],
        }
        pool_c = {"empty": b"", "one": b"q", "small": plain_small, "noise100": noise(100), "big": plain_big, "bz": z_small}
        if self.tier != "quick":
            pool_c["multiblock"] = bytes(r.choice(b"ab") for _ in range(1_000_000))
        out = []

        def scn(pool, kinds, flags):
            names, inodes, ops = {}, {}, []
            for i, k in enumerate(kinds):
                nm = "f%d.%s" % (i, "dat")
                names[nm] = ("L", 10 + i)
                inodes[10 + i] = {"kind": "r", "mode": 0o644, "uid": 0, "gid": 0, "atime": t1, "mtime": t2, "data": pool[k]}
                ops.append(nm)
            return {"names": names, "inodes": inodes, "ops": ops, "flags": flags, "plan": None, "kinds": list(kinds)}
        dk, ck = list(pool_d), list(pool_c)
        # every ordered pair in copy-capable decompression; flag spellings alternate
        for i, a in enumerate(dk):
            for j, b2 in enumerate(dk):
                out.append(scn(pool_d, [a, b2], [["-d", "-c", "-f"], ["-dcf"], ["-f", "-k", "-dc"]][(i + j) % 3]))
        for a in ck:
            for b2 in ck:
                out.append(scn(pool_c, [a, b2], r.choice([["-c"], ["-c", "-f"], ["-kc"]])))
        ntri = 60 if self.tier == "quick" else 900
        for _ in range(ntri):
            k = r.choice([3, 3, 3, 4, 5])
            if r.chance(3, 4):
                kinds = [r.choice(dk) for _ in range(k)]
                if "bz-small" not in kinds and "bz-big" not in kinds:
                    kinds[r.below(k - 1)] = r.choice(["bz-small", "bz-big"])      # a real expansion before something else
                out.append(scn(pool_d, kinds, r.choice([["-d", "-c", "-f"], ["-dcf"]])))
            else:
                out.append(scn(pool_c, [r.choice(ck) for _ in range(k)], ["-c"]))
        # without -f the same lists (non-bzip2 operands are fatal): the prefix before the failure must agree
        for _ in range(20 if self.tier == "quick" else 200):
            out.append(scn(pool_d, [r.choice(dk) for _ in range(r.choice([2, 3]))], ["-d", "-c"]))
        return out

    def correspond(self):
        self.setup()
        n = 250 if self.tier == "quick" else 3000
        mixes = self.gen_stdout_mixes()
        scns, hist = self.gen_multi(n)
        hist["stdout_mixes"] = len(mixes)
        self.nmix = len(mixes)
        scns = mixes + scns
        texts = []
        for i, scn in enumerate(scns):
            cfg = fl.cfg_of_flags(scn["flags"])
            texts.append(fl.case_text("m%d" % i, scn, fl.codec_lines_simple(self.codec, scn, cfg)))
        model = fl.run_model("".join(texts))

        def one(i):
            return fl.run_real(self.exe, scns[i], os.path.join(self.scn_dir, "m%d" % i))
        with ThreadPoolExecutor(max_workers=min(12, vlib.NCPU)) as ex:
            reals = list(ex.map(one, range(len(scns))))
        self.scns, self.reals = scns, reals
        dis, nontriv, outcomes, nops = [], set(), {}, {}
        for i, (scn, real) in enumerate(zip(scns, reals)):
            m = model["m%d" % i]
            d = fl.compare(scn, real, m)
            if d:
                dis.append({"scenario": fl.scn_brief(scn), "argv": fl.argv_of(scn), "diffs": d[:8]})
            outcomes[real["outcome"]] = outcomes.get(real["outcome"], 0) + 1
            nops[len(scn["ops"])] = nops.get(len(scn["ops"]), 0) + 1
            disp = [h["disp"].split(":")[0] for h in m["hist"]]
            if len(set(disp)) >= 2 or disp.count("done") >= 2:
                nontriv.add(json.dumps(fl.scn_brief(scn), sort_keys=True))
        self.disagreements = dis
        if getattr(self.gen, "codec_broken", False):
            self.broken.append(Broken("correspondence", "lbzip2 fails as a stdin->stdout filter on valid input (used as codec instance)", ""))
        for dd in dis[:5]:
            self.broken.append(Broken("correspondence", "operand-loop model vs lbzip2 differ on `lbzip2 %s`" % " ".join(dd["argv"]),
                                      "; ".join(dd["diffs"])[:1500]))
        return {
            "evaluations": len(scns), "distinct_nontrivial": len(nontriv),
            "rule": "one invocation with 2..6 FILE operands (valid, empty, incompressible, not-bzip2, corrupt, missing, directory, "
                    "symlink, hard-linked, fifo, repeated, pre-existing outputs), both modes, -k/-c/-t/-f, a quarter with --sequential; "
                    "model (fold of the per-operand step) vs real: exit status, final listing, stdout, diagnostics; non-trivial = distinct "
                    "scenarios with at least two processed operands or a mix of dispositions (done/skipped/aborted)",
            "samples": [{"argv": fl.argv_of(s)} for s in scns[:3]],
            "histogram": {"operand_kinds": hist, "outcomes": outcomes, "operands_per_invocation": nops},
            "disagreements": len(dis),
        }

    # ---- the property itself: combined versus separate invocations -------------------------------
    def combined_vs_separate(self, scn, combined, idx):
        d = os.path.join(self.scn_dir, "sep%d" % idx)
        fl.materialise(scn, d)
        t0 = time.time_ns() - 2_000_000_000
        rcs, outs, done_out = [], b"", b""
        for op in scn["ops"]:
            r = fl.invoke(self.exe, fl.argv_of(scn, [op]), d)
            rcs.append(r["outcome"])
            outs += r["out"]
            if r["outcome"] not in ("E0", "E4"):
                break
            done_out += r["out"]
        sep_listing = fl.real_listing(d, t0)
        bad = [x for x in rcs if x not in ("E0", "E4")]
        want = bad[0] if bad else ("E4" if "E4" in rcs else "E0")
        diffs = []
        if combined["outcome"] != want:
            diffs.append("exit status: combined %s, separate invocations %s -> %s" % (combined["outcome"], rcs, want))
        a = {e["path"]: e for e in combined["listing"]}
        b = {e["path"]: e for e in sep_listing}
        for p in sorted(set(a) | set(b)):
            x, y = a.get(p), b.get(p)
            if x is None or y is None:
                diffs.append("path %r: combined %s, separate %s" % (p, fl.short(x) if x else "absent", fl.short(y) if y else "absent"))
                continue
            for f in ("kind", "target", "mode", "uid", "gid", "nlink", "mtime", "data"):
                if f in ("nlink", "mtime", "data") and x.get("kind") != "r":
                    continue
                if x.get(f) != y.get(f):
                    diffs.append("path %r: %s combined %s, separate %s" % (p, f, fl.short(x).get(f, fl.short(x).get("sha")),
                                                                        fl.short(y).get(f, fl.short(y).get("sha"))))
        if not bad and combined["out"] != outs:
            diffs.append("stdout: combined %d bytes, separate %d bytes (first difference at byte %d)" % (
                len(combined["out"]), len(outs), next((i for i, (x, y) in enumerate(zip(combined["out"], outs)) if x != y),
                                                      min(len(combined["out"]), len(outs)))))
        if bad and not combined["out"].startswith(done_out):
            diffs.append("stdout: the output of the operands completed before the fatal error (%d bytes) is not a prefix of the "
                         "combined output (%d bytes)" % (len(done_out), len(combined["out"])))
        return diffs, rcs

    def direct_on(self, scns, reals, limit):
        viols = []
        idx = list(range(len(scns)))[:limit]

        def one(i):
            return self.combined_vs_separate(scns[i], reals[i], i)
        with ThreadPoolExecutor(max_workers=min(12, vlib.NCPU)) as ex:
            res = list(ex.map(one, idx))
        for i, (diffs, rcs) in zip(idx, res):
            if diffs:
                scn = scns[i]
                key = "c18:combined-vs-separate:" + diffs[0].split(":")[0].split(" ")[0]
                viols.append(Violation(key, "lbzip2 %s%s: one invocation differs from one invocation per operand: %s" % (
                    " ".join(fl.argv_of(scn)), (" (operands: %s)" % ", ".join(scn["kinds"])) if scn.get("kinds") else "",
                    "; ".join(diffs[:3])),
                    {"scenario": fl.scn_brief(scn), "argv": fl.argv_of(scn), "operand_kinds": scn.get("kinds"),
                     "diffs": diffs[:10], "separate_status": rcs,
                     "combined_status": reals[i]["outcome"]}))
        seen, out = set(), []
        for v in viols:
            if v.key not in seen:
                seen.add(v.key)
                out.append(v)
        return out

    def scarce_descriptor_runs(self):
        """Independence of operands also means that an operand leaves nothing behind that a later one can run out of: long runs of
        skipped / failed / completed operands followed by ordinary ones, with RLIMIT_NOFILE = 16 (prlimit), combined versus separate."""
        self.setup()
        t1, t2 = 1_234_567_890_123_456_789, 1_111_111_111_000_000_001
        r = vlib.SplitMix(self.seed * 7 + 3)
        plain = bytes(r.choice(b"abcdefgh \n") for _ in range(70000))
        z = self.codec.get("C", b"payload\n" * 30)[1]
        scns = []
        for mode in ("c-exists", "d-exists", "c-done", "d-done", "d-notbz", "c-mixed"):
            names, inodes, ops = {}, {}, []
            ino = [10]

            def add(nm, data, op=True):
                names[nm] = ("L", ino[0])
                inodes[ino[0]] = {"kind": "r", "mode": 0o644, "uid": 0, "gid": 0, "atime": t1, "mtime": t2, "data": data}
                ino[0] += 1
                if op:
                    ops.append(nm)
            nskip = 24 if self.tier == "quick" else 40
            for i in range(nskip):
                if mode == "c-exists" or (mode == "c-mixed" and i % 3 == 0):
                    add("s%d" % i, b"abc\n")
                    add("s%d.bz2" % i, b"older", op=False)
                elif mode == "d-exists":
                    add("s%d.bz2" % i, z)
                    add("s%d" % i, b"older", op=False)
                elif mode == "c-done" or (mode == "c-mixed" and i % 3 == 1):
                    add("s%d" % i, b"abc %d\n" % i)
                elif mode == "d-done":
                    add("s%d.bz2" % i, z)
                elif mode == "d-notbz":
                    add("s%d.bz2" % i, b"this is not bzip2 data\n")
                else:
                    ops.append("missing%d" % i)
            if mode.startswith("c"):
                add("last-big", plain)
                add("last-empty", b"")
            else:
                add("last-big.bz2", self.codec.get("C", plain)[1])
                add("last-empty.bz2", self.codec.get("C", b"")[1])
            flags = (["-d"] if mode.startswith("d") else []) + (["-k"] if r.chance(1, 2) else [])
            scns.append({"names": names, "inodes": inodes, "ops": ops, "flags": flags, "plan": None, "kinds": [mode]})

        def one(i):
            return fl.run_real(self.exe, scns[i], os.path.join(self.scn_dir, "fd%d" % i), wrapper=["prlimit", "--nofile=16"], timeout=60)
        with ThreadPoolExecutor(max_workers=6) as ex:
            reals = list(ex.map(one, range(len(scns))))
        self.notes.append("scarce-descriptor runs (prlimit --nofile=16, %d operands each): %s" % (
            len(scns[0]["ops"]), ", ".join("%s:%s" % (s["kinds"][0], x["outcome"]) for s, x in zip(scns, reals))))
        out = self.direct_on(scns, reals, len(scns))
        for v in out:
            v.key = v.key.replace("c18:combined-vs-separate", "c18:scarce-descriptors")
            v.payload["wrapper"] = ["prlimit", "--nofile=16"]
        return out

    def direct(self):
        if not hasattr(self, "scns"):
            return []
        return (self.direct_on(self.scns, self.reals, getattr(self, "nmix", 0) + (150 if self.tier == "quick" else 1500))
                + self.scarce_descriptor_runs() + self.findings())

    def findings(self):
        """Confirmed deviation from the property text, reported with a fixed key when reproduced (known_findings.json)."""
        self.setup()
        t1, t2 = 1_234_567_890_123_456_789, 1_111_111_111_000_000_001
        scn = {"names": {"s": ("L", 10)}, "ops": ["s"], "flags": [], "plan": None,
               "inodes": {10: {"kind": "r", "mode": 0o4755, "uid": 0, "gid": 0, "atime": t1, "mtime": t2, "data": b"setuid input\n" * 9}}}
        real = fl.run_real(self.exe, scn, os.path.join(self.scn_dir, "finding_setuid"))
        after = {e["path"] for e in real["listing"]}
        if real["outcome"] == "E4" and "s.bz2" in after and "s" not in after and b"skipping" not in real["err"]:
            return [Violation("c18:exit4-without-skip",
                              "`chmod 4755 s; lbzip2 s`: s is processed completely (s.bz2 written, s removed, nothing skipped) but the exit status "
                              "is 4, because output_regf_uninit() warns \"won't restore any of setuid, setgid, sticky\"; any warning sets "
                              "`warned`, not only skips (C18_exit4_only_if_skipped_refuted)",
                              {"scenario": fl.scn_brief(scn), "argv": fl.argv_of(scn), "exit": real["outcome"],
                               "stderr": real["err"].decode("latin-1")[:300]})]
        return []

    def search(self):
        self.setup()
        scns = [fl.scn_from_brief(dd["scenario"]) for dd in getattr(self, "disagreements", [])[:50]]
        more, _ = self.gen_multi(600)
        scns += self.gen_stdout_mixes() + more

        def one(i):
            return fl.run_real(self.exe, scns[i], os.path.join(self.scn_dir, "s%d" % i))
        with ThreadPoolExecutor(max_workers=min(12, vlib.NCPU)) as ex:
            reals = list(ex.map(one, range(len(scns))))
        return self.direct_on(scns, reals, len(scns))

    def replay(self, path):
        self.setup()
        p = json.load(open(path))
        if "scenario" not in p:
            print("replay file names no scenario:", json.dumps(p.get("broken"), indent=1)[:3000])
            return 1
        scn = fl.scn_from_brief(p["scenario"])
        real = fl.run_real(self.exe, scn, os.path.join(self.scn_dir, "replay"), wrapper=p.get("wrapper", ()), timeout=60)
        diffs, rcs = self.combined_vs_separate(scn, real, 999999)
        print("lbzip2", " ".join(fl.argv_of(scn)), "->", real["outcome"], "; separately:", rcs)
        for d in diffs:
            print("DIFFERENCE:", d)
        return 1 if diffs else 0
