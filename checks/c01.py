"""C01 - compression round-trips exactly."""
import bz2
import os

import vlib
import declib
import enclib
from runner import PropertyCheck, Broken, Violation


class Check(PropertyCheck):
    pid = "C01"
    props_module = "Properties.Properties_C01"
    extra_targets = ["Extract/ExtractEnc.vo", "Extract/ExtractDec.vo", "Extract/ExtractGen.vo", "Extract/ExtractPm.vo", "Extract/ExtractEncode.vo"]
    extra_props = ["Properties.Properties_C02gen", "Properties.Properties_C02gen_total", "Properties.Properties_C02enc"]
    gen_files = enclib.ENC_GEN
    trusted_base = enclib.ENC_TRUSTED
    assumptions = ["divbwt() returns the last column of the sorted rotations and a valid primary index (checked per case by valid_idxb in the correspondence, not proved)"]

    def correspond(self):
        quick = self.tier == "quick"
        cases = enclib.block_cases(self.rng, 260 if quick else 4000, 700 if quick else 1500)
        self.cases = cases
        self.hres, self.mres, stats = enclib.encoder_correspondence(self, cases)
        # second tie: the stream built around each real block must decode (extracted lbz_decode) to the consumed input
        files, want = [], []
        for (m, d), (st, kv, raw) in zip(cases, self.hres):
            if st == "OK":
                files.append(enclib.stream_of_block(kv))
                want.append(d[:int(kv["consumed"])])
        dec = declib.run_model("lbz", files)
        nbad = 0
        for f, w, r in zip(files, want, dec):
            if r != declib.fmt_out(w):
                nbad += 1
                if nbad <= 3:
                    self.broken.append(Broken("correspondence", "model decoder does not reproduce the input from the real encoder's block",
                                              "decoded=%s expected=%s stream_hex=%s" % (r, declib.fmt_out(w), f.hex()[:300])))
        stats["model_decode_mismatch"] = nbad
        nontriv = set((m, d) for (m, d), (st, kv, raw) in zip(cases, self.hres) if st == "OK" and int(kv["nblock"]) >= 4)
        return {"evaluations": len(cases), "distinct_nontrivial": len(nontriv),
                "rule": "inputs from G1 (runs of 1..5/255..261/518, Fibonacci/Thue-Morse/tandem repeats, alphabets 1/2/3/16/256, MTF lengths "
                        "around 150/300/600/1200/2400, skewed and Fibonacci-like frequencies) at block capacities 1..1500 through the real "
                        "collect/encode/transmit; non-trivial = distinct cases whose block holds at least 4 bytes",
                "samples": [{"M": m, "input_hex": d.hex()[:80], "impl": raw[:160]} for (m, d), (st, kv, raw) in list(zip(cases, self.hres))[:3]],
                "encoder_stats": stats}

    def roundtrip(self, plains, levels, seqs):
        out = []
        n = 0
        for lvl in levels:
            for seq in seqs:
                comp = enclib.run_compress(plains, lvl, seq)
                good = [(p, c) for p, c in zip(plains, comp) if c[1] == 0 and not c[2]]
                for p, (c, rc, err) in zip(plains, comp):
                    n += 1
                    if rc != 0 or err:
                        out.append(Violation("compress-fails", "lbzip2 -%d%s on %d bytes: exit %s stderr %r" % (lvl, " -u" if seq else "", len(p), rc, err[:100]),
                                             {"input_hex": p.hex()[:2000], "input_len": len(p), "level": lvl, "sequential": seq}))
                dec = enclib.run_decompress([c[0] for p, c in good])
                for (p, c), (o, rc, err) in zip(good, dec):
                    ok2 = True
                    try:
                        ok2 = declib.libbz2_decode(c[0]) == p
                    except Exception:
                        ok2 = False
                    if rc != 0 or err or o != p or not ok2:
                        out.append(Violation("roundtrip-differs", "lbzip2 -%d%s | lbzip2 -d on %d bytes: exit %s, stderr %r, bytes equal=%s, libbz2 agrees=%s" %
                                             (lvl, " -u" if seq else "", len(p), rc, err[:80], o == p, ok2),
                                             {"input_hex": p.hex()[:4000], "input_len": len(p), "input_md5": declib.fmt_out(p), "level": lvl, "sequential": seq}))
                if len(out) >= 3:
                    return out, n
        return out, n

    def direct(self):
        quick = self.tier == "quick"
        plains = [enclib.gen_plain(self.rng, 3000) for _ in range(60 if quick else 600)] + [b"", b"a"]
        v, n1 = self.roundtrip(plains, [1, 9] if quick else list(range(1, 10)), [False, True])
        big = enclib.big_plains(self.rng, quick) + enclib.boundary_plains(self.rng, 1, 24 if quick else 200)
        v2, n2 = self.roundtrip(big, [1] if quick else [1, 2, 9], [False, True])
        v3, n3 = ([], 0) if quick else self.roundtrip([enclib.maxgroups_plain()], [9], [False, True])
        self.notes.append("process-level round trips: %d small, %d large, %d with the maximal number (18001) of coding groups" % (n1, n2, n3))
        return v + v2 + v3

    def search(self):
        self.rng = vlib.SplitMix(self.seed + 77)
        plains = [enclib.gen_plain(self.rng, 5000) for _ in range(300)]
        v, n = self.roundtrip(plains, [1, 5, 9], [False, True])
        if not v:
            # a level-9 block with 900001 symbols = 18001 coding groups (the largest selector count the format allows)
            v, n = self.roundtrip([enclib.maxgroups_plain()], [9], [False])
            for x in v:
                x.payload["generator"] = "enclib.maxgroups_plain()"
                x.payload["input_hex"] = x.payload["input_hex"][:200]
        return v

    def replay(self, path):
        import json
        p = json.load(open(path))
        if "input_hex" not in p:
            print(json.dumps(p.get("broken"), indent=1)[:3000])
            return 1
        d = enclib.maxgroups_plain() if p.get("generator") == "enclib.maxgroups_plain()" else bytes.fromhex(p["input_hex"])
        v, n = self.roundtrip([d], [p.get("level", 1)], [p.get("sequential", False)])
        print("violations:", [x.summary for x in v])
        return 1 if v else 0
