"""C06 - every conforming bzip2 file is decompressed."""
import bz2
import os

import vlib
import declib
from runner import PropertyCheck, Broken, Violation


class Check(PropertyCheck):
    pid = "C06"
    props_module = "Properties.Properties_C06"
    extra_targets = ["Extract/ExtractDec.vo"]
    gen_files = declib.DEC_GEN
    trusted_base = declib.DEC_TRUSTED
    assumptions = ["conforming = accepted by ref_noexc_decode (strict format minus the two documented exceptions)"]

    def gen(self):
        rng = self.rng
        quick = self.tier == "quick"
        files = []
        for _ in range(220 if quick else 3000):
            f, plain = declib.bzcraft.valid_file(rng, 260 if quick else 500)
            files.append((f, plain, "crafted"))
        # third-party encoder output at every level, plus concatenations
        for lvl in range(1, 10):
            for _ in range(3 if quick else 30):
                plain = declib.bzcraft.random_plain(rng, 600)
                files.append((bz2.compress(plain, lvl), plain, "libbz2-%d" % lvl))
        a = declib.bzcraft.random_plain(rng, 300)
        b = declib.bzcraft.random_plain(rng, 300)
        files.append((bz2.compress(a, 1) + bz2.compress(b, 9) + bz2.compress(b"", 5), a + b, "libbz2-concat"))
        # groups made of 20-bit codes only (1000-bit groups), to be decoded with many input-block sizes
        self.dense = []
        for _ in range(2 if quick else 8):
            f, plain = declib.bzcraft.dense20_file(rng, 30000 if quick else 80000)
            self.dense.append((f, plain))
        # concatenated streams of different levels where a LATER stream has the bigger blocks
        for _ in range(2 if quick else 10):
            l1 = rng.range(1, 4)
            l2 = rng.range(l1 + 1, 9)
            b1 = declib.bzcraft.valid_block(rng, 60)
            b2 = declib.bzcraft.Block()
            b2.const_run = (rng.below(256), 100000 * l1 + rng.choice([1, 5000, 100000 * (l2 - l1)]))
            bits = declib.bzcraft.stream([b1], l1, rng) + declib.bzcraft.stream([b2], l2, rng)
            f = declib.bzcraft.to_bytes(bits)
            files.append((f, declib.libbz2_decode(f), "levels-up"))
        # one big randomised block (legacy format feature): more than 278191 bytes, so that the randomisation table wraps around
        for _ in range(1 if quick else 3):
            f, plain = declib.bzcraft.big_rand_file(rng, rng.choice([280000, 300000, 450000]) if quick else rng.range(278192, 900000))
            files.append((f, plain, "big-randomised"))
        # 20-bit codes: skewed table over >= 21 symbols
        for _ in range(6 if quick else 60):
            plain = bytes(rng.shuffle(list(range(40))) * 3)
            blk = declib.bzcraft.Block(plain)
            L, idx, _r = declib.bzcraft.bwt(declib.bzcraft.rle1(list(plain)))
            mv, used, asz = declib.bzcraft.mtfzrle(L)
            blk.ntables = 2
            blk.lens = [declib.bzcraft.random_complete_lengths(rng, asz, 20, skew=True), declib.bzcraft.balanced_lengths(asz)]
            blk.selectors = [rng.below(2) for _ in range((len(mv) + 49) // 50)]
            files.append((declib.bzcraft.to_bytes(declib.bzcraft.stream([blk], rng.range(1, 9), rng)), plain, "codelen20"))
        # surplus selectors up to 32767
        plain = declib.bzcraft.random_plain(rng, 100)
        blk = declib.bzcraft.Block(plain)
        blk.extra_selectors = 32767 - 10
        L, idx, _r = declib.bzcraft.bwt(declib.bzcraft.rle1(list(plain)))
        mv, used, asz = declib.bzcraft.mtfzrle(L)
        blk.extra_selectors = 32767 - (len(mv) + 49) // 50
        files.append((declib.bzcraft.to_bytes(declib.bzcraft.stream([blk], 9, rng)), plain, "selectors32767"))
        # committed corpus (e.g. a 900000-byte block that needs all 18001 selector groups)
        cd = os.path.join(vlib.VERIF, "harness", "corpus", "c06")
        if os.path.isdir(cd):
            for n in sorted(os.listdir(cd)):
                d = open(os.path.join(cd, n), "rb").read()
                files.append((d, declib.libbz2_decode(d), "corpus:" + n))
        # in-tree conforming test vectors
        for n in ("32767.bz2", "codelen20.bz2", "concat.bz2", "empty.bz2", "fib.bz2", "ch255.bz2"):
            p = os.path.join(vlib.REPO, "tests", n)
            if os.path.exists(p) and os.path.getsize(p) < 4000:
                d = open(p, "rb").read()
                try:
                    files.append((d, declib.libbz2_decode(d), "repo-tests:" + n))
                except Exception:
                    pass
        return files

    def correspond(self):
        files = self.gen()
        self.files = [f for f, p, t in files]
        self.plains = [p for f, p, t in files]
        self.tags = [t for f, p, t in files]
        small = [i for i, p in enumerate(self.plains) if len(p) <= 3000]
        sf = [self.files[i] for i in small]
        st = [self.tags[i] for i in small]
        self.model, impl_small = declib.model_vs_impl(self, sf, st)
        noexc = declib.run_model("noexc", sf)
        self.n_noexc_ok = sum(1 for x in noexc if x.startswith("OK"))
        for f, t, x in zip(sf, st, noexc):
            if not x.startswith("OK"):
                self.notes.append("generator produced a non-conforming %s file: %s" % (t, x))
        # tiny I/O granules (hook H2) only for small outputs; decompression bombs run with the shipped sizes
        big = [i for i, p in enumerate(self.plains) if len(p) > 200000]
        rest = [i for i in range(len(self.files)) if i not in big]
        self.impl = [None] * len(self.files)
        for i, r in zip(rest, declib.run_impl([self.files[i] for i in rest], timeout=120)):
            self.impl[i] = r
        for i, r in zip(big, declib.run_impl([self.files[i] for i in big], timeout=300, vary_granules=False)):
            self.impl[i] = r
        hist = {}
        for t in self.tags:
            hist[t.split(":")[0]] = hist.get(t.split(":")[0], 0) + 1
        return {
            "evaluations": len(self.files), "distinct_nontrivial": len(set(f for f, p in zip(self.files, self.plains) if len(p) > 0)),
            "rule": "conforming files: crafted (2-6 random complete tables, random selectors, zig-zag delta paths inside 1..20, surplus "
                    "selectors up to 32767, randomised blocks, 0-3 blocks per stream, 1-3 streams of different levels, trailing "
                    "non-header garbage, 20-bit codes), libbz2 output at levels 1-9 and concatenations, in-tree vectors; "
                    "non-trivial = distinct files with non-empty plaintext",
            "samples": [{"tag": t, "file_hex": f.hex()[:160], "impl": b[0]} for f, t, b in list(zip(self.files, self.tags, self.impl))[:3]],
            "histogram": hist, "accepted_by_ref_noexc_model": self.n_noexc_ok, "disagreements": self.dec_disagreements,
        }

    def check_files(self, files, plains, tags, impl):
        out = []
        for f, p, t, (b, rc, err) in zip(files, plains, tags, impl):
            if b != declib.fmt_out(p):
                out.append(Violation("rejects-conforming:" + t.split(":")[0],
                                     "lbzip2 -d does not reproduce the data of a conforming %s file (%d bytes): %s, expected %s" %
                                     (t, len(f), b, declib.fmt_out(p)), declib.hexfile_payload(f, {"impl": b, "tag": t})))
                if len(out) >= 3:
                    break
        return out

    def dense_runs(self):
        """dense 20-bit groups against input blocks of many sizes, so that a group starts at every distance from a block end"""
        out = []
        n = 0
        for f, plain in getattr(self, "dense", []):
            for gran in (520, 1000, 1024, 1500, 2048, 3000, 4096, 8192, 12000):
                for nw in (1, 3):
                    r = declib.run_impl([f], nworkers=(nw,), env={"LBZIP2_VERIF_IN_GRANUL": str(gran)}, vary_granules=False, timeout=60)[0]
                    n += 1
                    if r[0] != declib.fmt_out(plain):
                        out.append(Violation("rejects-conforming:dense20", "lbzip2 -d -n%d with %d-byte input blocks does not reproduce a conforming stream of 20-bit codes: %s" % (nw, gran, r[0]),
                                             declib.hexfile_payload(f, {"granule": gran, "impl": r[0]})))
                        if len(out) >= 2:
                            return out
        self.notes.append("dense-20-bit runs: %d" % n)
        return out

    def direct(self):
        return self.check_files(self.files, self.plains, self.tags, self.impl) + self.dense_runs()

    def search(self):
        self.rng = vlib.SplitMix(self.seed + 1000)
        files = self.gen()
        fs = [f for f, p, t in files]
        return self.check_files(fs, [p for f, p, t in files], [t for f, p, t in files], declib.run_impl(fs, timeout=300, vary_granules=False))

    def replay(self, path):
        import json
        p = json.load(open(path))
        if "file_hex" not in p:
            print(json.dumps(p.get("broken"), indent=1)[:3000])
            return 1
        f = bytes.fromhex(p["file_hex"])
        impl = declib.run_impl([f])[0]
        lib = declib.run_libbz2([f])[0]
        if len(f) > 20000:        # big files: the reference library is the oracle (the extracted model is slow on them)
            print("impl:", impl[0], "\nlibbz2:", lib)
            return 0 if impl[0] == lib else 1
        ref = declib.run_model("noexc", [f])[0]
        print("impl:", impl[0], "\nref_noexc:", ref, "\nlibbz2:", lib)
        return 0 if impl[0] == ref else 1
