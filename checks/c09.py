"""C09 - decompression result is independent of configuration and schedule."""
import json
import os
import subprocess
import tempfile

import vlib
import schedx_part as sp
from runner import PropertyCheck, Broken, Violation


def run_mode(exe, data, mode, n, env, workdir, frag=None, timeout=120):
    """Run one output mode; returns (rc, output bytes or None, stderr).
    modes: stdout (-dc on a pipe), file (FILE operand -> FILE without .bz2), c (-c with FILE operand), t (-t)."""
    e = {"LBZIP2": "", "BZIP2": "", "BZIP": ""}
    e.update(env or {})
    full = dict(os.environ)
    full.update(e)
    if mode == "stdout":
        if frag:
            # fragmented pipe: a feeder writes the input in pieces
            p = subprocess.Popen([exe, "-dc", "-n%d" % n], stdin=subprocess.PIPE, stdout=subprocess.PIPE, stderr=subprocess.PIPE, env=full)
            import threading

            def feed():
                try:
                    i = 0
                    k = 0
                    while i < len(data):
                        sz = frag[k % len(frag)]
                        p.stdin.write(data[i:i + sz])
                        p.stdin.flush()
                        i += sz
                        k += 1
                    p.stdin.close()
                except Exception:
                    pass
            t = threading.Thread(target=feed, daemon=True)
            t.start()
            # reader threads + a bounded wait: a hanging program must not block this harness (reading the pipes inline would)
            bufs = {"o": b"", "e": b""}

            def rd(f, k):
                try:
                    bufs[k] = f.read()
                except Exception:
                    pass
            rt = [threading.Thread(target=rd, args=(p.stdout, "o"), daemon=True), threading.Thread(target=rd, args=(p.stderr, "e"), daemon=True)]
            for x in rt:
                x.start()
            try:
                rc = p.wait(timeout=vlib.hang_timeout(timeout))
            except subprocess.TimeoutExpired:
                p.kill()
                p.wait()
                vlib.note_hang()
                rc = 124
            for x in rt:
                x.join(5)
            t.join(5)
            out, err = (bufs["o"], bufs["e"]) if rc != 124 else (b"", b"[timeout]")
            return rc, out, err.decode("latin-1")
        rc, out, err = vlib.shb([exe, "-dc", "-n%d" % n], env=e, timeout=timeout, input=data)
        return rc, out, err.decode("latin-1")
    d = tempfile.mkdtemp(dir=workdir)
    try:
        f = os.path.join(d, "x.bz2")
        with open(f, "wb") as fh:
            fh.write(data)
        if mode == "file":
            rc, out, err = vlib.shb([exe, "-d", "-n%d" % n, f], env=e, timeout=timeout)
            res = None
            if os.path.exists(os.path.join(d, "x")):
                with open(os.path.join(d, "x"), "rb") as fh:
                    res = fh.read()
            return rc, res, err.decode("latin-1")
        if mode == "c":
            rc, out, err = vlib.shb([exe, "-dc", "-n%d" % n, f], env=e, timeout=timeout)
            return rc, out, err.decode("latin-1")
        if mode == "t":
            rc, out, err = vlib.shb([exe, "-t", "-n%d" % n, f], env=e, timeout=timeout)
            return rc, out, err.decode("latin-1")
    finally:
        import shutil
        shutil.rmtree(d, ignore_errors=True)
    raise ValueError(mode)


class Check(PropertyCheck):
    pid = "C09"
    props_module = "Properties.Properties_C09"
    extra_targets = ["Extract/ExtractSchedX.vo", "Extract/ExtractRetr.vo"]
    extra_props = ["Properties.Properties_C09retr"]
    gen_files = ["SchedXTab.v", "Consts.v", "DecTabs.v", "CrcTab.v"]
    trusted_base = [
        "Coq 8.16.1 kernel (coqc); no axioms",
        "translator lib/gen_schedx.py (guards, task order, capacities, slot formulas, re-enqueue tests)",
        "hand-written model SchedX/XModel.v tied by trace replay (shared with C10)",
        "the results of parse/retrieve/emit are functions of (stream, bit position): hypothesis (oracle O) of the process-level "
        "theorems; the two codec-layer facts it rests on are theorems about other models - emit() over any buffer sizes "
        "(C09_codec_output_buffer_sizes, array-level model Safe/EmitModel.v tied to decode.c by C08's harness safe_h_emit.c) and "
        "chunked feeding of bit-reader programs (C09_codec_input_chunking); and, for retrieve() itself, Properties_C09retr: a "
        "statement-level resumable model of retrieve() (Safe/RetrModel.v: every state of the switch, NEED/NEED_FAST, SAVE/RESTORE, fast "
        "and slow symbol loop as separate code, bounds-checked arrays, explicit widths) is proved safe for all inputs and chunkings, "
        "CHUNK INDEPENDENT (C09retr_chunk_independent: the result depends only on the concatenation of the input), fast path = slow "
        "path, and a refinement of Dec/Format.v's read_block (C09retr_refines_format / _complete / _rejects; the only difference: "
        "retrieve() wants 32 bits of slack behind the block, which every file has); tied call by call (return code, saved state, "
        "tt[], ftab[]) to the real retrieve() built with ASan/UBSan (checks/retr_part.py). What stays an assumption of the process-level "
        "theorem: that parse()/retrieve()/decode()/emit() as modelled are what the threads run between the scheduler's lock operations",
        "output mode: the byte sequence handed to xwrite() is what the theorem speaks about; that stdout/file/-c/-t only "
        "differ in where xwrite() sends it is checked by the direct runs, not proved",
    ]
    assumptions = [
        "C09 holds up to the known finding F2: on failing input the bytes that reached standard output before the fatal exit "
        "are a schedule-dependent prefix of the sequential output (exit status always 1)",
    ]

    def correspond(self):
        n = 40 if self.tier == "quick" else 400
        cov = sp.correspond_replay(self, n, kinds=["plain", "plain", "selzeros", "garbage", "blkcrc", "trunc", "strmcrc"])
        # the oracle of the process-level theorem for retrieve(): statement-level resumable model (Safe/RetrModel.v), proved chunk
        # independent and a refinement of the format description; tied call by call to the real retrieve() under ASan/UBSan
        try:
            import retr_part
            rc = retr_part.correspond(self) or {}
            cov["evaluations"] = int(cov.get("evaluations", 0)) + int(rc.get("evaluations", 0))
            cov["distinct_nontrivial"] = int(cov.get("distinct_nontrivial", 0)) + int(rc.get("distinct_nontrivial", 0))
            cov["retrieve_model"] = {k: v for k, v in rc.items() if k != "samples"}
        except vlib.BuildError:
            raise
        except Exception as e:
            self.broken.append(Broken("correspondence", "retr_part.correspond crashed", repr(e)[:800]))
        return cov

    def direct(self):
        """Cross-configuration comparison on the real binary against `-n1` with the shipped granules."""
        from concurrent.futures import ThreadPoolExecutor
        rng = self.rng
        exe = {f: vlib.build_lbzip2(f) for f in ("rel", "dbg")}
        work = os.path.join(self.work, "modes")
        os.makedirs(work, exist_ok=True)
        ninputs = 14 if self.tier == "quick" else 120
        nconf = 9 if self.tier == "quick" else 30
        inputs = [sp.gen_crafted(rng, kind=rng.choice(["plain", "plain", "garbage", "selzeros", "blkcrc", "trunc", "strmcrc", "magic"]))
                  for _ in range(ninputs)]
        # groups of exactly 1000 bits (20-bit codes): every alignment against an input block boundary
        inputs += [sp.gen_long_codes(rng) for _ in range(2 if self.tier == "quick" else 10)]
        jobs = []
        for c in inputs:
            for k in range(nconf):
                mode = ["stdout", "stdout", "file", "c", "t"][k % 5] if k < 5 else rng.choice(["stdout", "stdout", "stdout", "file", "c", "t"])
                frag = None
                if mode == "stdout" and rng.chance(1, 2):
                    frag = [rng.choice([1, 3, 7, 64, 500]) for _ in range(5)]
                ig = rng.choice([128, 256, 512, 1024, 2048, 128, 256]) if c.note == "long20" else rng.choice(sp.GRANULES + [None])
                jobs.append((c, mode, rng.range(1, 8), rng.below(100000), ig,
                             rng.choice([1, 7, 100, 300, None]), rng.choice(["rel", "dbg"]), frag))
        refs = {c.name: sp.reference_run(c.data) for c in inputs}

        def one(j):
            c, mode, n, seed, ig, og, fl, frag = j
            return run_mode(exe[fl], c.data, mode, n, sp.hook_env(seed=seed, ig=ig, og=og), work, frag=frag)
        with ThreadPoolExecutor(max_workers=max(2, vlib.NCPU // 2)) as ex:
            outs = list(ex.map(one, jobs))
        viols = []
        seen = set()
        hist = {}
        f2 = 0
        for j, (rc, out, err) in zip(jobs, outs):
            c, mode, n, seed, ig, og, fl, frag = j
            rrc, rout, rerr = refs[c.name]
            hist[mode] = hist.get(mode, 0) + 1
            desc = "%s mode=%s n=%d seed=%s ig=%s og=%s %s frag=%s" % (c.name, mode, n, seed, ig, og, fl, frag)
            crash = sp.classify_crash(rc, err)
            key = what = None
            if crash:
                key = ("F4-stale-retrieve-job:%s" % fl) if crash.startswith("F4") else "crash:" + crash.split(":")[0]
                what = crash
            elif rc != rrc:
                key, what = "status-differs", "exit status %s, reference (-n1, shipped granules) %s" % (rc, rrc)
            elif rc == 0:
                if mode == "t":
                    if out:
                        key, what = "t-writes-output", "-t wrote %d bytes" % len(out)
                elif out != rout:
                    key, what = "output-differs", "output differs from the reference"
            else:
                if mode == "file":
                    if out is not None:
                        key, what = "failed-file-output-kept", "output file exists after a failed decompression"
                elif mode == "t":
                    pass
                elif out != rout:
                    if sp.is_prefix(out, rout) or sp.is_prefix(rout, out):
                        # finding F2: accept only if both are prefixes of the sequential plain text
                        if c.plain is None or (sp.is_prefix(out, c.plain) and sp.is_prefix(rout, c.plain)):
                            f2 += 1
                            key, what = "F2:failing-input:stdout:bytes-before-exit-differ:prefix", \
                                "failing input: %d bytes reached stdout, reference wrote %d (each a prefix of the sequential decoding)" % (len(out), len(rout))
                        else:
                            key, what = "failing-output-not-a-prefix", "bytes written before the failure are not a prefix of the sequential output"
                    else:
                        key, what = "failing-output-not-a-prefix", "bytes written before the failure differ from the reference other than by length"
            if key and key not in seen:
                seen.add(key)
                viols.append(Violation(key, desc + ": " + what, {
                    "input_hex": c.data.hex(), "mode": mode, "n": n, "seed": seed, "in_granul": ig, "out_granul": og,
                    "flavor": fl, "frag": frag, "rc": rc, "stderr": err[-600:], "kind": "mode"}))
        self.notes.append("direct: %d runs over %d inputs; modes %s; %d runs showed finding F2" % (len(jobs), len(inputs), hist, f2))
        return viols

    def search(self):
        return sp.hunt_f4(self, tries=120 if self.tier == "quick" else 400)

    def replay(self, path):
        p = json.load(open(path))
        if "input_hex" not in p:
            print("replay file names no input:", json.dumps(p.get("broken"), indent=1)[:3000])
            return 1
        data = bytes.fromhex(p["input_hex"])
        if p.get("kind") == "f4":
            import c10
            return c10.Check(self.tier, self.seed).replay(path)
        exe = vlib.build_lbzip2(p.get("flavor", "rel"))
        ref = sp.reference_run(data)
        rc, out, err = run_mode(exe, data, p.get("mode", "stdout"), p.get("n", 4),
                                sp.hook_env(seed=p.get("seed"), ig=p.get("in_granul"), og=p.get("out_granul")),
                                self.work, frag=p.get("frag"))
        same = rc == ref[0] and (p.get("mode") in ("t",) or out == ref[1] or p.get("mode") == "file" and rc != 0)
        print("rc=%s (reference %s), output %s" % (rc, ref[0], "equal" if out == ref[1] else "differs (%s vs %d bytes)" % (None if out is None else len(out), len(ref[1]))))
        return 0 if same else 1
