"""Decompression-scheduler machinery shared by C10, C09 and the decompression
parts of C11/C13 (area SchedX):

  * crafting bzip2 encoder (valid/invalid multi-block, multi-stream files with the
    48-bit block magic planted in surplus selectors, in trailing garbage, ...)
  * running the real binary under hooks H1/H2/H3 and turning its scheduler trace
    into model events; replay through the extracted model (harness/schedx_driver.ml)
  * correspond_x(check) / direct_x(check) / search_x(check) for C11/C13.
"""
import hashlib
import os
import re
import subprocess
import sys
import tempfile

import vlib
from runner import Broken, Violation

MAGIC_BLK = 0x314159265359
MAGIC_EOS = 0x177245385090


# ---------------------------------------------------------------------------
# crafting encoder
# ---------------------------------------------------------------------------
def crc32_bz(data, crc=0xFFFFFFFF):
    for b in data:
        crc ^= b << 24
        for _ in range(8):
            crc = ((crc << 1) ^ 0x04C11DB7) & 0xFFFFFFFF if crc & 0x80000000 else (crc << 1) & 0xFFFFFFFF
    return crc


class BW:
    def __init__(self):
        self.bits = []

    def put(self, n, v):
        for i in range(n - 1, -1, -1):
            self.bits.append((v >> i) & 1)

    def putbits(self, bs):
        self.bits.extend(bs)

    def align(self):
        self.bits.extend([0] * ((-len(self.bits)) % 8))

    def bytes(self):
        b = self.bits + [0] * ((-len(self.bits)) % 8)
        out = bytearray()
        for i in range(0, len(b), 8):
            v = 0
            for x in b[i:i + 8]:
                v = (v << 1) | x
            out.append(v)
        return bytes(out)


def rle1(data):
    out = []
    i = 0
    while i < len(data):
        j = i
        while j < len(data) and data[j] == data[i] and j - i < 255 + 4:
            j += 1
        n = j - i
        if n >= 4:
            out += [data[i]] * 4 + [n - 4]
        else:
            out += [data[i]] * n
        i = j
    return out


def bwt(blk):
    n = len(blk)
    d = bytes(blk) * 2
    rots = sorted(range(n), key=lambda i: d[i:i + n])
    return [blk[(i - 1) % n] for i in rots], rots.index(0)


def mtfzrle(L):
    used = sorted(set(L))
    order = list(used)
    out = []
    run = 0

    def flush():
        nonlocal run
        while run > 0:
            run -= 1
            out.append(run & 1)
            run >>= 1
    for c in L:
        i = order.index(c)
        if i == 0:
            run += 1
            continue
        flush()
        out.append(i + 1)
        order.pop(i)
        order.insert(0, c)
    flush()
    eob = len(used) + 1
    out.append(eob)
    return out, used, eob + 1


def lengths_for(asz):
    k = asz.bit_length() - 1
    nshort = (2 << k) - asz
    return [k] * nshort + [k + 1] * (asz - nshort) if nshort < asz else [k] * asz


def canon(lens):
    codes = [0] * len(lens)
    code = 0
    for l in range(1, 21):
        for s, ls in enumerate(lens):
            if ls == l:
                codes[s] = code
                code += 1
        code <<= 1
    return codes


def tokenize(bits, nt):
    """Cut a bit string into selector tokens 1^k 0 (k < nt); None if impossible."""
    toks = []
    cur = []
    for x in bits:
        cur.append(x)
        if x == 0:
            toks.append(cur)
            cur = []
        elif len(cur) >= nt:
            return None
    if cur:
        cur.append(0)
        toks.append(cur)
    return toks


def put_block(w, data, nt=2, extra_tokens=(), crc_override=None, idx_override=None, rand=0):
    """Append one compressed block for `data` (non-empty); returns its CRC.
    extra_tokens: surplus selector tokens (bit lists) placed after the needed selectors."""
    blk = rle1(data)
    L, idx = bwt(blk)
    mv, used, asz = mtfzrle(L)
    lens = lengths_for(asz)
    codes = canon(lens)
    w.put(24, 0x314159)
    w.put(24, 0x265359)
    crc = crc32_bz(data) ^ 0xFFFFFFFF
    w.put(32, crc if crc_override is None else crc_override)
    w.put(1, rand)
    w.put(24, idx if idx_override is None else idx_override)
    big = 0
    small = [0] * 16
    for c in used:
        big |= 0x8000 >> (c >> 4)
        small[c >> 4] |= 0x8000 >> (c & 15)
    w.put(16, big)
    for i in range(16):
        if small[i]:
            w.put(16, small[i])
    ns_needed = (len(mv) + 49) // 50
    ns = ns_needed + len(extra_tokens)
    assert ns <= 32767, ns
    w.put(3, nt)
    w.put(15, ns)
    for _ in range(ns_needed):
        w.put(1, 0)
    for t in extra_tokens:
        w.putbits(t)
    for t in range(nt):
        cur = lens[0]
        w.put(5, cur)
        for l in lens:
            while cur < l:
                w.put(2, 2)
                cur += 1
            while cur > l:
                w.put(2, 3)
                cur -= 1
            w.put(1, 0)
    for m in mv:
        w.put(lens[m], codes[m])
    return crc


def fake_header_bits(crc=0, tail="zeros"):
    """Block magic + CRC + the start of something that looks like a block whose
    selector list goes on for ever (tokenizable: no run of six ones)."""
    b = []

    def put(n, v):
        for i in range(n - 1, -1, -1):
            b.append((v >> i) & 1)
    put(24, 0x314159)
    put(24, 0x265359)
    put(32, crc)
    if tail == "zeros":
        put(1, 0)
        put(24, 0)
        put(16, 0x8000)
        put(16, 0x8000)
        put(3, 2)
        put(15, 0b011111011111011)
    elif tail == "bad":
        put(1, 0)
        put(24, 0)
        put(16, 0)          # empty alphabet -> ERR_BITMAP quickly
    return b


class Crafted:
    def __init__(self, name, data, plain, valid, note=""):
        self.name, self.data, self.plain, self.valid, self.note = name, data, plain, valid, note


def make_stream(w, chunks, level=9, plant=None, rng=None, corrupt=None):
    """One bzip2 stream with one block per chunk.  plant: dict block-index -> token list.
    corrupt: ('blkcrc', i) | ('strmcrc',) | ('magic', i) | None."""
    w.put(24, 0x425A68)
    w.put(8, 0x30 + level)
    comb = 0
    for i, ch in enumerate(chunks):
        toks = (plant or {}).get(i, ())
        nt = 6 if toks else 2
        over = None
        if corrupt and corrupt[0] == "blkcrc" and corrupt[1] == i:
            over = (crc32_bz(ch) ^ 0xFFFFFFFF) ^ 0x10
        if corrupt and corrupt[0] == "magic" and corrupt[1] == i:
            w.put(8, 0x55)          # breaks the block header magic
        c = put_block(w, ch, nt=nt, extra_tokens=toks, crc_override=over)
        comb = (((comb << 1) | (comb >> 31)) & 0xFFFFFFFF) ^ c
    w.put(24, 0x177245)
    w.put(24, 0x385090)
    w.put(32, comb ^ (1 if corrupt and corrupt[0] == "strmcrc" else 0))
    w.align()


def rand_text(rng, n, alpha=None):
    alpha = alpha or rng.choice([4, 16, 64, 256])
    return bytes(rng.below(alpha) for _ in range(n))


def gen_crafted(rng, kind=None):
    """One crafted input.  kinds:
       plain      valid multi-block / multi-stream
       selzeros   fake header + endless zeros in surplus selectors (the F4 shape)
       selbad     fake header followed by junk (candidate fails quickly)
       garbage    valid stream(s) + trailing garbage holding magics, complete
                  decodable blocks at random bit offsets and whole valid streams
       blkcrc / strmcrc / magic / trunc    invalid inputs (with or without plants)"""
    kinds = ["plain", "selzeros", "selbad", "garbage", "blkcrc", "strmcrc", "magic", "trunc", "selzeros", "garbage"]
    kind = kind or rng.choice(kinds)
    nstreams = rng.choice([1, 1, 2, 3])
    w = BW()
    plain = b""
    valid = True
    note = kind
    bad_stream = rng.below(nstreams)
    for s in range(nstreams):
        nblocks = rng.choice([1, 2, 3, 5, 8])
        chunks = [rand_text(rng, rng.choice([1, 7, 60, 200, 400])) for _ in range(nblocks)]
        plant = {}
        if kind in ("selzeros", "selbad") or (kind in ("blkcrc", "trunc") and rng.chance(1, 2)):
            for _ in range(rng.choice([1, 1, 2])):
                bi = rng.below(nblocks)
                pre = rng.choice([0, 3, 50, 200])
                post = rng.choice([100, 1500, 6000]) if kind != "selbad" else rng.choice([0, 40])
                fb = fake_header_bits(crc=rng.below(1 << 16), tail="bad" if kind == "selbad" else "zeros")
                toks = tokenize(fb, 6)
                if toks is None:
                    fb = fake_header_bits(crc=0, tail="bad" if kind == "selbad" else "zeros")
                    toks = tokenize(fb, 6)
                plant[bi] = [[0]] * pre + toks + [[0]] * post
        corrupt = None
        if s == bad_stream:
            if kind == "blkcrc":
                corrupt = ("blkcrc", rng.below(nblocks))
            elif kind == "strmcrc":
                corrupt = ("strmcrc",)
            elif kind == "magic":
                corrupt = ("magic", rng.below(nblocks))
        if corrupt and valid:
            valid = False
            if corrupt[0] == "blkcrc":
                # the buffers of the bad block that precede its last one are written before the CRC is compared
                plain_ok = b"".join(chunks[:corrupt[1] + 1])
            elif corrupt[0] == "magic":
                plain_ok = b"".join(chunks[:corrupt[1]])
            else:
                plain_ok = b"".join(chunks)
            make_stream(w, chunks, level=rng.range(1, 9), plant=plant, corrupt=corrupt)
            plain += plain_ok
            break
        make_stream(w, chunks, level=rng.range(1, 9), plant=plant)
        if valid:
            plain += b"".join(chunks)
    data = w.bytes()
    if kind == "garbage":
        g = BW()
        g.put(8, rng.choice([0x00, 0x41, 0xFF]))        # not 'B': the parser finishes here
        for _ in range(rng.choice([1, 2, 4])):
            what = rng.below(4)
            g.put(rng.below(9), 0)                      # random bit alignment
            if what == 0:
                g.putbits(fake_header_bits(crc=rng.below(1 << 32), tail="zeros"))
                g.putbits([0] * rng.choice([100, 3000]))
            elif what == 1:
                put_block(g, rand_text(rng, rng.choice([5, 100, 300])))     # complete decodable block
            elif what == 2:
                make_stream(g, [rand_text(rng, 50), rand_text(rng, 80)])     # whole valid stream
            else:
                g.put(48, MAGIC_BLK)
                g.putbits([rng.below(2) for _ in range(rng.choice([10, 200]))])
        data += g.bytes()
    if kind == "trunc":
        cut = rng.range(8, max(9, len(data) - 1))
        data = data[:cut]
        valid = False
        plain = None                                    # a prefix of the full plain text; computed by the reference
        note = "trunc@%d" % cut
    name = "%s-%s" % (kind, hashlib.sha256(data).hexdigest()[:10])
    return Crafted(name, data, plain, valid, note)


def craft_f4(pre=200, post=30000, seed=3):
    """The input of notes/design-experiments/craft4.py (finding F4): a VALID one-block
    file whose surplus selectors embed a fake block header followed by zeros."""
    import random
    data = bytes(random.Random(seed).randrange(256) for _ in range(400))
    toks = [[0]] * pre + tokenize(fake_header_bits(), 6) + [[0]] * post
    w = BW()
    w.put(24, 0x425A68)
    w.put(8, 0x39)
    c = put_block(w, data, nt=6, extra_tokens=toks)
    w.put(24, 0x177245)
    w.put(24, 0x385090)
    w.put(32, c)
    return Crafted("f4-%d-%d" % (pre, post), w.bytes(), data, True, "craft4")


# ---------------------------------------------------------------------------
# running the binary
# ---------------------------------------------------------------------------
def run_lbzip2(exe, data, args, env=None, timeout=60, infile=None):
    e = {"LBZIP2": "", "BZIP2": "", "BZIP": ""}
    e.update(env or {})
    if infile is not None:
        with open(infile, "rb") as f:
            return vlib.shb([exe] + args, env=e, timeout=timeout, input=f.read())
    return vlib.shb([exe] + args, env=e, timeout=timeout, input=data)


def hook_env(seed=None, ig=None, og=None, trace=None):
    env = {}
    if seed is not None:
        env["LBZIP2_VERIF_SCHED"] = str(seed)
    if ig is not None:
        env["LBZIP2_VERIF_IN_GRANUL"] = str(ig)
    if og is not None:
        env["LBZIP2_VERIF_OUT_GRANUL"] = str(og)
    if trace is not None:
        env["LBZIP2_VERIF_TRACE"] = trace
    return env


# ---------------------------------------------------------------------------
# trace -> model events
# ---------------------------------------------------------------------------
REC_RE = re.compile(
    r"^X head=(\d+) tail=(\d+) ptok=(\d) pdone=(\d) ppos=(\d+)\.(\d+) poffs=(\d+) plive=(\d+) roffs=(\d+) eofm=(\d+)"
    r" inq=(\S*) scan=(\S*) retr=(\S*) emit=(\S*) reord=(\S*) order=(\S*) unord=(\S*) caps=(\S+)"
    r" k=(\w)(?::(\w+))? t=(\d+) eof=(\d) wu=(\d+) os=(\d+) tos=(\d+) nw=(\d+)$")


class Rec:
    __slots__ = ("head", "tail", "ptok", "pdone", "pbit", "poffs", "plive", "roffs", "eofm", "inq", "scan", "retr",
                 "emit", "reord", "order", "unord", "caps", "k", "task", "t", "eof", "wu", "os", "tos", "nw", "anom", "stale_pbit")

    def obs(self):
        srt = lambda l: ",".join(sorted(l))
        return ("head=%d tail=%d ptok=%d pdone=%d pbit=%d poffs=%d roffs=%d eofm=%d inq=%s scan=%s retr=%s emit=%s "
                "reord=%s order=%s unord=%s eof=%d wu=%d os=%d") % (
            self.head, self.tail, self.ptok, self.pdone, self.pbit, self.poffs, self.roffs, self.eofm,
            ",".join("%d/%d/%d" % b for b in self.inq),
            srt("%012d/%d" % s for s in self.scan),
            srt("%012d/%012d/%d/%s" % r for r in self.retr),
            srt("%012d.%d/%d" % (e[0][0], e[0][1], e[1]) for e in self.emit),
            srt("%012d.%d/%d/%d" % (o[0][0], o[0][1], o[1], o[2]) for o in self.reord),
            ",".join("%012d.%d" % h for h in self.order),
            srt("%012d/%d/%d" % u for u in self.unord),
            self.eof, self.wu, self.os)


def parse_trace(text, in_granul):
    """Trace text -> (records, problems).  A last incomplete line (process died in
    failf) is ignored."""
    W = in_granul // 4
    recs = []
    problems = []

    def cpos(major, minor):
        major, minor = int(major), int(minor)
        return (32 * (major * W + (minor >> 32)) + ((minor >> 27) & 31), minor & ((1 << 27) - 1))

    def pp(s):
        a, b = s.split(".")
        return cpos(a, b)
    lines = text.split("\n")
    for ln, line in enumerate(lines):
        if not line:
            continue
        m = REC_RE.match(line)
        if not m:
            if ln >= len(lines) - 2:
                continue
            problems.append("unparsable trace line %d: %s" % (ln, line[:120]))
            continue
        g = m.groups()
        r = Rec()
        r.anom = []
        r.head, r.tail, r.ptok, r.pdone = int(g[0]), int(g[1]), int(g[2]), int(g[3])
        pb = cpos(g[4], g[5])
        r.pbit, r.poffs, r.plive, r.roffs, r.eofm = pb[0], int(g[6]), int(g[7]), int(g[8]), int(g[9])
        r.stale_pbit = None
        if r.pdone:
            # the FINISH branch of do_parse adjusts parser_bs.live/.offset but not .pos
            r.stale_pbit = pb[0]
            r.pbit = 32 * r.poffs - r.plive
        elif pb[1] != 0 or 32 * r.poffs - r.plive != r.pbit:
            r.anom.append("parser_bs: pos/offset/live inconsistent")
        r.inq = [tuple(int(x) for x in f.split("/")) for f in g[10].split(",") if f]
        r.scan = []
        for f in g[11].split(","):
            if f:
                p, o = f.split("/")
                q = pp(p)
                r.scan.append((q[0], int(o)))
        r.retr = []
        for f in g[12].split(","):
            if f:
                b, c, o, fl = f.split("/")
                bq, cq = pp(b), pp(c)
                if bq[1] or cq[1]:
                    r.anom.append("retr job with non-zero sub position")
                r.retr.append((bq[0], cq[0], int(o), fl))
        r.emit = []
        for f in g[13].split(","):
            if f:
                b, s = f.split("/")
                r.emit.append((pp(b), int(s)))
        r.reord = []
        for f in g[14].split(","):
            if f:
                b, s, z = f.split("/")
                r.reord.append((pp(b), int(s), int(z)))
        r.order = [pp(f) for f in g[15].split(",") if f]
        r.unord = []
        for f in g[16].split(","):
            if f:
                b, c, o = f.split("/")
                r.unord.append((pp(b)[0], int(c), int(o)))
        r.caps = g[17]
        r.k, r.task, r.t = g[18], g[19], int(g[20])
        r.eof, r.wu, r.os, r.tos, r.nw = int(g[21]), int(g[22]), int(g[23]), int(g[24]), int(g[25])
        recs.append(r)
    return recs, problems


def msdiff(a, b):
    """multiset difference a - b"""
    b = list(b)
    out = []
    for x in a:
        if x in b:
            b.remove(x)
        else:
            out.append(x)
    return out


def derive(recs):
    """Consecutive trace records -> driver command lines.  Each state-changing line is
    `alt1 | alt2 ... || expected-observation`; checks are plain."""
    if not recs:
        return []
    r0 = recs[0]
    caps = [int(x) for x in r0.caps.split(",")]
    cmds = ["I %d %d %d 0" % (r0.nw, caps[0], r0.tos), "CAPS || " + r0.caps]
    # the first record must show the initial state (possibly already after reader events): start from model init and
    # explain the first record like any other, with a synthetic predecessor
    init = Rec()
    init.head = init.tail = 0
    init.ptok, init.pdone, init.pbit, init.poffs, init.plive, init.roffs, init.eofm = 1, 0, 0, 0, 0, 0, 0
    init.inq, init.scan, init.retr, init.emit, init.reord, init.order, init.unord = [], [], [], [], [], [], []
    init.eof, init.wu, init.os, init.tos, init.nw = 0, r0.nw, r0.tos, r0.tos, r0.nw
    init.k, init.task, init.t, init.caps, init.anom, init.stale_pbit = "U", None, -1, r0.caps, [], None
    pending = {}
    cont = {}
    # look-ahead: end bit of a speculative block = parser position right after the parser adopted it
    endbit = {}
    prev = init
    for idx, r in enumerate(recs):
        if r.k in "UR" and len(r.order) == len(prev.order) + 1:
            nb = r.order[-1][0] if r.order else None
            if nb is not None and any(u[0] == nb and u[1] == 1 for u in prev.unord) and not any(u[0] == nb for u in r.unord):
                endbit[nb] = r.pbit
        prev = r
    prev = init
    last_base = 0           # the model's ghost x_next: base of the block confirmed last (0 initially)
    nxt_of_thread = {}
    last = {}
    for idx in range(len(recs) - 1, -1, -1):
        nxt_of_thread[idx] = last.get(recs[idx].t)
        last[recs[idx].t] = idx
    for idx, r in enumerate(recs):
        exp = r.obs()
        for a in r.anom:
            cmds.append("ANOM " + a)
        t = r.t
        if r.k == "S":
            cmds.append("CS %s || %s" % (r.task, exp))
            pending[t] = r.task
        elif r.k == "W":
            cmds.append("CW || " + exp)
        elif r.k == "X":
            cmds.append("CX || " + exp)
        elif t in pending:
            task = pending.pop(t)
            if task == "parse":
                cmds.append("P0 %d || %s" % (t, exp))
                cont[t] = ("parse",)
            elif task == "retrieve":
                rem = msdiff(prev.retr, r.retr)
                if len(rem) != 1:
                    cmds.append("DERIVE retrieve seg 0: %d jobs left retr_q || %s" % (len(rem), exp))
                    return cmds
                j = rem[0]
                cmds.append("R0 %d %d %d %d || %s" % (t, j[0], j[1], j[2], exp))
                cont[t] = ("retr", j)
            elif task == "emit":
                rem = msdiff(prev.emit, r.emit)
                cmds.append("E0 %d || %s" % (t, exp))
                cont[t] = ("emit", rem[0] if rem else None)
            elif task == "reorder":
                cmds.append("RO %d || %s" % (t, exp))
            elif task == "scan":
                cmds.append("S0 %d || %s" % (t, exp))
                cont[t] = ("scan",)
        elif t in cont:
            c = cont.pop(t)
            if c[0] == "parse":
                if r.pdone and not prev.pdone:
                    g = r.stale_pbit - r.pbit
                    cmds.append("P1 %d F %d %d %d | P1 %d F %d %d %d || %s" % (
                        t, r.stale_pbit, r.poffs, g, t, r.stale_pbit, r.poffs + 1, g, exp))
                elif len(r.order) > len(prev.order):
                    b = r.order[-1][0]
                    # hypothesis [ev_prog] of the ownership/liveness theorems (SchedX/XOwn.v: preach): a confirmed block starts
                    # >= 32 bits after the block confirmed before it (a header is 80 bits; the last parse() call of a header
                    # that straddles input blocks may consume fewer than 32 bits, so the reference is the previous base)
                    if last_base is not None and b < last_base + 32:
                        cmds.append("ANOM parse OK at bit %d, less than 32 bits after the block confirmed before it (bit %d): "
                                    "hypothesis ev_prog of C11x_capacity/C11x_progress violated" % (b, last_base))
                    last_base = b
                    cmds.append("P1 %d K %d %d 9 0 || %s" % (t, b, (b + 31) // 32, exp))
                else:
                    cmds.append("P1 %d M %d %d || %s" % (t, r.pbit, r.poffs, exp))
            elif c[0] == "retr":
                j = c[1]
                added = [x for x in msdiff(r.retr, prev.retr) if x[0] == j[0]]
                ni = nxt_of_thread.get(idx)
                if added:
                    a = added[0]
                    cmds.append("R1 %d 1 %d %d || %s" % (t, a[1], a[2], exp))
                elif r.k == "U":
                    rv = 0          # unknown if the process died before the task returned
                    if ni is not None:
                        ne = [e for e in msdiff(recs[ni].emit, r.emit) if e[0] == (j[0], 0)]
                        rv = ne[0][1] if ne else 0
                    alts = ["R1 %d %d %d %d" % (t, rv, r.pbit, r.poffs)]
                    for u in r.unord:
                        if u[0] == j[0] and u[1] == 1:
                            eb = endbit.get(j[0], 32 * u[2])
                            alts.append("R1 %d %d %d %d" % (t, rv, eb, u[2]))
                            alts.append("R1 %d %d %d %d" % (t, rv, 32 * u[2], u[2]))
                    cmds.append(" | ".join(alts) + " || " + exp)
                    cont[t] = ("retr2",)
                else:
                    alts = ["R1 %d 0 %d %d" % (t, j[1], j[2]), "R1 %d 1 -1 -1" % t]
                    for u in r.unord:
                        if u[0] == j[0]:
                            alts.append("R1 %d 1 %d %d" % (t, 32 * u[2], u[2]))
                    cmds.append(" | ".join(alts) + " || " + exp)
            elif c[0] == "retr2":
                cmds.append("R2 %d || %s" % (t, exp))
            elif c[0] == "emit":
                add = msdiff(r.reord, prev.reord)
                if len(add) != 1:
                    cmds.append("DERIVE emit seg 1: %d new out blocks || %s" % (len(add), exp))
                    return cmds
                o = add[0]
                cmds.append("E1 %d %d %d 0 0 || %s" % (t, o[1], o[2], exp))
            elif c[0] == "scan":
                newj = [x for x in msdiff(r.retr, prev.retr) if x[3] == "s"]
                news = msdiff(r.scan, prev.scan)
                if newj:
                    cmds.append("S1 %d 1 %d %d || %s" % (t, newj[0][1], newj[0][2], exp))
                elif news:
                    cmds.append("S1 %d 1 %d %d || %s" % (t, news[0][0], news[0][1], exp))
                else:
                    cmds.append("S1 %d 0 0 0 || %s" % (t, exp))
        else:
            if r.tail != prev.tail:
                cmds.append("IN %d %d || %s" % (r.tail - prev.tail, r.eofm, exp))
            elif r.eof != prev.eof:
                cmds.append("EOF || " + exp)
            elif r.os == prev.os + 1:
                cmds.append("WR || " + exp)
            else:
                cmds.append("IN 1 0 || " + exp)
        prev = r
    return cmds


# ---------------------------------------------------------------------------
# replay of real runs through the extracted model
# ---------------------------------------------------------------------------
def build_replayer():
    return vlib.build_ocaml("schedx_replay", os.path.join(vlib.COQ, "Extract", "ml"), ["schedx_model"], "schedx_driver.ml")


class RunSpec:
    def __init__(self, crafted, n, seed, ig, og, flavor="dbg"):
        self.c, self.n, self.seed, self.ig, self.og, self.flavor = crafted, n, seed, ig, og, flavor

    def desc(self):
        return "%s n=%d seed=%s ig=%s og=%s %s" % (self.c.name, self.n, self.seed, self.ig, self.og, self.flavor)


def traced_run(spec, workdir, timeout=25):
    """Run `lbzip2 -dc -n<n>` on the crafted input with hooks; returns dict."""
    exe = vlib.build_lbzip2(spec.flavor)
    os.makedirs(workdir, exist_ok=True)
    tf = tempfile.NamedTemporaryFile(dir=workdir, prefix="trace", suffix=".txt", delete=False)
    tf.close()
    env = hook_env(seed=spec.seed, ig=spec.ig, og=spec.og, trace=tf.name)
    rc, out, err = run_lbzip2(exe, spec.c.data, ["-dc", "-n%d" % spec.n], env=env, timeout=timeout)
    try:
        with open(tf.name, encoding="latin-1") as f:
            text = f.read()
    finally:
        os.unlink(tf.name)
    return {"rc": rc, "out": out, "err": err.decode("latin-1"), "trace": text}


def replay_runs(specs, workdir, jobs=None):
    """Run every spec, replay its trace; returns list of result dicts:
    spec, rc, out, err, nrec, nsteps, ok, mismatch (first), final (model final-state line), concurrency."""
    from concurrent.futures import ThreadPoolExecutor
    drv = build_replayer()
    for fl in set(s.flavor for s in specs):
        vlib.build_lbzip2(fl)
    with ThreadPoolExecutor(max_workers=jobs or max(2, vlib.NCPU // 2)) as ex:
        runs = list(ex.map(lambda s: traced_run(s, workdir), specs))
    results = []
    allcmds = []
    spans = []
    for spec, r in zip(specs, runs):
        recs, probs = parse_trace(r["trace"], spec.ig if spec.ig else 256 * 1024)
        cmds = derive(recs) if recs else []
        if r["rc"] == 0:
            cmds.append("CF")
        spans.append((len(allcmds), len(allcmds) + len(cmds)))
        allcmds += cmds
        conc = 0
        for rec in recs:
            conc = max(conc, rec.nw - rec.wu)
        results.append({"spec": spec, "rc": r["rc"], "out": r["out"], "err": r["err"], "nrec": len(recs),
                        "problems": probs, "maxbusy": conc,
                        "spurious": sum(1 for rec in recs if rec.unord) > 0,
                        "maxunord": max([len(rec.unord) for rec in recs] or [0])})
    rc, out, err = vlib.sh([drv], input=("\n".join(allcmds) + "\n").encode(), timeout=1200)
    lines = out.split("\n")
    for res, (a, b) in zip(results, spans):
        seg = lines[a:b]
        res["ok"] = True
        res["mismatch"] = None
        res["final"] = None
        res["nsteps"] = sum(1 for l in seg if l.startswith("OK"))
        if len(seg) < b - a:
            res["ok"] = False
            res["mismatch"] = "replayer produced no answer (crash?): " + err[-300:]
        for l in seg:
            if l.startswith("MISMATCH") or l.startswith("BADLINE"):
                res["ok"] = False
                res["mismatch"] = l[:1500]
                break
            if l.startswith("FINAL"):
                res["final"] = l
                if not l.startswith("FINAL 1"):
                    res["ok"] = False
                    res["mismatch"] = "model is not in a final state after a complete run: " + l[:600]
        if res["problems"]:
            res["ok"] = False
            res["mismatch"] = res["problems"][0]
    return results


# ---------------------------------------------------------------------------
# building blocks of the checks C10 / C09 / C11x / C13x
# ---------------------------------------------------------------------------
GRANULES = [4, 8, 12, 16, 20, 24, 28, 32, 36, 40, 44, 48, 52, 56, 60, 64, 4096]
F4_TEXT = "Assertion `bs.offset >= head_offs' failed"


def make_specs(rng, count, kinds=None, flavors=("dbg", "rel"), corpus=()):
    specs = []
    for c in corpus:
        specs.append(RunSpec(c, rng.range(2, 8), rng.below(100000), rng.choice([16, 64]), rng.choice([7, 300]), "dbg"))
    while len(specs) < count:
        c = gen_crafted(rng, kind=rng.choice(kinds) if kinds else None)
        specs.append(RunSpec(c, rng.range(1, 8), rng.below(100000), rng.choice(GRANULES),
                             rng.choice([1, 7, 100, 300, 5000]), rng.choice(list(flavors))))
    return specs


def classify_crash(rc, err):
    """None if the exit is a normal 0/1; otherwise a short description."""
    if rc in (0, 1):
        return None
    if F4_TEXT in err:
        return "F4: assert in can_attach (stale retrieve job below head_offs)"
    if "AddressSanitizer" in err:
        m = re.search(r"AddressSanitizer: ([\w-]+)", err)
        return "sanitizer: " + (m.group(1) if m else "error")
    if rc == 124:
        return "timeout (possible deadlock)"
    if rc < 0:
        return "killed by signal %d" % (-rc)
    return "exit status %d" % rc


def correspond_replay(check, count, kinds=None, corpus=()):
    """Tie (b): every consecutive pair of trace records of real runs must be a model
    step, final-state conditions after complete runs.  Returns the coverage dict
    and appends Broken entries to check.broken."""
    specs = make_specs(check.rng, count, kinds=kinds, corpus=corpus)
    work = os.path.join(check.work, "traces")
    res = replay_runs(specs, work)
    hist = {}
    nontriv = set()
    steps = 0
    bad = 0
    samples = []
    for r in res:
        k = "%s/rc=%s" % (r["spec"].c.note.split("@")[0], r["rc"] if r["rc"] in (0, 1) else "crash")
        hist[k] = hist.get(k, 0) + 1
        steps += r["nsteps"]
        if r["maxbusy"] >= 2:
            nontriv.add(r["spec"].desc())
        if not r["ok"]:
            bad += 1
            if bad <= 4:
                check.broken.append(Broken("correspondence", "trace of `lbzip2 -d` is not a run of the SchedX model: " + r["spec"].desc(),
                                           (r["mismatch"] or "")[:1800]))
                path = vlib.write_replay(check.pid, "trace_mismatch_%d.json" % bad, {
                    "input_hex": r["spec"].c.data.hex(), "n": r["spec"].n, "seed": r["spec"].seed, "in_granul": r["spec"].ig,
                    "out_granul": r["spec"].og, "flavor": r["spec"].flavor, "mismatch": r["mismatch"]})
        if len(samples) < 4:
            samples.append({"run": r["spec"].desc(), "records": r["nrec"], "events": r["nsteps"], "rc": r["rc"]})
    check.replay_results = res
    return {"evaluations": len(res), "distinct_nontrivial": len(nontriv), "trace_events_checked": steps,
            "rule": "runs of the real binary (asserts-on and NDEBUG builds) under hooks H1/H2/H3 on crafted inputs; every "
                    "consecutive pair of trace records must be a step of the extracted model with the guards/task order/"
                    "capacities regenerated from the source; non-trivial = distinct runs in which at least two work units "
                    "were held simultaneously",
            "samples": samples, "histogram": hist, "mismatching_runs": bad,
            "runs_with_speculative_candidates": sum(1 for r in res if r["spurious"])}


def reference_run(data, timeout=120):
    """`lbzip2 -dc -n1` with the shipped granules, no hooks active."""
    exe = vlib.build_lbzip2("rel")
    return run_lbzip2(exe, data, ["-dc", "-n1"], timeout=timeout)


def is_prefix(a, b):
    return len(a) <= len(b) and b[:len(a)] == a


def hunt_f4(check, tries=160):
    """Concrete replay of finding F4 on the real binary: the valid file of
    notes/design-experiments/craft4.py, 64-byte input blocks (hook H2), eight workers."""
    from concurrent.futures import ThreadPoolExecutor
    c = craft_f4()
    out = []
    for flavor, want in (("dbg", "abort"), ("asan", "uaf")):
        try:
            exe = vlib.build_lbzip2(flavor)
        except vlib.BuildError:
            continue

        def one(i):
            env = hook_env(seed=None if i % 2 == 0 else i, ig=64)
            env["ASAN_OPTIONS"] = "detect_leaks=0"
            rc, o, e = run_lbzip2(exe, c.data, ["-dc", "-n8"], env=env, timeout=30)
            return i, rc, o, e.decode("latin-1")
        hit = None
        hung = 0
        n = tries if flavor == "dbg" else tries // 4
        with ThreadPoolExecutor(max_workers=max(2, vlib.NCPU // 2)) as ex:
            for start in range(0, n, 16):
                for i, rc, o, e in ex.map(one, range(start, min(n, start + 16))):
                    if rc == 124:
                        hung += 1
                    elif classify_crash(rc, e) and hit is None:
                        hit = (i, rc, e)
                if hit or hung >= 3:
                    break
        if hung >= 3 and not hit:
            out.append(Violation("deadlock-or-timeout:" + flavor,
                                 "valid input, `LBZIP2_VERIF_IN_GRANUL=64 lbzip2-%s -dc -n8` does not terminate within 30 s (%d runs)" % (flavor, hung),
                                 {"input_hex": c.data.hex(), "n": 8, "in_granul": 64, "flavor": flavor, "kind": "run"}))
            break
        if hit:
            i, rc, e = hit
            out.append(Violation(
                "F4-stale-retrieve-job:" + flavor,
                "valid input, `LBZIP2_VERIF_IN_GRANUL=64 lbzip2-%s -dc -n8`: %s (the speculative retrieve job is re-queued below head_offs, "
                "expand.c do_retrieve on MORE)" % (flavor, classify_crash(rc, e)),
                {"input_hex": c.data.hex(), "expected_output_sha256": hashlib.sha256(c.plain).hexdigest(),
                 "cmd": "LBZIP2_VERIF_IN_GRANUL=64 %s.work/bin/lbzip2-%s -dc -n8 < input  (repeat; about one run in three fails)" % ("", flavor),
                 "env": {"LBZIP2_VERIF_IN_GRANUL": "64", "LBZIP2_VERIF_SCHED": None if i % 2 == 0 else str(i)}, "n": 8,
                 "flavor": flavor, "rc": rc, "stderr": e[-1500:], "kind": "f4"}))
    return out


def model_exhibits(name):
    """Compile notes/<name>_before_fix.v (a refutation theorem with its witness event list,
    kept outside coq/ because it compiles only against the unrepaired source) against the
    regenerated Gen/ of the current tree.  True = the model of the CURRENT source exhibits
    the finding."""
    src = os.path.join(vlib.VERIF, "notes", name + "_before_fix.v")
    d = os.path.join(vlib.WORK, "refute")
    os.makedirs(d, exist_ok=True)
    dst = os.path.join(d, name + ".v")
    with open(src) as f, open(dst, "w") as g:
        g.write(f.read())
    with vlib.Lock("coq"):
        b = vlib.coq_build(["SchedX/XF4.vo", "SchedX/XModel.vo"], timeout=900)
        if not b["ok"]:
            return False
        rc, out, err = vlib.sh(["timeout", "600", "coqc", "-Q", vlib.COQ, "LBZ", dst], cwd=d, timeout=660)
    return rc == 0


def model_exhibits_f4():
    return model_exhibits("XF4Refuted")


# ---------------------------------------------------------------------------
# heap accounting (finding F3, C13x)
# ---------------------------------------------------------------------------
def build_heapcount():
    src = os.path.join(vlib.VERIF, "harness", "schedx_heapcount.c")
    so = os.path.join(vlib.WORK, "bin", "schedx_heapcount.so")
    os.makedirs(os.path.dirname(so), exist_ok=True)
    dig = hashlib.sha256(open(src, "rb").read()).hexdigest()[:16]
    stamp = so + ".stamp"
    if os.path.exists(so) and os.path.exists(stamp) and open(stamp).read() == dig:
        return so
    with vlib.Lock("build-schedx-heapcount"):
        rc, out, err = vlib.sh(["gcc", "-O2", "-shared", "-fPIC", "-o", so + ".tmp", src, "-ldl"], timeout=120)
        if rc != 0:
            raise vlib.BuildError("schedx_heapcount.so does not compile:\n" + (out + err)[-2000:])
        os.replace(so + ".tmp", so)
        with open(stamp, "w") as f:
            f.write(dig)
    return so


def many_candidates(rng, k, post):
    """A valid stream of k small blocks, each with a fake block header followed by
    `post` zero selectors (a candidate that is overtaken by the parser)."""
    w = BW()
    w.put(24, 0x425A68)
    w.put(8, 0x39)
    comb = 0
    plain = b""
    for _ in range(k):
        ch = rand_text(rng, 60)
        toks = [[0]] * 20 + tokenize(fake_header_bits(), 6) + [[0]] * post
        c = put_block(w, ch, nt=6, extra_tokens=toks)
        comb = (((comb << 1) | (comb >> 31)) & 0xFFFFFFFF) ^ c
        plain += ch
    w.put(24, 0x177245)
    w.put(24, 0x385090)
    w.put(32, comb)
    w.align()
    return Crafted("many-%d-%d" % (k, post), w.bytes(), plain, True, "many")


def heap_run(exe, c, n, seed, ig, workdir, klass=72):
    so = build_heapcount()
    os.makedirs(workdir, exist_ok=True)
    tf = tempfile.NamedTemporaryFile(dir=workdir, prefix="heap", suffix=".log", delete=False)
    tf.close()
    env = hook_env(seed=seed, ig=ig)
    env.update({"LD_PRELOAD": so, "SCHEDX_HEAP_LOG": tf.name, "SCHEDX_HEAP_CLASS": str(klass)})
    rc, out, err = run_lbzip2(exe, c.data, ["-dc", "-n%d" % n], env=env, timeout=120)
    try:
        txt = open(tf.name).read()
    finally:
        os.unlink(tf.name)
    m = re.search(r"HEAP live=(\d+) peak=(\d+) class_live=(-?\d+) class_total=(\d+)", txt)
    return rc, out, err.decode("latin-1"), (tuple(int(x) for x in m.groups()) if m else None)


def hunt_f3(check, runs=40):
    """Finding F3: unord_blk records (72 bytes) of dropped speculative jobs are never freed."""
    from concurrent.futures import ThreadPoolExecutor
    exe = vlib.build_lbzip2("rel")
    work = os.path.join(check.work, "heap")
    out = []
    worst = None
    for k, post in ((8, 400), (24, 1500)):
        c = many_candidates(check.rng, k, post)
        with ThreadPoolExecutor(max_workers=max(2, vlib.NCPU // 2)) as ex:
            res = list(ex.map(lambda s: heap_run(exe, c, 8, s, 64, work), range(runs)))
        for rc, o, e, h in res:
            if rc == 0 and h and h[2] > 0 and (worst is None or h[2] > worst[0]):
                worst = (h[2], c, k, post)
    if worst:
        n, c, k, post = worst
        out.append(Violation("F3-unord-blk-leak",
                             "valid input with %d overtaken candidates: %d unord_blk records (72 bytes each) still allocated at exit "
                             "(`LBZIP2_VERIF_IN_GRANUL=64 lbzip2 -dc -n8`, malloc-counting LD_PRELOAD); the count grows with the number of candidates" % (k, n),
                             {"input_hex": c.data.hex(), "n": 8, "in_granul": 64, "flavor": "rel", "kind": "f3", "leaked_blocks": n}))
    return out



# ---------------------------------------------------------------------------
# finding F8: deadlock with many spurious candidates (rejected candidate at the minimum
# of emit_q while out_slots <= EMIT_THRESH)
# ---------------------------------------------------------------------------
def gen_magic_bitmaps(rng, nstreams=2000):
    """Valid concatenated streams whose symbol bitmaps contain the 48-bit block magic
    (rows 0x3141 0x5926 0x5359): one spurious candidate per block."""
    import bz2
    rows = [0x3141, 0x5926, 0x5359]
    alpha = []
    for r, row in enumerate(rows):
        for b in range(16):
            if row & (0x8000 >> b):
                alpha.append(0x40 + 16 * r + b)
    comp = bytearray()
    plain = bytearray()
    for _ in range(nstreams):
        n = rng.range(40, 400)
        d = bytes(alpha) + bytes(rng.choice(alpha) for _ in range(n))
        comp += bz2.compress(d, 9)
        plain += d
    return Crafted("magicmap-%d" % nstreams, bytes(comp), bytes(plain), True, "magicmap")


def hunt_deadlock(check, attempts=8, nstreams=2000):
    """Bounded attempts to observe the hang; absence is not an error."""
    from concurrent.futures import ThreadPoolExecutor
    exe = vlib.build_lbzip2("rel")
    c = gen_magic_bitmaps(check.rng, nstreams)

    def one(i):
        rc, o, e = run_lbzip2(exe, c.data, ["-dc", "-n%d" % [4, 8, 3, 16][i % 4]], timeout=25)
        return i, rc, o
    with ThreadPoolExecutor(max_workers=max(2, vlib.NCPU // 2)) as ex:
        res = list(ex.map(one, range(attempts)))
    hung = [i for i, rc, o in res if rc == 124]
    wrong = [i for i, rc, o in res if rc != 124 and (rc != 0 or o != c.plain)]
    out = []
    if hung:
        out.append(Violation("c11x:deadlock-spurious-candidates",
                             "valid input (%d small streams whose symbol bitmaps contain the block magic): `lbzip2 -dc -n%d` does not "
                             "terminate (%d of %d runs hung for 25 s; model: notes/XF8Refuted_before_fix.v C11x_progress_refuted)"
                             % (nstreams, [4, 8, 3, 16][hung[0] % 4], len(hung), attempts),
                             {"input_hex": c.data.hex(), "n": [4, 8, 3, 16][hung[0] % 4], "flavor": "rel", "kind": "deadlock"}))
    if wrong:
        out.append(Violation("magicmap-wrong-result", "valid input with magics in the symbol bitmaps decoded wrongly",
                             {"input_hex": c.data.hex(), "kind": "run"}))
    return out


extra_targets = ["Extract/ExtractSchedX.vo"]
gen_files = ["SchedXTab.v"]
extra_props_c11 = ["Properties.Properties_C11x"]
extra_props_c13 = ["Properties.Properties_C13x"]


# ---------------------------------------------------------------------------
# entry points for C11 / C13 (decompression part)
# ---------------------------------------------------------------------------
def correspond_x(check):
    """Trace replay aimed at the scheduler itself: block counts 0..40, multi-buffer block
    outputs (tiny out_granul), spurious candidates, early EOF, failing blocks; n = 1..8."""
    n = 50 if check.tier == "quick" else 500
    corpus = [many_candidates(check.rng, 12, 300), craft_f4(50, 2000)]
    cov = correspond_replay(check, n, corpus=corpus,
                            kinds=["plain", "plain", "selzeros", "selbad", "garbage", "blkcrc", "trunc"])
    # final-state conditions of complete runs (C11x_final) and leak indicator of the model
    leaks = 0
    for r in getattr(check, "replay_results", []):
        f = r.get("final")
        if f:
            m = re.search(r"nrun=(\d+) nun=(\d+) nz=(\d+) ins=(\d+)", f)
            if m and (int(m.group(1)) or int(m.group(3))):
                check.broken.append(Broken("correspondence", "final state of the model has running tasks or zombie input blocks", f[:400]))
            if m and int(m.group(2)):
                leaks += 1
            if " order= " not in f or " retr= " not in f or " emit= " not in f or " reord= " not in f or " inq= " not in f:
                check.broken.append(Broken("correspondence", "queues not empty after a complete run", f[:400]))
    cov["runs_ending_with_unfreed_unord_blk_in_model"] = leaks
    return cov


def direct_x(check, leaks=False):
    """The scheduler properties on the binary: no deadlock (watchdog), hook assertions
    (queue capacities, counters), order (output equals the plain text), heap bound."""
    from concurrent.futures import ThreadPoolExecutor
    viols = []
    seen = set()
    for r in getattr(check, "replay_results", []):
        crash = classify_crash(r["rc"], r["err"])
        c = r["spec"].c
        key = None
        if crash:
            key = ("F4-stale-retrieve-job:%s" % r["spec"].flavor) if crash.startswith("F4") else "crash:" + crash.split(":")[0]
            what = crash
        elif c.valid and r["out"] != c.plain:
            key, what = "order-or-content", "output differs from the plain text (blocks out of order or lost)"
        if key and key not in seen:
            seen.add(key)
            viols.append(Violation(key, r["spec"].desc() + ": " + what, {
                "input_hex": c.data.hex(), "n": r["spec"].n, "seed": r["spec"].seed, "in_granul": r["spec"].ig,
                "out_granul": r["spec"].og, "flavor": r["spec"].flavor, "rc": r["rc"], "stderr": r["err"][-600:], "kind": "run"}))
    # C13x: peak live heap against the bound B(n) computed from the regenerated slot formulas
    exe = vlib.build_lbzip2("rel")
    work = os.path.join(check.work, "heap")
    big = many_candidates(check.rng, 40, 200)
    peaks = {}
    for n in (1, 2, 4, 8):
        rc, o, e, h = heap_run(exe, big, n, 1, None, work)
        if rc == 0 and h:
            peaks[n] = h[1]
            # 4n input blocks of 256 KiB, n decoders of ~3.6 MB + ~0.1 MB state, 16n output buffers of 900 kB (allocated lazily)
            bound = 4 * n * 262144 + n * (4 * 900000 + 200000) + 16 * n * (900000 + 64) + 2_000_000
            if h[1] > bound and "heap-bound" not in seen:
                seen.add("heap-bound")
                viols.append(Violation("heap-bound", "peak live heap %d bytes at n=%d exceeds B(n)=%d" % (h[1], n, bound),
                                       {"input_hex": big.data.hex(), "n": n, "kind": "heap"}))
    check.notes.append("direct_x: peak live heap by worker count (decompression): %s" % peaks)
    if leaks:
        viols += hunt_f3(check, runs=24 if check.tier == "quick" else 100)
    viols += hunt_deadlock(check, attempts=8 if check.tier == "quick" else 32)
    return viols


REFUTATIONS = (
    ("XF4Refuted", "the regenerated model reaches a retrieve job below head_offs and attaches outside the live input (finding F4)"),
    ("XF8Refuted", "the regenerated model exhibits the deadlock with a rejected candidate at the minimum of emit_q (finding F8: "
                   "C11x_progress_refuted)"),
    ("XF9Refuted", "the regenerated model exhibits the unord_q overflow (finding F9: C11x_unord_capacity_refuted, 32 overtaken "
                   "candidates in a queue of capacity 31; C13x_unord_count_refuted)"),
)


def model_refutations(check):
    """When a proof or the translator is broken: which of the recorded refutation witnesses (notes/*_before_fix.v)
    compile against the regenerated Gen/ of the current tree, i.e. which known defect the current source exhibits."""
    hits = []
    for name, what in REFUTATIONS:
        try:
            if model_exhibits(name):
                hits.append(name)
                check.notes.append("notes/%s_before_fix.v compiles against the regenerated Gen/: %s" % (name, what))
        except Exception as e:          # a refutation build must never mask the broken obligation
            check.notes.append("refutation build %s failed: %s" % (name, repr(e)[:200]))
    return hits


def search_x(check):
    if any(b.kind in ("proof", "translator") for b in check.broken):
        model_refutations(check)
    return hunt_f4(check, tries=120 if check.tier == "quick" else 400) + hunt_f3(check, runs=30 if check.tier == "quick" else 100)


# ---------------------------------------------------------------------------
# blocks made of 20-bit prefix codes (groups of exactly 1000 bits): every alignment of a
# group against an input block boundary occurs for small in_granul (C09: the retriever
# must suspend/resume identically wherever the boundary falls, fast and slow path)
# ---------------------------------------------------------------------------
def gen_long_codes(rng, n_hot=140, n_fill=3):
    used = list(range(0x61, 0x61 + 19))
    n = len(used) + 2
    M1, M2, EOB = 2, 3, n - 1
    len0 = [19, 18, 20, 20] + [21 - k for k in range(4, n)]
    len1 = [3, 4, 1, 2] + [k + 1 for k in range(4, n - 2)] + [20, 20]

    def canon2(lengths):
        order = sorted(range(len(lengths)), key=lambda s: (lengths[s], s))
        codes = [None] * len(lengths)
        code = 0
        prev = lengths[order[0]]
        for s in order:
            code <<= lengths[s] - prev
            prev = lengths[s]
            codes[s] = code
            code += 1
        return codes
    code0, code1 = canon2(len0), canon2(len1)
    syms = []
    sel = []
    for _ in range(n_fill):
        syms += [rng.choice((M1, M2)) for _ in range(50)]
        sel.append(1)
    for _ in range(n_hot):
        syms += [rng.choice((M1, M2)) for _ in range(50)]
        sel.append(0)
    syms += [rng.choice((M1, M2)) for _ in range(7)] + [EOB]
    sel.append(0)

    def simulate(bwt_idx):
        mtf = list(used)
        tt = []
        for s in syms:
            if s == EOB:
                break
            c = mtf.pop(s - 1)
            mtf.insert(0, c)
            tt.append(c)
        N = len(tt)
        cnt = [0] * 256
        for c in tt:
            cnt[c] += 1
        cum = 0
        ftab = []
        for c in range(256):
            ftab.append(cum)
            cum += cnt[c]
        T = list(tt)
        for i in range(N):
            uc = tt[i]
            T[ftab[uc]] += i << 8
            ftab[uc] += 1
        p = T[bwt_idx]
        pre = []
        for _ in range(N):
            p = T[p >> 8]
            pre.append(p & 0xff)
        out = bytearray()
        i = 0
        while i < N:
            c = pre[i]
            out.append(c)
            i += 1
            k = 1
            while k < 4 and i < N and pre[i] == c:
                out.append(c)
                i += 1
                k += 1
            if k == 4:
                if i >= N:
                    return None
                out += bytes([c]) * pre[i]
                i += 1
        return bytes(out)
    plain = None
    for bwt_idx in range(1, 200):
        plain = simulate(bwt_idx)
        if plain is not None:
            break
    if plain is None:
        return gen_crafted(rng, "plain")
    crc = crc32_bz(plain) ^ 0xFFFFFFFF
    w = BW()
    w.put(32, 0x425A6839)
    w.put(24, 0x314159)
    w.put(24, 0x265359)
    w.put(32, crc)
    w.put(1, 0)
    w.put(24, bwt_idx)
    big = 0
    small = {}
    for b in used:
        big |= 0x8000 >> (b >> 4)
        small[b >> 4] = small.get(b >> 4, 0) | (0x8000 >> (b & 15))
    w.put(16, big)
    for r in sorted(small):
        w.put(16, small[r])
    w.put(3, 2)
    w.put(15, len(sel))
    m = [0, 1]
    for s in sel:
        i = m.index(s)
        w.put(i + 1, (1 << (i + 1)) - 2)
        m.insert(0, m.pop(i))
    for L in (len0, len1):
        cur = L[0]
        w.put(5, cur)
        for l in L:
            while cur < l:
                w.put(2, 2)
                cur += 1
            while cur > l:
                w.put(2, 3)
                cur -= 1
            w.put(1, 0)
    for g in range(len(sel)):
        codes, L = (code0, len0) if sel[g] == 0 else (code1, len1)
        for s in syms[50 * g: 50 * g + 50]:
            w.put(L[s], codes[s])
    w.put(24, 0x177245)
    w.put(24, 0x385090)
    w.put(32, crc)
    data = w.bytes()
    return Crafted("long20-%s" % hashlib.sha256(data).hexdigest()[:10], data, plain, True, "long20")
