"""C10 - speculative block discovery never influences the output."""
import hashlib
import json
import os

import vlib
import schedx_part as sp
from runner import PropertyCheck, Broken, Violation


class Check(PropertyCheck):
    pid = "C10"
    props_module = "Properties.Properties_C10"
    extra_targets = ["Extract/ExtractSchedX.vo"]
    gen_files = ["SchedXTab.v", "Consts.v"]
    trusted_base = [
        "Coq 8.16.1 kernel (coqc); vm_compute only for the concrete witness/example runs; no native_compute; no axioms",
        "translator lib/gen_schedx.py: guards can_*(), can_attach, pos_eq/lt/le, task_list[] order, queue capacities, slot "
        "formulas and the presence of the `offset >= head_offs` tests at the three sites that put a job into retr_q/scan_q",
        "hand-written model of expand.c/process.c (SchedX/XModel.v: one event per locked segment); tied to the code by replaying "
        "scheduler traces (hook H3) of the real binary through the extracted model (ExtrOcamlBasic only)",
        "unlocked computations (parse, retrieve, decode/emit, scan) are oracles: their results are read off the trace in the "
        "replay and universally quantified in the theorems; that a result is a function of (stream, bit position) is assumed "
        "(codec purity, proved for the codec models elsewhere), not proved here",
        "POSIX threads: mutual exclusion of the scheduler mutex (events are atomic), condition variables as in Pool (SchedC)",
    ]
    assumptions = [
        "in_granul is a multiple of 4 (XPos.pos_iso); detached bit streams have 0 <= live < 64 and < 32 where the model demands "
        "it (checked on every replayed record)",
        "trace records do not show block CRCs/levels, garbage length is recovered from the stale position: the CRC/overflow "
        "failure branch of do_reorder is covered by the direct tests, not by replay",
    ]

    def correspond(self):
        n = 70 if self.tier == "quick" else 700
        corpus = [sp.craft_f4(200, 3000), sp.craft_f4(5, 30000)]
        return sp.correspond_replay(self, n, corpus=corpus,
                                    kinds=["selzeros", "selbad", "garbage", "plain", "blkcrc", "trunc", "magic", "strmcrc",
                                           "selzeros", "garbage"])

    def direct(self):
        """The property itself on the binary: output and exit status equal the sequential decoding
        (known plain text of the crafted input / `-n1` without hooks), for planted-pattern inputs."""
        viols = []
        res = getattr(self, "replay_results", [])
        refs = {}
        seen = set()
        for r in res:
            c = r["spec"].c
            if c.name not in refs:
                refs[c.name] = sp.reference_run(c.data)
            rrc, rout, rerr = refs[c.name]
            crash = sp.classify_crash(r["rc"], r["err"])
            key = None
            if crash:
                key = ("F4-stale-retrieve-job:%s" % r["spec"].flavor) if crash.startswith("F4") else "crash:" + crash.split(":")[0]
                what = crash
            elif c.valid and (r["rc"] != 0 or r["out"] != c.plain):
                key, what = "valid-input-not-decoded", "valid input: rc=%s, output %s the plain text" % (r["rc"], "equals" if r["out"] == c.plain else "differs from")
            elif not c.valid and r["rc"] == 0:
                key, what = "invalid-input-accepted", "invalid input accepted"
            elif r["rc"] != rrc:
                key, what = "status-differs-from-sequential", "exit status %s, sequential (-n1) gives %s" % (r["rc"], rrc)
            elif r["rc"] == 0 and r["out"] != rout:
                key, what = "output-differs-from-sequential", "output differs from the sequential (-n1) decoding"
            elif r["rc"] == 1 and c.plain is not None and not sp.is_prefix(r["out"], c.plain):
                key, what = "failing-output-not-a-prefix", "bytes written before the failure are not a prefix of the sequential output"
            if key and key not in seen:
                seen.add(key)
                viols.append(Violation(key, "%s: %s" % (r["spec"].desc(), what), {
                    "input_hex": c.data.hex(), "n": r["spec"].n, "seed": r["spec"].seed, "in_granul": r["spec"].ig,
                    "out_granul": r["spec"].og, "flavor": r["spec"].flavor, "rc": r["rc"], "stderr": r["err"][-800:],
                    "kind": "run"}))
        # thousands of small valid streams with one spurious block magic each (in the symbol bitmap): speculation is busy all the
        # time; the output must be the plain text for every worker count and schedule seed
        from concurrent.futures import ThreadPoolExecutor
        exe = vlib.build_lbzip2("rel")
        c = sp.gen_magic_bitmaps(self.rng, 600 if self.tier == "quick" else 3000)
        confs = [(n, sd) for n in (2, 3, 4, 8) for sd in ([None, self.rng.below(100000)] if self.tier == "quick" else
                                                          [None] + [self.rng.below(100000) for _ in range(5)])]

        def one(cf):
            n, sd = cf
            return sp.run_lbzip2(exe, c.data, ["-dc", "-n%d" % n], env=sp.hook_env(seed=sd), timeout=60)
        with ThreadPoolExecutor(max_workers=max(2, vlib.NCPU // 2)) as ex:
            outs = list(ex.map(one, confs))
        for (n, sd), (rc, out, err) in zip(confs, outs):
            if (rc != 0 or out != c.plain) and "spurious-candidates" not in seen:
                seen.add("spurious-candidates")
                viols.append(Violation("spurious-candidates-change-result",
                                       "valid input (%d bytes: small streams whose symbol bitmaps contain the block magic), `lbzip2 -dc -n%d` (H1 seed %s): "
                                       "rc=%s, output %s the sequential decoding%s" % (
                                           len(c.data), n, sd, rc, "equals" if out == c.plain else "differs from",
                                           (", stderr: " + (err.decode("latin-1") if isinstance(err, bytes) else str(err))[-200:]) if rc else ""),
                                       {"input_hex": c.data.hex(), "n": n, "seed": sd, "in_granul": None, "out_granul": None, "flavor": "rel",
                                        "rc": rc, "kind": "run"}))
        self.notes.append("direct: %d runs compared with the known plain text and with `-n1` (no hooks); %d runs on a "
                          "spurious-candidate stream file" % (len(res), len(confs)))
        return viols

    def search(self):
        out = []
        proof_broken = any(b.kind in ("proof", "translator") for b in self.broken)
        if proof_broken:
            try:
                if sp.model_exhibits_f4():
                    self.notes.append("notes/XF4Refuted_before_fix.v compiles against the regenerated Gen/: the regenerated model reaches a state with a retrieve job below "
                                      "head_offs (SchedX_retr_inv_refuted) and attaches outside the live input (SchedX_bad_attach_reachable)")
            except Exception as e:
                self.notes.append("refutation build failed: %s" % e)
        out += sp.hunt_f4(self, tries=160 if self.tier == "quick" else 600)
        return out

    def replay(self, path):
        p = json.load(open(path))
        data = bytes.fromhex(p["input_hex"]) if "input_hex" in p else None
        if data is None:
            print("replay file names no input:", json.dumps(p.get("broken"), indent=1)[:3000])
            return 1
        flavor = p.get("flavor", "dbg")
        exe = vlib.build_lbzip2(flavor)
        n = p.get("n", 8)
        tries = 200 if p.get("kind") == "f4" else 20
        ref = sp.reference_run(data)
        bad = 0
        for i in range(tries):
            env = sp.hook_env(seed=p.get("seed") if p.get("kind") != "f4" else (None if i % 2 == 0 else i),
                              ig=p.get("in_granul", 64 if p.get("kind") == "f4" else None), og=p.get("out_granul"))
            env["ASAN_OPTIONS"] = "detect_leaks=0"
            rc, out, err = sp.run_lbzip2(exe, data, ["-dc", "-n%d" % n], env=env, timeout=120)
            if sp.classify_crash(rc, err.decode("latin-1")) or rc != ref[0] or (rc == 0 and out != ref[1]):
                bad += 1
                print("run %d: rc=%s %s" % (i, rc, err.decode("latin-1")[-300:].strip()))
                break
        print("replayed %s: %s" % (path, "property violated" if bad else "no violation in %d runs" % tries))
        return 1 if bad else 0
