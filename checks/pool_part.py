"""C11 helper - the queue primitives (deque / pqueue macros of src/process.h, up_heap/down_heap of src/process.c).

correspond(check): runs the REAL macros and heap functions (harness/pool_h.c: #includes main.c with main renamed,
includes process.h and links the whole program, so up_heap/down_heap are the ones of process.c; built once with
asserts only and once with ASan+UBSan) and the extracted Gallina model (coq/Safe/PoolModel.v interpreting the
regenerated coq/Gen/PoolTab.v -> Extract/ml/pool_model.ml, needs the target Extract/ExtractPool.vo) on the same
operation sequences and compares, after EVERY operation,
  * deque: the value returned (shift/pop/dq_get/size/empty) and the members head and size,
  * heap:  the value returned (dequeue/peek/size/empty), size and the ids of root[0..size-1] in ARRAY order
           (so the exact heap layout, not only the multiset).
Sequences only contain operations whose documented precondition holds (non-full / non-empty / index < size);
they are biased to small capacities (1..8), to filling the structure completely, to rotating the ring so that the
head crosses 0 in both directions many times, and to equal keys in the heap.
"""
import os

import vlib
from runner import Broken, Violation


def build_harness(flavor):
    src = [os.path.join(vlib.REPO, "src", f) for f in vlib.SRC_FILES if f != "main.c"]
    return vlib.build_c("pool_h-" + flavor, ["pool_h.c"] + src, libs=["-lpthread"], flavor=flavor)


def build_model():
    return vlib.build_ocaml("pool_model", os.path.join(vlib.COQ, "Extract", "ml"), ["pool_model"], "pool_driver.ml")


# ---------------------------------------------------------------------------
# generators
# ---------------------------------------------------------------------------
def gen_cap(r):
    return r.choice([1, 1, 2, 2, 3, 3, 3, 4, 4, 5, 6, 7, 8, 8, r.range(1, 8), r.range(9, 40)])


def gen_deque(r):
    """Returns (line, stats): stats = (wraps of head through 0 upwards, downwards, times full)."""
    cap = gen_cap(r)
    n_ops = r.choice([8, 20, 40, 80, 150])
    size, head = 0, 0
    ops = []
    up = down = full = 0
    nextv = r.range(1, 1000)
    phase, left = "mix", 0
    while len(ops) < n_ops:
        if left == 0:
            phase = r.choice(["fill", "drain", "rotate", "rotate_back", "front", "mix", "mix"])
            left = r.range(1, 2 * cap + 2)
        left -= 1
        if phase == "fill":
            cand = ["p", "p", "u"] if size < cap else ["g", "z"]
        elif phase == "drain":
            cand = ["s", "s", "o"] if size > 0 else ["e", "z"]
        elif phase == "rotate":          # head moves up: push then shift
            cand = ["p"] if size == 0 or (size < cap and r.chance(1, 2)) else ["s"]
        elif phase == "rotate_back":     # head moves down: unshift then pop
            cand = ["u"] if size == 0 or (size < cap and r.chance(1, 2)) else ["o"]
        elif phase == "front":           # shift immediately followed by unshift (do_reorder puts the head back)
            cand = ["s", "u"] if 0 < size < cap else (["u"] if size == 0 else ["s"])
        else:
            cand = ["p", "u", "s", "o", "g", "g", "t", "z", "e"]
        op = r.choice(cand)
        if op in ("p", "u") and size >= cap:
            op = r.choice(["s", "o", "g"])
        if op in ("s", "o", "g", "t") and size == 0:
            op = r.choice(["p", "u"])
        if op == "p":
            ops.append("p%d" % nextv)
            nextv += 1
            size += 1
        elif op == "u":
            ops.append("u%d" % nextv)
            nextv += 1
            size += 1
            if head == 0:
                down += 1
            head = (head - 1) % cap
        elif op == "s":
            ops.append("s")
            size -= 1
            if head == cap - 1:
                up += 1
            head = (head + 1) % cap
        elif op == "o":
            ops.append("o")
            size -= 1
        elif op == "g":
            ops.append("g%d" % r.below(size))
        elif op == "t":
            ops.append("t%d:%d" % (r.below(size), nextv))
            nextv += 1
        else:
            ops.append(op)
        if size == cap:
            full += 1
    return "D %d %s" % (cap, " ".join(ops)), (cap, up, down, full)


def gen_key(r, style):
    if style == "ties":
        return r.below(3), r.below(2)
    if style == "major":
        return r.below(50), 0
    if style == "minor":
        return 7, r.below(50)
    if style == "big":
        return r.choice([0, 1, (1 << 64) - 1, (1 << 63), (1 << 32), r.below(1 << 64)]), \
            r.choice([0, (1 << 64) - 1, (1 << 32) - 1, (1 << 32), r.below(1 << 64)])
    return r.below(6), r.below(6)


def gen_heap(r):
    cap = gen_cap(r)
    n_ops = r.choice([8, 20, 40, 80, 150])
    style = r.choice(["ties", "major", "minor", "big", "mixed", "mixed", "asc", "desc"])
    size = 0
    ops = []
    full = 0
    nid = 1
    ctr = r.range(0, 100) if style != "desc" else 100000
    phase, left = "mix", 0
    while len(ops) < n_ops:
        if left == 0:
            phase = r.choice(["fill", "drain", "mix", "mix", "churn"])
            left = r.range(1, 2 * cap + 2)
        left -= 1
        if phase == "fill":
            op = "q" if size < cap else r.choice(["k", "z"])
        elif phase == "drain":
            op = "d" if size > 0 else r.choice(["e", "z"])
        elif phase == "churn":           # full or nearly full: dequeue one, enqueue one
            op = "q" if size < cap and (size == 0 or r.chance(1, 2)) else "d"
        else:
            op = r.choice(["q", "q", "d", "k", "z", "e"])
        if op == "q" and size >= cap:
            op = "d"
        if op in ("d", "k") and size == 0:
            op = "q"
        if op == "q":
            if style == "asc":
                ctr += r.below(2)
                ma, mi = ctr, 0
            elif style == "desc":
                ctr -= r.below(2)
                ma, mi = ctr, 0
            else:
                ma, mi = gen_key(r, style)
            ops.append("q%d.%d.%d" % (ma, mi, nid))
            nid += 1
            size += 1
        elif op == "d":
            ops.append("d")
            size -= 1
        else:
            ops.append(op)
        if size == cap:
            full += 1
    return "H %d %s" % (cap, " ".join(ops)), (cap, style, full)


FIXED = [
    "D 1 p5 s u6 o p7 g0 z e s e",
    "D 3 p10 p11 u9 s p12 s u8 g2 o",                     # the run of Properties_C11pool.C11_deque_wrap_run
    "D 3 u1 u2 u3 s s s u4 s u5 s u6 s",                  # unshift at head 0, 2, 1, ...
    "D 2 u1 s u2 s u3 s u4 s",
    "D 4 p1 p2 p3 p4 s s s s p5 p6 p7 p8 g0 g3 t0:9 t3:8 o o o o",
    "H 1 q5.0.1 k d q4.0.2 d e",
    "H 4 q5.0.1 q3.7.2 q3.2.3 q5.0.4 k d d",              # Properties_C11pool.C11_pqueue_run
    "H 7 q7.0.1 q6.0.2 q5.0.3 q4.0.4 q3.0.5 q2.0.6 q1.0.7 d d d d d d d",
    "H 7 q1.0.1 q1.0.2 q1.0.3 q1.0.4 q1.0.5 q1.0.6 q1.0.7 d d d d d d d",
    "H 3 q18446744073709551615.18446744073709551615.1 q0.0.2 q18446744073709551615.0.3 d d d",
]


def run_impl(exe, lines, max_restarts=25):
    """Feed the sequences to the harness; after an abort (assert, sanitizer, glibc) restart it behind the sequence
    that aborted.  Returns (const line, per-sequence output or None, [(index, stderr tail)])."""
    outs, crashes, const = [], [], None
    while len(outs) < len(lines) and len(crashes) <= max_restarts:
        inp = ("\n".join(lines[len(outs):]) + "\n").encode()
        rc, o, e = vlib.sh([exe], input=inp, timeout=1800)
        got = o.splitlines()
        if got:
            const = got[0]
        outs += got[1:1 + len(lines) - len(outs)]
        if len(outs) < len(lines):
            crashes.append((len(outs), "rc=%s %s" % (rc, e.strip()[-600:])))
            outs.append(None)
    outs += [None] * (len(lines) - len(outs))
    return const, outs, crashes


# ---------------------------------------------------------------------------
# correspondence
# ---------------------------------------------------------------------------
def correspond(check, n_cases=None):
    """Conventions of PropertyCheck.correspond: uses check.rng, appends Broken(...) to check.broken,
    returns the coverage dict."""
    r = check.rng
    if n_cases is None:
        n_cases = 6000 if getattr(check, "tier", "quick") == "quick" else 40000
    try:
        hs = [(fl, build_harness(fl)) for fl in ("dbg", "asan")]
        md = build_model()
    except vlib.BuildError as ex:
        check.broken.append(Broken("correspondence", "pool_part: harness or model driver does not build", str(ex)[-1500:]))
        return {"evaluations": 0, "distinct_nontrivial": 0, "rule": "build failed", "samples": []}
    lines = list(FIXED)
    hist = {"deque": 0, "heap": 0, "deque_wrap_up": 0, "deque_wrap_down": 0, "deque_full": 0, "heap_full": 0,
            "cap": {}, "heap_styles": {}, "ops": 0, "seq_with_down_wrap": 0, "seq_with_up_wrap": 0}
    while len(lines) < n_cases:
        if len(lines) % 2 == 0:
            ln, (cap, up, down, full) = gen_deque(r)
            hist["deque"] += 1
            hist["deque_wrap_up"] += up
            hist["deque_wrap_down"] += down
            hist["deque_full"] += full
            hist["seq_with_down_wrap"] += down > 0
            hist["seq_with_up_wrap"] += up > 0
        else:
            ln, (cap, style, full) = gen_heap(r)
            hist["heap"] += 1
            hist["heap_full"] += full
            hist["heap_styles"][style] = hist["heap_styles"].get(style, 0) + 1
        hist["cap"][cap] = hist["cap"].get(cap, 0) + 1
        hist["ops"] += ln.count(" ") - 1
        lines.append(ln)
    inp = ("\n".join(lines) + "\n").encode()
    rc2, o2, e2 = vlib.sh([md], input=inp, timeout=1800)
    model = o2.splitlines()
    if rc2 != 0 or len(model) != len(lines) + 1:
        check.broken.append(Broken("correspondence", "pool model driver failed (rc=%s, %d/%d lines)" % (rc2, len(model), len(lines) + 1),
                                   e2[-1500:]))
    nerr = 0
    for i, b in enumerate(model[1:]):
        if "ERR:" in b or "BADLINE" in b or "?" in b:
            nerr += 1
            if nerr <= 3:
                check.broken.append(Broken("correspondence", "the model returns an error value on a sequence that respects every "
                                           "precondition of C11_deque_refines_list / C11_pqueue_refines_sorted (model or extraction "
                                           "changed?)", "input=%s model=%s" % (lines[i][:300], b[-120:])))
    ndiff = 0
    crashed = {}
    for fl, exe in hs:
        const, impl, crashes = run_impl(exe, lines)
        if crashes:
            crashed[fl] = [lines[i][:120] for i, _ in crashes[:3]]
            i0, err0 = crashes[0]
            check.broken.append(Broken("correspondence", "pool_h (%s build of the real deque/pqueue macros and up_heap/down_heap) aborted on "
                                       "%d%s sequence(s) that respect every precondition; first: %s"
                                       % (fl, len(crashes), "+" if len(crashes) > 25 else "", lines[i0][:300]), err0))
        if const is not None and model[:1] and const != model[0]:
            check.broken.append(Broken("correspondence", "width of `unsigned` differs between the build and Safe/PoolVocab.v",
                                       "impl=%s model=%s" % (const, model[:1])))
        for i, ln in enumerate(lines):
            if impl[i] is None or i + 1 >= len(model):
                continue
            a, b = impl[i].split(), model[i + 1].split()
            if a != b:
                ndiff += 1
                if ndiff <= 5:
                    k = next((j for j in range(min(len(a), len(b))) if a[j] != b[j]), min(len(a), len(b)))
                    ops = ln.split()[2:]
                    check.broken.append(Broken(
                        "correspondence",
                        "queue model vs implementation (%s build) differ at operation %d (%s) of: %s"
                        % (fl, k, ops[k] if k < len(ops) else "?", ln[:300]),
                        "impl=%s model=%s (format result@head,size or result@size[ids])"
                        % (a[k] if k < len(a) else "<none>", b[k] if k < len(b) else "<none>")))
    distinct = set(l for l in lines if l.count(" ") >= 6)
    return {
        "evaluations": len(lines) * len(hs),
        "distinct_nontrivial": len(distinct),
        "rule": "distinct operation sequences with >= 5 operations (deque: push/unshift/shift/pop/dq_get/dq_set/size/empty on "
                "capacities 1..40, mostly 1..8, phases fill/drain/rotate forward/rotate backward/shift+unshift at the front; "
                "heap: enqueue/dequeue/peek/size/empty with tie-heavy, ascending, descending and 64-bit-extreme keys); compared after "
                "every operation: returned value, head and size (deque), size and root[0..size-1] in array order (heap); "
                "real code built twice: asserts only, and ASan+UBSan",
        "samples": [l[:200] for l in lines[len(FIXED):len(FIXED) + 4]],
        "histogram": hist,
        "disagreements": ndiff,
        "crashed": crashed,
    }


# ---------------------------------------------------------------------------
# the property itself on the implementation: independent oracle = a Python list
# ---------------------------------------------------------------------------
def oracle_deque(line, out):
    """None if the observable results of the real deque are those of a list, else (op index, expected, got)."""
    toks = line.split()
    ops, res = toks[2:], out.split()
    q = []
    if len(res) != len(ops):
        return (len(res), "%d results" % len(ops), "%d results" % len(res))
    for k, (op, r) in enumerate(zip(ops, res)):
        val, _, st = r.partition("@")
        c, arg = op[0], op[1:]
        if c == "p":
            q.append(int(arg)); want = "-"
        elif c == "u":
            q.insert(0, int(arg)); want = "-"
        elif c == "s":
            want = "v%d" % q.pop(0)
        elif c == "o":
            want = "v%d" % q.pop()
        elif c == "g":
            want = "v%d" % q[int(arg)]
        elif c == "t":
            i, v = arg.split(":"); q[int(i)] = int(v); want = "-"
        elif c == "z":
            want = "n%d" % len(q)
        else:
            want = "b%d" % (not q)
        size = st.split(",")[-1]
        if val != want or size != str(len(q)):
            return (k, "%s size=%d" % (want, len(q)), r)
    return None


def oracle_heap(line, out):
    """dequeue/peek must return an element no other element is less than (any one among equal keys);
    the content is a multiset."""
    toks = line.split()
    ops, res = toks[2:], out.split()
    q = {}
    if len(res) != len(ops):
        return (len(res), "%d results" % len(ops), "%d results" % len(res))
    for k, (op, r) in enumerate(zip(ops, res)):
        val, _, st = r.partition("@")
        c, arg = op[0], op[1:]
        ok = True
        want = ""
        if c == "q":
            ma, mi, i = arg.split("."); q[int(i)] = (int(ma), int(mi)); ok = val == "-"; want = "-"
        elif c in ("d", "k"):
            mn = min(q.values())
            want = "an id with key %s" % (mn,)
            i = int(val[1:]) if val[:1] == "i" and val[1:].isdigit() else -1
            ok = i in q and q[i] == mn
            if ok and c == "d":
                del q[i]
        elif c == "z":
            want = "n%d" % len(q); ok = val == want
        else:
            want = "b%d" % (not q); ok = val == want
        ids = st[st.index("[") + 1:st.index("]")] if "[" in st and "]" in st else "?"
        have = sorted(int(x) for x in ids.split(",") if x.isdigit())
        if not ok or have != sorted(q):
            return (k, "%s, content %s" % (want, sorted(q)), r)
    return None


def direct(check, n_cases=None):
    """Runs the REAL macros / heap functions against the list / multiset-with-minimum oracle (no Coq model involved).
    Returns Violations with the offending sequence as replay payload."""
    r = check.rng
    if n_cases is None:
        n_cases = 3000 if getattr(check, "tier", "quick") == "quick" else 20000
    lines = list(FIXED)
    while len(lines) < n_cases:
        lines.append((gen_deque(r) if len(lines) % 2 == 0 else gen_heap(r))[0])
    out = []
    for fl in ("dbg", "asan"):
        try:
            exe = build_harness(fl)
        except vlib.BuildError as ex:
            check.broken.append(Broken("correspondence", "pool_part.direct: harness does not build", str(ex)[-1500:]))
            return out
        _, impl, crashes = run_impl(exe, lines, max_restarts=3)
        for ln, res in zip(lines, impl):
            if res is None:
                continue
            bad = (oracle_deque if ln[0] == "D" else oracle_heap)(ln, res)
            if bad is not None:
                kind = "deque-is-not-a-list" if ln[0] == "D" else "pqueue-does-not-return-a-minimum"
                ops = ln.split()[2:]
                out.append(Violation("c11:" + kind,
                                     "%s: the real %s (%s build) at operation %d (%s) of `%s`: expected %s, got %s"
                                     % (kind, "deque macros" if ln[0] == "D" else "pqueue macros / up_heap / down_heap", fl, bad[0],
                                        ops[bad[0]] if bad[0] < len(ops) else "?", ln[:200], bad[1], bad[2]),
                                     {"sequence": ln, "flavor": fl}))
                break
        if not out and crashes:
            i0, err0 = crashes[0]
            out.append(Violation("c11:queue-primitive-crash",
                                 "the real queue macros (%s build) abort on a sequence that respects every precondition: %s | %s"
                                 % (fl, lines[i0][:200], err0.splitlines()[-1][:200] if err0 else ""),
                                 {"sequence": lines[i0], "flavor": fl}))
        if out:
            break
    return out


if __name__ == "__main__":     # stand-alone run: python3 checks/pool_part.py [n_cases] [seed]
    import sys
    sys.path.insert(0, os.path.join(vlib.VERIF, "lib"))

    class _C:
        pass
    c = _C()
    c.rng = vlib.SplitMix(int(sys.argv[2]) if len(sys.argv) > 2 else 7)
    c.broken = []
    c.tier = "quick"
    import json
    import time
    t0 = time.time()
    res = correspond(c, int(sys.argv[1]) if len(sys.argv) > 1 else None)
    res["samples"] = [s[:100] for s in res["samples"]]
    print(json.dumps(res, indent=1)[:3500])
    print("seconds: %.1f" % (time.time() - t0))
    for b in c.broken[:10]:
        print("BROKEN", b.kind, b.what[:500], "|", b.detail[:500])
    vs = direct(c, 2000)
    for v in vs[:5]:
        print("VIOLATION", v.key, v.summary[:600])
    print("direct: %d violations; seconds: %.1f" % (len(vs), time.time() - t0))
    sys.exit(1 if c.broken or vs else 0)
