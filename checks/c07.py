"""C07 - damaged input is rejected cleanly."""
import os
import shutil
import subprocess
from concurrent.futures import ThreadPoolExecutor

import vlib
import declib
from runner import PropertyCheck, Broken, Violation


class Check(PropertyCheck):
    pid = "C07"
    props_module = "Properties.Properties_C07"
    extra_targets = ["Extract/ExtractDec.vo", "Extract/ExtractDataFail.vo"]
    gen_files = declib.DEC_GEN + ["ErrTab.v"] + ["ParseTab.v", "IoFailTab.v", "DataFailTab.v"]
    extra_props = ["Properties.Properties_C15parse", "Properties.Properties_C07proc"]
    trusted_base = declib.PARSE_TRUSTED + declib.DEC_TRUSTED + [
        "process level: the exit path of a data error is proved on the thread/signal state machine of C21 (IoFail/IoFailModel.v) for "
        "every regenerated data-error call site (lib/gen_iofail.py::gen_datafail -> Gen/DataFailTab.v: do_parse, do_reorder, work()), "
        "every error code, every state of the other threads and every schedule: exit 1, never 0/4/signal death, the diagnostic is "
        "printed before the failure is signalled, no stuck state, < 64 own steps (Properties_C07proc); tied by runs of the real binary "
        "on damaged inputs in six modes (checks/c07proc_part.py: exit status, complete stderr bytes, directory contents, H3 trace site)",
        "NOT proved: that the process reaches the site belonging to the codec verdict (with several workers another error of the same "
        "file may be reported first); that the pipeline cannot complete while the failing task is in flight (SchedX accounting); output "
        "file removal on failure is C16's model; absence of crashes is C08"]
    assumptions = ["invalid = rejected by the strict reference ref_decode (validated against libbz2)",
                   "one failure per run; no signals from outside"]

    def gen(self):
        rng = self.rng
        quick = self.tier == "quick"
        files = []
        # every truncation point of small multi-block, multi-stream files
        for _ in range(3 if quick else 25):
            f, plain = declib.bzcraft.valid_file(rng, 120)
            for cut in range(len(f)):
                files.append((f[:cut], "trunc"))
        more, hist = declib.gen_files(rng, 0, 124 if quick else 1240, 0, 200)
        files += more
        base = [declib.bzcraft.valid_file(rng, 200)[0] for _ in range(10)]
        for _ in range(150 if quick else 3000):
            f = bytearray(rng.choice(base))
            for _k in range(rng.choice([1, 1, 2, 3])):
                i = rng.below(len(f) * 8)
                f[i // 8] ^= 0x80 >> (i % 8)
            files.append((bytes(f), "mut:multi-bitflip"))
        files += [(b"", "empty"), (b"\x00" * 10, "zeros"), (b"BZh", "short"), (b"BZh0" + b"x" * 20, "wrongdigit"),
                  (b"hello world, not bzip2 at all\n", "text"), (b"BZh91AY&SY", "header-only"), (b"\x1f\x8b\x08\x00" + b"\0" * 30, "gzip-magic")]
        return files

    def correspond(self):
        files = self.gen()
        self.files = [f for f, t in files]
        self.tags = [t for f, t in files]
        self.model, self.impl = declib.model_vs_impl(self, self.files, self.tags)
        self.ref = declib.run_model("ref", self.files)
        hist = {}
        for t, r in zip(self.tags, self.ref):
            k = t.split(":")[0] + ("/valid" if r.startswith("OK") else "/invalid")
            hist[k] = hist.get(k, 0) + 1
        self.invalid = [i for i, r in enumerate(self.ref) if not r.startswith("OK")]
        try:
            import c07proc_part
            proc = c07proc_part.correspond(self) or {}
        except vlib.BuildError:
            raise
        except Exception as e:
            proc = {"evaluations": 0, "distinct_nontrivial": 0, "rule": "c07proc_part crashed"}
            self.broken.append(Broken("correspondence", "c07proc_part.correspond crashed", repr(e)[:800]))
        return {
            "process_level": {k: v for k, v in proc.items() if k != "samples"},
            "evaluations": len(self.files) + int(proc.get("evaluations", 0)),
            "distinct_nontrivial": len(set(self.files[i] for i in self.invalid)) + int(proc.get("distinct_nontrivial", 0)),
            "rule": "every truncation point of crafted multi-block/multi-stream files, the 31-entry defect catalogue, 1-3 random bit "
                    "flips, empty/short/wrong-magic files; non-trivial = distinct files the strict reference rejects",
            "samples": [{"tag": self.tags[i], "file_hex": self.files[i].hex()[:120], "impl": self.impl[i][0]} for i in self.invalid[:3]],
            "histogram": hist, "disagreements": self.dec_disagreements,
        }

    def file_operand_runs(self, idxs):
        """lbzip2 -d on a FILE operand: exit 1, message, input kept, no output file."""
        exe = vlib.build_lbzip2("rel")
        root = os.path.join(self.work, "fileop")
        shutil.rmtree(root, ignore_errors=True)
        os.makedirs(root)

        def one(i):
            d = os.path.join(root, "d%d" % i)
            os.makedirs(d)
            p = os.path.join(d, "x.bz2")
            open(p, "wb").write(self.files[i])
            try:
                r = subprocess.run([exe, "-n%d" % (1 + i % 3), "-d", p], stdout=subprocess.PIPE, stderr=subprocess.PIPE, timeout=20)
                rc, err = r.returncode, r.stderr
            except subprocess.TimeoutExpired:
                rc, err = "HANG", b""
            listing = sorted(os.listdir(d))
            intact = os.path.exists(p) and open(p, "rb").read() == self.files[i]
            shutil.rmtree(d, ignore_errors=True)
            return (i, rc, len(err), listing, intact)
        with ThreadPoolExecutor(vlib.NCPU) as ex:
            res = list(ex.map(one, idxs))
        shutil.rmtree(root, ignore_errors=True)
        return res

    def direct(self):
        out = []
        for i in self.invalid:
            b, rc, err = self.impl[i]
            if rc != 1 or not err.strip():
                out.append(Violation("unclean-reject:" + declib.verdict(b),
                                     "invalid %s file (%d bytes): lbzip2 -d gives %s, stderr %d bytes (expected exit 1 with a diagnostic)" %
                                     (self.tags[i], len(self.files[i]), b, len(err)),
                                     declib.hexfile_payload(self.files[i], {"impl": b, "stderr": err[:300]})))
                if len(out) >= 3:
                    return out
        sample = self.invalid[:: max(1, len(self.invalid) // (150 if self.tier == "quick" else 1500))]
        self.fileop_runs = len(sample)
        for i, rc, nerr, listing, intact in self.file_operand_runs(sample):
            if rc != 1 or nerr == 0 or listing != ["x.bz2"] or not intact:
                out.append(Violation("unclean-reject-fileop",
                                     "invalid %s FILE operand: exit %s, stderr %d bytes, directory afterwards %s, input intact=%s" %
                                     (self.tags[i], rc, nerr, listing, intact),
                                     declib.hexfile_payload(self.files[i], {"mode": "lbzip2 -d x.bz2", "listing": listing})))
                if len(out) >= 3:
                    break
        self.notes.append("FILE-operand runs: %d" % self.fileop_runs)
        return out

    def search(self):
        return []

    def replay(self, path):
        import json
        p = json.load(open(path))
        if "file_hex" not in p:
            print(json.dumps(p.get("broken"), indent=1)[:3000])
            return 1
        impl = declib.run_impl([bytes.fromhex(p["file_hex"])])[0]
        print("impl:", impl[0], "stderr:", impl[2][:200])
        return 0 if impl[1] == 1 and impl[2].strip() else 1
