"""C03 - Compressed bytes depend only on the input and the options."""
import hashlib
import json
import os

import vlib
import schedc_lib as L
from runner import PropertyCheck, Broken, Violation


class Check(PropertyCheck):
    pid = "C03"
    props_module = "Properties.Properties_C03"
    extra_targets = ["Extract/ExtractSchedC.vo"]
    gen_files = ["SchedCTab.v"]
    trusted_base = [
        "Coq 8.16.1 kernel (coqc); no axioms",
        "translator lib/gen_schedc.py (guards, task order, slot formulas, set_memory_constraints: in_granul = bs100k*100000)",
        "hand model SchedC/SchedC.v tied by hook-H3 trace replay (harness/schedc_replay.ml); the codec functions are "
        "Section parameters: that collect()/encode()/transmit() read nothing but their arguments is NOT re-derived here "
        "(DESIGN.md fact 1: Gen/Effects.v belongs to the codec area) - it is covered only by the byte comparison below",
        "xread()/xwrite() loops are modelled in SchedC/Copy.v (Section XRead) by hand",
    ]
    assumptions = [
        "scheduler confluence is proved for both modes (C03_confluent); what stays outside the theorem: that the codec functions read "
        "nothing but their arguments (Section parameter collect), the libc/kernel behaviour of read()/write()",
        "num_worker >= 1",
    ]

    def inputs(self):
        r = vlib.SplitMix(self.seed * 31 + 5)
        ins = [("empty", 1, b""), ("1byte", 1, b"x"),
               ("3exp", 1, L.make_input(r, 1, 3, 0, "expand")),
               ("5mix+tail", 1, L.make_input(r, 1, 5, 4321, "mixed")),
               ("2exp-l2", 2, L.make_input(r, 2, 2, 1, "expand")),
               ("1mix-l9", 9, L.make_input(r, 9, 0, 250000, "mixed"))]
        if self.tier != "quick":
            ins += [("12exp", 1, L.make_input(r, 1, 12, 99999, "expand")), ("8noise-l3", 3, L.make_input(r, 3, 8, 0, "noise"))]
        return ins

    def one_run(self, exe, data, level, ultra, n, seed, inmode, outmode, shortw, tag):
        """Returns (rc, output bytes, stderr tail, timed_out)."""
        args = ["-n", str(n), "-%d" % level] + (["--sequential"] if ultra else [])
        env = {}
        if seed is not None:
            env["LBZIP2_VERIF_SCHED"] = str(seed)
        if shortw is not None or inmode.startswith("shim"):
            env["LD_PRELOAD"] = L.build_shim()
        if shortw is not None:
            env["SCHEDC_SHORTWRITE"] = str(shortw)
        if inmode == "shim1":
            env.update({"SCHEDC_SHORTREAD": str(seed or 1), "SCHEDC_SHORTREAD_MAX": "1"})
        elif inmode == "shimr":
            env.update({"SCHEDC_SHORTREAD": str(seed or 1), "SCHEDC_SHORTREAD_MAX": "5000"})
        d = os.path.join(self.work, "run_" + tag)
        os.makedirs(d, exist_ok=True)
        try:
            if outmode == "FILE":
                path = os.path.join(d, "in.dat")
                with open(path, "wb") as f:
                    f.write(data)
                try:
                    import subprocess
                    p = subprocess.run([exe] + args + ["-k", path], stdin=subprocess.DEVNULL, stdout=subprocess.PIPE,
                                       stderr=subprocess.PIPE, env=L.clean_env(env), timeout=90)
                    out = open(path + ".bz2", "rb").read() if os.path.exists(path + ".bz2") else b""
                    return p.returncode, out, p.stderr.decode("latin-1")[-200:], False
                except subprocess.TimeoutExpired:
                    return 124, b"", "", True
            if inmode == "file":
                path = os.path.join(d, "in.dat")
                with open(path, "wb") as f:
                    f.write(data)
                rc, out, err, to = L.run_file(exe, args, path, env=env, timeout=90)
            elif inmode == "pipe":
                fr = [1 + (i * 7919 + (seed or 0)) % 3000 for i in range(97)]
                rc, out, err, to = L.run_piped(exe, args, data, frags=fr, env=env, timeout=90)
            else:
                rc, out, err, to = L.run_piped(exe, args, data, frags=None, env=env, timeout=120)
            return rc, out, err.decode("latin-1")[-200:], to
        finally:
            import shutil
            shutil.rmtree(d, ignore_errors=True)

    def plan(self):
        r = self.rng
        ins = self.inputs()
        jobs = []
        per = 12 if self.tier == "quick" else 60
        for name, level, data in ins:
            for ultra in (False, True):
                jobs.append((name, level, ultra, 1, None, "file", "stdout", None))          # reference
                for n in (2, 16):
                    jobs.append((name, level, ultra, n, r.below(10000), "file", "stdout", None))
                # worker counts far above the number of cores (buffer sizing must not depend on the worker count)
                for n in (19, 64, 200):
                    jobs.append((name, level, ultra, n, None, "file", "stdout", None))
                for k in range(per):
                    n = r.range(1, 16)
                    inmode = r.choice(["file", "pipe", "shimr", "shim1" if len(data) <= 350000 else "shimr"])
                    outmode = r.choice(["stdout", "stdout", "FILE"])
                    shortw = r.below(1000) if (outmode == "stdout" and r.chance(1, 2)) else None
                    jobs.append((name, level, ultra, n, r.below(100000), inmode if outmode == "stdout" else "file", outmode, shortw))
        return ins, jobs

    def run_plan(self):
        ins, jobs = self.plan()
        datas = {name: (level, data) for name, level, data in ins}
        exes = {"dbg": vlib.build_lbzip2("dbg"), "rel": vlib.build_lbzip2("rel")}

        def one(k):
            name, level, ultra, n, seed, inmode, outmode, shortw = jobs[k]
            return self.one_run(exes["rel" if k % 2 else "dbg"], datas[name][1], level, ultra, n, seed, inmode, outmode, shortw, str(k))
        res = L.pmap(one, list(range(len(jobs))))
        return ins, jobs, res

    def compare(self, ins, jobs, res):
        datas = {name: (level, data) for name, level, data in ins}
        ref = {}
        v = []
        hist = {"n": {}, "in": {}, "out": {}, "shortwrite": 0, "sequential": 0, "configs_compared": 0}
        for job, (rc, out, err, to) in zip(jobs, res):
            name, level, ultra, n, seed, inmode, outmode, shortw = job
            key = (name, ultra)
            hist["n"][n] = hist["n"].get(n, 0) + 1
            hist["in"][inmode] = hist["in"].get(inmode, 0) + 1
            hist["out"][outmode] = hist["out"].get(outmode, 0) + 1
            hist["shortwrite"] += shortw is not None
            hist["sequential"] += bool(ultra)
            desc = "input=%s (%d bytes) level=%d %s n=%d sched_seed=%s in=%s out=%s shortwrite=%s" % (
                name, len(datas[name][1]), level, "--sequential" if ultra else "default", n, seed, inmode, outmode, shortw)
            payload = {"job": list(job), "input_sha256": hashlib.sha256(datas[name][1]).hexdigest(), "stderr": err,
                       "how": "checks/c03.py replay() regenerates the input from VERIF_SEED and re-runs the configuration"}
            if to or rc != 0:
                v.append(Violation("compress-fails", "compression %s: %s" % ("hangs" if to else "exits %s (%s)" % (rc, err.strip()[-80:]), desc), payload))
                continue
            if key not in ref:
                ref[key] = (out, desc)
                continue
            hist["configs_compared"] += 1
            if out != ref[key][0]:
                a, b = ref[key][0], out
                i = next((i for i in range(min(len(a), len(b))) if a[i] != b[i]), min(len(a), len(b)))
                v.append(Violation("output-differs", "compressed bytes differ (%d vs %d bytes, first difference at offset %d) between "
                                   "[%s] and [%s]" % (len(a), len(b), i, ref[key][1], desc), payload))
        return v, hist

    def correspond(self):
        # model tie shared with C11: a small batch of traced runs replayed through SchedC.step
        import c11
        c = c11.Check(self.tier, self.seed)
        c.work = self.work
        js = c.jobs(36 if self.tier == "quick" else 150)
        results = c.run_jobs(js, "t")
        rc, out, err, unp = c.replay_all(results)
        fails = 0
        nontriv = set()
        for r in results:
            if r["timeout"] or r["rc"] != 0:
                self.broken.append(Broken("correspondence", "traced run failed (rc=%s)" % r["rc"], r["err"]))
                continue
            st = out.get(r["tag"])
            if not st or st[0] != "OK":
                fails += 1
                if fails <= 3:
                    self.broken.append(Broken("correspondence", "trace is not a run of the model (n=%d seed=%d)" % (r["n"], r["seed"]),
                                              (st[1] if st else "no verdict")[:1200]))
            elif len(r["trace"]) > 20:
                nontriv.add((r["job"], tuple(r["trace"][:300])))
        for r_, e in unp:
            self.broken.append(Broken("correspondence", "unparsable trace", e))
        self.cmp_ins, self.cmp_jobs, self.cmp_res = self.run_plan()
        v, hist = self.compare(self.cmp_ins, self.cmp_jobs, self.cmp_res)
        self.cmp_v = v
        return {"evaluations": len(results) + len(self.cmp_jobs), "distinct_nontrivial": len(nontriv) + hist["configs_compared"],
                "rule": "evaluations = traced runs replayed through the extracted scheduler model (tie of the model) + runs of the "
                        "multi-configuration byte comparison (n in 1..16 and 19/64/200 x H1 seeds x {file, pipe, 1-byte reads, random short reads} "
                        "x {stdout, FILE operand} x short-write sink, asserts-on and release builds alternating, both modes, "
                        "levels 1/2/9); non-trivial = replayed traces with more than 20 records + configurations whose output was "
                        "compared byte-for-byte with the reference configuration (n=1, file input, stdout)",
                "samples": [list(j) for j in self.cmp_jobs[:4]], "histogram": hist, "replay_failures": fails}

    def direct(self):
        return list(getattr(self, "cmp_v", []))[:5]

    def search(self):
        # wider comparison: more seeds, all worker counts
        old = self.tier
        self.tier = "thorough" if old == "quick" else old
        try:
            ins, jobs = self.plan()
        finally:
            self.tier = old
        jobs = jobs[:500]
        datas = {name: (level, data) for name, level, data in ins}
        exe = vlib.build_lbzip2("dbg")

        def one(k):
            name, level, ultra, n, seed, inmode, outmode, shortw = jobs[k]
            return self.one_run(exe, datas[name][1], level, ultra, n, seed, inmode, outmode, shortw, "s%d" % k)
        res = L.pmap(one, list(range(len(jobs))))
        v, _ = self.compare(ins, jobs, res)
        return v[:3]

    def replay(self, path):
        p = json.load(open(path))
        job = p.get("job")
        if not job:
            print("replay file names no input:", json.dumps(p.get("broken"), indent=1)[:3000])
            return 1
        name, level, ultra, n, seed, inmode, outmode, shortw = job
        ins = {nm: (lv, d) for nm, lv, d in self.inputs()}
        if self.tier == "quick" and name not in ins:
            self.tier = "thorough"
            ins = {nm: (lv, d) for nm, lv, d in self.inputs()}
        data = ins[name][1]
        exe = vlib.build_lbzip2("dbg")
        ref = self.one_run(exe, data, level, ultra, 1, None, "file", "stdout", None, "ref")
        bad = 0
        for k in range(10):
            r = self.one_run(exe, data, level, ultra, n, (seed or 0) + k, inmode, outmode, shortw, "rp%d" % k)
            bad += (r[0] != 0 or r[1] != ref[1])
        print("replayed 10 runs of %s: %d differ from the reference configuration" % (job, bad))
        return 1 if bad else 0
