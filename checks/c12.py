"""C12 - No data races between threads.

Main tie: coq/Gen/LockProg.v (lock/access skeleton of process.c, compress.c, expand.c,
signals.c, main.c) is regenerated from the current source by lib/gen_lock.py and the
verified lockset checker is run on it by vm_compute (Theorem C12_globals).
correspond(): independent text-level cross-check of the translator.
direct(): ThreadSanitizer smoke runs (support, testing).
search(): diagnosis from the extracted checker (variable, two access sites) and an
attempt to exhibit the race with ThreadSanitizer under schedule perturbation.
"""
import json
import os
import re
import sys
import time
from concurrent.futures import ThreadPoolExecutor

import vlib
from runner import PropertyCheck, Broken, Violation

sys.path.insert(0, os.path.join(vlib.VERIF, "lib"))

FILES = ["process.c", "compress.c", "expand.c", "signals.c", "main.c"]

# ---------------------------------------------------------------------------
# text-level scanner (independent of clang): comments/strings stripped, hook blocks
# removed, brace matching; no C parsing
# ---------------------------------------------------------------------------


def strip_text(src):
    out = []
    i = 0
    n = len(src)
    while i < n:
        c = src[i]
        if src.startswith("/*", i):
            j = src.find("*/", i + 2)
            j = n if j < 0 else j + 2
            out.append("".join(ch if ch == "\n" else " " for ch in src[i:j]))
            i = j
        elif src.startswith("//", i):
            j = src.find("\n", i)
            j = n if j < 0 else j
            i = j
        elif c == '"':
            j = i + 1
            while j < n and src[j] != '"':
                j += 2 if src[j] == "\\" else 1
            out.append('""' + "".join("\n" for ch in src[i:j] if ch == "\n"))
            i = j + 1
        elif c == "'":
            j = i + 1
            while j < n and src[j] != "'":
                j += 2 if src[j] == "\\" else 1
            out.append("0")
            i = j + 1
        else:
            out.append(c)
            i += 1
    return "".join(out)


def drop_hooks_and_cpp(src):
    """remove #ifdef KJN_LBZIP2_VERIF ... [#else keep] #endif, #if 0 blocks, then all
    preprocessor lines (joined continuation lines), keeping line numbering."""
    lines = src.split("\n")
    out = []
    stack = []       # entries: [kind, keeping]
    i = 0
    while i < len(lines):
        l = lines[i]
        s = l.strip()
        cont = s.endswith("\\")
        if s.startswith("#"):
            d = s[1:].strip()
            if d.startswith("ifdef") or d.startswith("ifndef") or d.startswith("if"):
                if re.match(r"ifdef\s+KJN_LBZIP2_VERIF", d):
                    stack.append(["hook", False])
                elif re.match(r"if\s+0\b", d):
                    stack.append(["zero", False])
                elif re.match(r"if\s+1\b", d):
                    stack.append(["one", True])
                elif re.match(r"ifdef\s+ENABLE_TRACING", d):
                    stack.append(["trace", False])
                else:
                    stack.append(["other", True])
            elif d.startswith("else"):
                if stack and stack[-1][0] in ("hook", "zero", "one", "trace"):
                    stack[-1][1] = not stack[-1][1]
            elif d.startswith("endif"):
                if stack:
                    stack.pop()
            out.append("")
            while cont and i + 1 < len(lines):
                i += 1
                cont = lines[i].strip().endswith("\\")
                out.append("")
            i += 1
            continue
        keep = all(k for _, k in stack)
        out.append(l if keep else "")
        i += 1
    return "\n".join(out)


def scan_file(path):
    raw = open(path, encoding="latin-1").read()
    src = drop_hooks_and_cpp(strip_text(raw))
    funcs = {}      # name -> (body text, first line)
    gvars = {}      # name -> line
    depth = 0
    chunk_start = 0
    i = 0
    n = len(src)
    while i < n:
        c = src[i]
        if c == "{":
            if depth == 0:
                head = src[chunk_start:i].strip()
                # find matching brace
                j = i
                d = 0
                while j < n:
                    if src[j] == "{":
                        d += 1
                    elif src[j] == "}":
                        d -= 1
                        if d == 0:
                            break
                    j += 1
                body = src[i + 1:j]
                line = src.count("\n", 0, i) + 1
                h = re.sub(r"\b(?:deque|pqueue)\s*\([^()]*\)", " T ", head)
                if h.endswith("="):
                    m = re.search(r"(\w+)\s*(?:\[[^\]]*\]\s*)*=$", h)
                    if m:
                        gvars[m.group(1)] = line
                    i = j + 1
                    continue                # initialiser: the chunk continues up to ';'
                m = None
                if h.endswith(")"):
                    # balanced scan backwards to the '(' that opens the parameter list
                    d2 = 0
                    q = len(h) - 1
                    while q >= 0:
                        if h[q] == ")":
                            d2 += 1
                        elif h[q] == "(":
                            d2 -= 1
                            if d2 == 0:
                                break
                        q -= 1
                    m = re.search(r"(\w+)\s*$", h[:q]) if q > 0 else None
                if m and not re.match(r"^(struct|enum|union)\b[^()]*$", h):
                    funcs[m.group(1)] = (body, line)
                    i = j + 1
                    chunk_start = i
                    continue
                # struct/enum/union definition, possibly followed by declarators
                i = j + 1
                k = src.find(";", i)
                tail = src[i:k].strip() if k >= 0 else ""
                if tail and re.match(r"^[\w\s\*,\[\]]+$", tail):
                    for nm in re.findall(r"(\w+)\s*(?:\[[^\]]*\])?\s*(?:,|$)", tail):
                        gvars[nm] = line
                i = (k + 1) if k >= 0 else n
                chunk_start = i
                continue
            depth += 1
        elif c == "}":
            depth -= 1
        elif c == ";" and depth == 0:
            decl = src[chunk_start:i].strip()
            line = src.count("\n", 0, i) + 1
            chunk_start = i + 1
            d = re.sub(r"\b(?:deque|pqueue)\s*\([^()]*\)", " T ", decl)
            d = re.sub(r"=.*$", "", d, flags=re.S).strip()
            d = re.sub(r"\bformat_printf\s*\([^()]*\)", "", d).strip()
            if d and "(" not in d and not d.startswith("typedef") and not re.match(r"^(struct|enum|union)\s+\w+$", d):
                m = re.search(r"(\w+)\s*(?:\[[^\]]*\]\s*)*$", d)
                if m:
                    gvars[m.group(1)] = line
        i += 1
    return src, funcs, gvars


LOCK_PATS = {
    "Lock": r"\b(?:xlock|pthread_mutex_lock|flockfile)\s*\(",
    "Unlock": r"\b(?:xunlock|pthread_mutex_unlock|funlockfile)\s*\(",
    "Wait": r"\b(?:xwait|pthread_cond_wait)\s*\(",
    "Create": r"\bpthread_create\s*\(",
    "Join": r"\b(?:xjoin|pthread_join)\s*\(",
}


def term_vars(st, acc):
    if not isinstance(st, tuple):
        return
    k = st[0]
    if k in ("Rd", "Wr"):
        acc.add(st[1])
    elif k in ("Seq", "If", "IfMain"):
        term_vars(st[1], acc)
        term_vars(st[2], acc)
    elif k == "Loop":
        term_vars(st[1], acc)


def term_calls(st, acc):
    if not isinstance(st, tuple):
        return
    k = st[0]
    if k == "Call":
        acc.append(st[1])
    elif k in ("Seq", "If", "IfMain"):
        term_calls(st[1], acc)
        term_calls(st[2], acc)
    elif k == "Loop":
        term_calls(st[1], acc)


class Check(PropertyCheck):
    pid = "C12"
    props_module = "Properties.Properties_C12"
    extra_targets = ["Extract/ExtractLock.vo"]
    gen_files = ["LockProg.v", "OwnProg.v"]
    trusted_base = [
        "Coq 8.16.1 kernel (coqc); vm_compute for C12_globals (the verified checker run on the regenerated program); no native_compute",
        "axioms: none (Print Assumptions: closed under the global context)",
        "translator lib/gen_lock.py + clang 14 JSON AST (flags of vlib.BASE_DEFS, WITHOUT -DKJN_LBZIP2_VERIF so hook code is not analysed, "
        "without -DNDEBUG so assert() operands count as reads): transcription rules listed in its docstring; cross-checked by a text-level scan",
        "thread creation/joining orders memory: accesses of a thread before its first pthread_create / after its last pthread_join "
        "([Join true] marks, computed by position) are exempt against the threads it creates; signal handler vs main thread on volatile sig_atomic_t",
        "mutexes give mutual exclusion; pthread_cond_wait = unlock+lock; flockfile(stderr) is a mutex; libc state (stderr, errno, FILE) is libc's business",
        "pointer accesses are heap classes named after the pointee type; the classes of LockConfig.heap_locked are checked by the lockset part, "
        "objects owned by one task at a time by the ownership part: translator lib/gen_own.py (hand-over skeleton Gen/OwnProg.v of the worker / "
        "reader / writer threads, every call into process.c/compress.c/expand.c inlined; policy tables OWN_RECORDS / SHARED_RECORDS / queue_lock "
        "in that file; rules and refusals in its docstring) + verified checker Lock/OwnCheck.v (own_sound)",
        "ownership part, outside the skeleton: objects reached through structs of other modules (struct bitstream: the reference-counted input "
        "buffer of expand.c between attach() and detach()), memory lifetime of published objects (complete/legitimate, ref_count), codec functions "
        "of other modules do not retain pointer arguments, sub-objects (p->f buffers) travel with their parent object, "
        "primary_thread outside worker_thread_proc() (ordered by thread creation/joining; the translator checks that it touches no object there)",
        "expand.c:par is excluded: protected by the parse_token hand-over, not by a mutex",
        "function-pointer calls go to the functions named in the static initialisers of struct task / struct process / struct thread_entry",
    ]
    assumptions = [
        "signals are delivered only to the main thread inside sigsuspend() (cli() blocks them before any thread is created)",
        "every thread created is joined by its creator before the creator's last pthread_join returns",
        "locals and parameters are thread-private (no address of a local reaches another thread)",
    ]
    level = "proof"

    # ---- translator model (python objects), shared by correspond/search ----------
    def model(self):
        if not hasattr(self, "_model"):
            import gen_lock
            self._model = gen_lock.translate(vlib.REPO)
            gen_lock.emit(self._model)        # assigns the ids used in LockProg.v
        return self._model

    # ---- tie 2: cross-check of the translator ------------------------------------
    def correspond(self):
        t0 = time.time()
        try:
            m = self.model()
        except Exception as ex:
            self.broken.append(Broken("translator", "gen_lock.translate", "%s: %s" % (type(ex).__name__, ex)))
            return {"evaluations": 0, "distinct_nontrivial": 0, "rule": "translator failed", "samples": []}
        evals = 0
        nontrivial = set()
        mism = []
        samples = []
        hist = {"functions_text": 0, "functions_ast": len(m.func_nodes), "macro_generated_functions": 0,
                "lockop_counts_compared": 0, "globals_text": 0, "globals_table": 0,
                "mention_pairs_both": 0, "mention_only_text": 0, "mention_only_ast": 0}
        all_text_globals = {}
        text_funcs = {}
        srcs = {}
        for f in FILES:
            src, funcs, gvars = scan_file(os.path.join(vlib.REPO, "src", f))
            srcs[f] = src
            for nm, (body, line) in funcs.items():
                text_funcs[(f, nm)] = (body, line)
            for nm, line in gvars.items():
                all_text_globals[(f, nm)] = line
        for f in ("process.h", "main.h", "signals.h", "common.h", "encode.h", "decode.h"):
            src, funcs, gvars = scan_file(os.path.join(vlib.REPO, "src", f))
            for nm, line in gvars.items():
                all_text_globals[(f, nm)] = line
        hist["functions_text"] = len(text_funcs)
        hist["globals_text"] = len(all_text_globals)
        # (1) functions: every function the text scan sees is in the AST table and vice versa
        ast_funcs = {}
        for fq, info in m.func_info.items():
            ast_funcs[(os.path.basename(info["file"]), info["base"])] = fq
        for key in text_funcs:
            evals += 1
            if key not in ast_funcs:
                mism.append("function %s:%s found in the text but not transcribed" % key)
        macro_gen = sorted(k for k in ast_funcs if k not in text_funcs)
        hist["macro_generated_functions"] = len(macro_gen)
        # the only functions invisible to the text scan are the ones generated by DEF() in main.c
        defs = re.findall(r"\bDEF\s*\(\s*(\w+)\s*\(", srcs["main.c"])
        for k in macro_gen:
            evals += 1
            if not (k[0] == "main.c" and k[1] in defs):
                mism.append("function %s:%s transcribed but not found in the text" % k)
        # (2) lock operation counts per function
        for key, (body, line) in text_funcs.items():
            fq = ast_funcs.get(key)
            if fq is None:
                continue
            for kind, pat in LOCK_PATS.items():
                nt = len(re.findall(pat, body))
                na = m.counts[fq][kind]
                evals += 1
                hist["lockop_counts_compared"] += 1
                if nt or na:
                    nontrivial.add("%s:%s" % key)
                if nt != na:
                    mism.append("%s:%s: %s occurs %d times in the text, %d in the transcription" % (key[0], key[1], kind, nt, na))
            for callee in ("sched_lock", "sched_unlock"):
                nt = len(re.findall(r"\b%s\s*\(" % callee, body))
                cs = []
                if m.instances.get(fq):
                    term_calls(m.instances[fq], cs)
                na = sum(1 for c in cs if m.inst_base.get(c, c) == callee)
                evals += 1
                if nt or na:
                    nontrivial.add("%s:%s" % key)
                if nt != na:
                    mism.append("%s:%s: %s() called %d times in the text, %d in the transcription" % (key[0], key[1], callee, nt, na))
        # DEF()-generated functions: one flockfile/funlockfile each in the macro text
        mdef = re.search(r"#define DEF\(.*?\n\n", open(os.path.join(vlib.REPO, "src", "main.c"), encoding="latin-1").read(), re.S)
        if mdef:
            for k in macro_gen:
                fq = ast_funcs[k]
                for kind, word in (("Lock", "flockfile"), ("Unlock", "funlockfile")):
                    evals += 1
                    nt = len(re.findall(r"\b%s\s*\(" % word, mdef.group(0)))
                    if nt != m.counts[fq][kind]:
                        mism.append("main.c:%s: %s occurs %d times in DEF(), %d in the transcription" % (k[1], word, nt, m.counts[fq][kind]))
        # (3) variable table: every file-scope variable of the text is in the table, and back
        table = {}
        for g, info in m.globals.items():
            if info["local_static"]:
                continue
            table[(os.path.basename(info["file"] or "?"), g.split(":")[-1])] = g
        hist["globals_table"] = len(table)
        for key in sorted(all_text_globals):
            evals += 1
            base = key[1]
            if key not in table and not any(k[1] == base for k in table):
                mism.append("file-scope variable %s:%s (line %d) is missing from the variable table" % (key[0], key[1], all_text_globals[key]))
        for key in sorted(table):
            evals += 1
            if not any(k[1] == key[1] for k in all_text_globals):
                mism.append("variable %s of the table was not found by the text scan" % table[key])
        # mutexes, qualifiers
        mut_text = set()
        for f in FILES:
            mut_text |= set(re.findall(r"\bpthread_mutex_t\s+(\w+)", srcs[f]))
        mut_ast = set(x.split(":")[-1] for x in m.mutexes if not x.startswith("stdio"))
        evals += 1
        if mut_text != mut_ast:
            mism.append("mutexes in the text %s vs in the transcription %s" % (sorted(mut_text), sorted(mut_ast)))
        sa_text = set()
        for f in FILES:
            sa_text |= set(re.findall(r"\bvolatile\s+sig_atomic_t\s+(\w+)", srcs[f]))
        sa_ast = set(g.split(":")[-1] for g, i in m.globals.items() if i["sigatomic"])
        evals += 1
        if sa_text != sa_ast:
            mism.append("volatile sig_atomic_t variables: text %s vs table %s" % (sorted(sa_text), sorted(sa_ast)))
        # (3b) function tables: every function named in the initialiser of a struct task /
        # struct process / struct thread_entry object is a possible callee of the indirect calls
        resolved = set()
        for fs in m.init_funcs.values():
            resolved |= set(x.split(":")[-1] for x in fs)
        fnames = set(k[1] for k in ast_funcs)
        for f in FILES:
            for mm in re.finditer(r"\bstruct\s+(task|process|thread_entry)\s+(\w+)\s*(?:\[[^\]]*\])?\s*=\s*\{", srcs[f]):
                i0 = mm.end() - 1
                d = 0
                j = i0
                while j < len(srcs[f]):
                    if srcs[f][j] == "{":
                        d += 1
                    elif srcs[f][j] == "}":
                        d -= 1
                        if d == 0:
                            break
                    j += 1
                named = [x for x in re.findall(r"\b[A-Za-z_]\w*\b", srcs[f][i0:j]) if x in fnames]
                for x in named:
                    evals += 1
                    if x not in resolved:
                        mism.append("%s: initialiser of %s names function %s which is not a resolved indirect callee" % (f, mm.group(2), x))
                hist["table_functions_text"] = hist.get("table_functions_text", 0) + len(named)
        hist["table_functions_resolved"] = sum(len(v) for v in m.init_funcs.values())
        evals += 1
        if hist.get("table_functions_text", 0) != hist["table_functions_resolved"]:
            mism.append("static function tables name %d functions in the text, %d were resolved" % (
                hist.get("table_functions_text", 0), hist["table_functions_resolved"]))
        # (4) which function mentions which global: text (identifier not preceded by . or ->) vs AST accesses
        gnames = {}
        for g, info in m.globals.items():
            if info["local_static"]:
                continue
            gnames.setdefault(g.split(":")[-1], []).append(g)
        only_ast = []
        root_of = {}
        for g in m.globals:
            for leaf in m.leaves([g]):
                root_of[leaf] = g.split(":")[-1]
        for key, (body, line) in text_funcs.items():
            fq = ast_funcs.get(key)
            if fq is None or not m.instances.get(fq):
                continue
            vs = set()
            term_vars(m.instances[fq], vs)
            ast_roots = set()
            for v in vs:
                if v.startswith("heap:"):
                    continue
                ast_roots.add(root_of[v])
            b = re.sub(r"(?:\.|->)\s*\w+", " ", body)
            # declarations of locals/parameters with the name of a global shadow it: ignore those names
            text_ids = set(re.findall(r"\b[A-Za-z_]\w*\b", b))
            for nm in gnames:
                evals += 1
                in_text = nm in text_ids
                in_ast = nm in ast_roots
                if in_text and in_ast:
                    hist["mention_pairs_both"] += 1
                    nontrivial.add("%s:%s" % key)
                elif in_ast and not in_text:
                    hist["mention_only_ast"] += 1
                    only_ast.append("%s:%s accesses %s" % (key[0], key[1], nm))
                elif in_text and not in_ast:
                    hist["mention_only_text"] += 1
            if len(samples) < 4 and ast_roots:
                samples.append({"function": "%s:%s" % key, "globals_accessed": sorted(ast_roots),
                                "lock_ops": {k: v for k, v in m.counts[fq].items() if v}})
        # (5) ownership translator (lib/gen_own.py): per function reached from a thread entry, the number of
        # queue-macro uses, allocations and free() calls in the text vs the ones it recognised
        try:
            import gen_own
            T = self.own_model()
            hist["own_functions_inlined"] = len(T.inlined_funcs)
            hist["own_events_compared"] = 0
            for key, (body, line) in text_funcs.items():
                fq = ast_funcs.get(key)
                if fq is None or fq not in T.inlined_funcs:
                    continue
                b = re.sub(r"\bTrace\s*\(\(.*?\)\)\s*;", " ", body, flags=re.S)
                pats = {nm: r"\b%s\s*\(" % nm for nm in gen_own.QUEUE_MACROS}
                pats["alloc"] = r"\b(?:XMALLOC|XNMALLOC|xmalloc|malloc|calloc|pqueue_init|deque_init)\s*\("
                pats["free"] = r"\b(?:free|pqueue_uninit|deque_uninit)\s*\("
                for what, pat in pats.items():
                    nt = len(re.findall(pat, b))
                    na = len(T.seen.get((fq, what), ()))
                    evals += 1
                    hist["own_events_compared"] += 1
                    if nt or na:
                        nontrivial.add("%s:%s" % key)
                    if nt != na:
                        mism.append("%s:%s: %s occurs %d times in the text, %d recognised by gen_own" % (key[0], key[1], what, nt, na))
            hist["own_skeleton"] = {"variables": len(T.var_names), "queues": len(T.queues), "sites": len(T.sites),
                                    "inlined_instances": T.stats["inlined"],
                                    "sub_object_fields": {k: sorted(v) for k, v in T.subs.items()},
                                    "field_aliases": ["%s.%s=%s" % (k[0], k[1], v) for k, v in T.alias.items()]}
        except Exception as ex:
            if not any(b.what.startswith("Gen/OwnProg.v") for b in self.broken):
                self.broken.append(Broken("translator", "gen_own.translate", "%s: %s" % (type(ex).__name__, ex)))
        # accesses hidden in macros whose text does not name the variable are not expected
        for x in only_ast:
            mism.append("transcription has an access the text does not show: " + x)
        for x in mism[:8]:
            self.broken.append(Broken("correspondence", "translator cross-check", x))
        self.corr_mismatches = mism
        return {
            "evaluations": evals, "distinct_nontrivial": len(nontrivial),
            "rule": "text-level scan (comments/strings stripped, hook blocks removed, brace matching) vs clang-AST transcription: "
                    "function set, per-function counts of lock/unlock/wait/create/join and sched_lock()/sched_unlock() calls, "
                    "file-scope variable set, mutex set, sig_atomic_t set, which function names which global; "
                    "non-trivial = distinct functions with at least one lock operation or global access compared",
            "samples": samples, "histogram": hist, "mismatches": len(mism),
            "only_text_note": "text mentions without an AST access are address-of/sizeof uses, shadowing locals or DEF-macro parameters",
            "correspond_wall_s": round(time.time() - t0, 2),
        }

    # ---- extracted checker: facts, failing pairs ---------------------------------
    def run_extracted(self):
        exe = vlib.build_ocaml("lock_model", os.path.join(vlib.COQ, "Extract", "ml"), ["lock_model"], "lock_driver.ml")
        rc, out, err = vlib.sh([exe], timeout=300)
        if rc != 0:
            raise RuntimeError("lock_model driver failed: " + err[-500:])
        m = self.model()
        V, S, M = m.ids["V"].names, m.ids["S"].names, m.ids["M"].names
        res = {"verdict": None, "tracked": set(), "scenarios": {}, "flowfailed": []}
        cur = None

        def fact(txt):
            a, locks = txt.strip().split(" [")
            sp, v, w, c, st = [int(x) for x in a.split()]
            ls = [M[int(x) - 1] for x in locks.rstrip("]").split(",") if x]
            return {"class": sp, "var": V[v - 1], "write": bool(w), "conc": bool(c), "site": S[st - 1], "locks": ls}
        for line in out.splitlines():
            if line.startswith("VERDICT"):
                res["verdict"] = line.split()[1] == "true"
            elif line.startswith("TRACKED"):
                res["tracked"] = set(V[int(x) - 1] for x in line.split()[1:])
            elif line.startswith("SCENARIO"):
                cur = line.split()[1]
                res["scenarios"][cur] = {"facts": [], "bad": []}
            elif line.startswith("FLOWFAILED"):
                res["flowfailed"].append(line.split()[1:])
            elif line.startswith("FACT"):
                res["scenarios"][cur]["facts"].append(fact(line[5:]))
            elif line.startswith("BAD"):
                a, b = line[4:].split(" | ")
                res["scenarios"][cur]["bad"].append((fact(a), fact(b)))
        return res

    def classify(self, res):
        """per variable written in the concurrent phase: which rule justifies it
        (reporting only; the verified condition is the pairwise one)."""
        m = self.model()
        out = {"globals": {}, "heap_locked": [], "heap_unlocked": {}}
        for sname, sc in res["scenarios"].items():
            specs = [s for s in m.scenarios if s["name"] == sname][0]["specs"]
            byvar = {}
            for f in sc["facts"]:
                byvar.setdefault(f["var"], []).append(f)
            for v, fs in byvar.items():
                conc = [f for f in fs if f["conc"]]
                if v.startswith("heap:"):
                    if not conc:
                        continue
                    common = set(conc[0]["locks"])
                    for f in conc:
                        common &= set(f["locks"])
                    if common:
                        if v not in out["heap_locked"]:
                            out["heap_locked"].append(v)
                    else:
                        out["heap_unlocked"].setdefault(v, set()).update(f["site"] for f in conc if not f["locks"])
                    continue
                if v not in res["tracked"]:
                    rule = "not tracked: protected by an ownership token, not by a mutex (partial)"
                elif not any(f["write"] for f in conc):
                    rule = "(iv) not written in the concurrent phase" if any(f["write"] for f in fs) else "read-only"
                else:
                    common = set(conc[0]["locks"])
                    for f in conc:
                        common &= set(f["locks"])
                    classes = set(f["class"] for f in conc)
                    g = m.globals.get(v) or m.globals.get(v.split(".")[0])
                    if any(x["sigatomic"] for k, x in m.globals.items() if v == k) and \
                            all(specs[f["class"]].get("handler") for f in conc if f["write"]):
                        rule = "(iii) volatile sig_atomic_t written only by the signal handler"
                    elif common:
                        rule = "(i) common mutex " + ",".join(sorted(common))
                    elif len(classes) == 1 and not specs[list(classes)[0]]["multi"]:
                        rule = "(ii) only the single-instance class " + specs[list(classes)[0]]["name"]
                    elif len(set(f["class"] for f in conc if f["write"])) == 1 and \
                            not specs[[f["class"] for f in conc if f["write"]][0]]["multi"]:
                        rule = "(ii) written by the single-instance class %s under a lock, read elsewhere under it (tail_offs pattern)" % \
                            specs[[f["class"] for f in conc if f["write"]][0]]["name"]
                    else:
                        rule = "pairwise (no single rule)"
                prev = out["globals"].get(v)
                out["globals"][v] = rule if prev is None or prev == rule else prev + " | " + sname + ": " + rule
        out["heap_unlocked"] = {k: sorted(v)[:8] for k, v in sorted(out["heap_unlocked"].items())}
        out["heap_locked"] = sorted(out["heap_locked"])
        return out

    # ---- ThreadSanitizer runs ------------------------------------------------------
    def tsan_jobs(self, nseeds, sizes=(400000,), late=1):
        """jobs = (kind, args, data spec, H1 seed, plan).  plan = None (input written at once) or
        {"cuts": [...], "delays_ms": [...], "wait_output": n|None}: stdin is a pipe, the input is
        written in pieces with pauses (and, for the late-tail class, only after n bytes of output
        have arrived), then closed - so the reader thread sits in read() while workers run."""
        r = self.rng
        jobs = []
        for size in sizes:
            data = bytes((r.below(64) if (i // 4096) % 3 else 65) for i in range(size))
            for k in range(nseeds):
                seed = r.range(1, 1 << 30)
                n = r.choice([1, 2, 3, 4, 8])
                jobs.append(("compress", ["-n%d" % n, "-1"], data, seed, None))
                jobs.append(("compress-seq", ["-n%d" % r.choice([2, 3, 5]), "-1", "-u"], data, r.range(1, 1 << 30), None))
                # every 100000-byte chunk expands under the initial run-length coding (runs of exactly four equal bytes): the tail of
                # the input block is re-queued and collected by another worker (heap objects handed over through coll_q)
                expanding = (b"aaaab" * (size // 5 + 1))[:size]
                jobs.append(("compress-expanding", ["-n%d" % r.choice([2, 4, 8]), "-1"], expanding, r.range(1, 1 << 30), None))
                jobs.append(("compress-expanding", ["-n%d" % r.choice([4, 8]), "-1"], expanding, r.range(1, 1 << 30), None))
                jobs.append(("decompress", ["-d", "-n%d" % r.choice([1, 2, 4, 8])], None, r.range(1, 1 << 30), None))
                jobs.append(("decompress-small", ["-d", "-s", "-n%d" % r.choice([2, 4])], None, r.range(1, 1 << 30), None))
                jobs.append(("copy", ["-cdf", "-n2"], data[:150000], r.range(1, 1 << 30), None))
                # error path: a worker fails while the other threads run (failf -> bailout -> SIGUSR1 -> main)
                jobs.append(("decompress-damaged", ["-d", "-n%d" % r.choice([2, 4])], "damaged", r.range(1, 1 << 30), None))
            jobs += self.late_jobs(data, late, ("decompress", "compress", "copy"))
        return jobs

    def late_jobs(self, data, count, classes, workers=(1, 2, 4)):
        """input arriving late through a timed pipe"""
        r = self.rng
        jobs = []
        for k in range(count):
            n = workers[k % len(workers)]
            d = lambda: r.range(50, 300)
            if "decompress" in classes:
                # valid stream + trailing non-bzip2 bytes up to an input-block boundary + 16 bytes of the
                # next block; the rest (and EOF) only after all output has been produced: the parser has
                # finished while the reader is still inside read()
                jobs.append(("decompress-trailing-late", ["-d", "-c", "-n%d" % n], "trailing", r.range(1, 1 << 30),
                             {"cuts": ["tail"], "delays_ms": [d()], "wait_output": "all"}))
                if k % 2 == 0:
                    jobs.append(("decompress-2streams-late", ["-d", "-c", "-n%d" % n], "twostreams", r.range(1, 1 << 30),
                                 {"cuts": ["stream1"], "delays_ms": [d()], "wait_output": None}))
            if "compress" in classes:
                c1 = r.range(1, len(data) // 2)
                c2 = r.range(len(data) // 2, len(data) - 1)
                jobs.append(("compress-chunked-late", ["-n%d" % n, "-1"] + (["-u"] if k % 2 else []), data, r.range(1, 1 << 30),
                             {"cuts": [c1, c2], "delays_ms": [d(), d()], "wait_output": None}))
            if "copy" in classes:
                cd = data[:150000]
                jobs.append(("copy-late", ["-cdf", "-n2"], cd, r.range(1, 1 << 30),
                             {"cuts": [r.range(1, 70000), r.range(70001, len(cd) - 1)], "delays_ms": [d(), d()], "wait_output": None}))
        return jobs

    @staticmethod
    def timed_run(cmd, data, cuts, delays_ms, wait_output, env, timeout):
        """feed data through a pipe in pieces; returns (rc, stdout, stderr)"""
        import subprocess
        import threading
        e = dict(os.environ)
        e.update(env)
        p = subprocess.Popen(cmd, stdin=subprocess.PIPE, stdout=subprocess.PIPE, stderr=subprocess.PIPE, env=e)
        bufs = {"o": bytearray(), "e": bytearray()}

        def rd(f, k):
            while True:
                b = os.read(f.fileno(), 65536)      # returns what is there (f.read(n) would wait for n bytes)
                if not b:
                    break
                bufs[k] += b
        ts = [threading.Thread(target=rd, args=(p.stdout, "o")), threading.Thread(target=rd, args=(p.stderr, "e"))]
        for t in ts:
            t.daemon = True
            t.start()
        pieces = []
        prev = 0
        for c in list(cuts) + [len(data)]:
            pieces.append(data[prev:c])
            prev = c
        try:
            for i, piece in enumerate(pieces):
                p.stdin.write(piece)
                p.stdin.flush()
                if i < len(pieces) - 1:
                    if wait_output:
                        dl = time.time() + 20
                        while len(bufs["o"]) < wait_output and time.time() < dl and p.poll() is None:
                            time.sleep(0.02)
                    time.sleep(delays_ms[min(i, len(delays_ms) - 1)] / 1000.0)
            p.stdin.close()
        except (BrokenPipeError, OSError):
            pass
        try:
            rc = p.wait(timeout=timeout)
        except subprocess.TimeoutExpired:
            p.kill()
            p.wait()
            rc = 124
        for t in ts:
            t.join(5)
        return rc, bytes(bufs["o"]), bytes(bufs["e"])

    def run_tsan(self, jobs):
        exe = vlib.build_lbzip2("tsan")
        rel = vlib.build_lbzip2("rel")
        comp_cache = {}
        supp = os.path.join(self.work, "tsan.supp")
        with open(supp, "w") as f:
            f.write("# no suppressions: the unchanged tree is report-free (measured)\n")

        def one(job):
            kind, args, data, seed, plan = (tuple(job) + (None,))[:5]
            plan = dict(plan) if plan else None
            if data == "damaged":
                good = comp_cache["d"]
                pos = len(good) // 2 + (seed % 1000)
                data = good[:pos] + bytes([good[pos] ^ 0x5A]) + good[pos + 1:]
            elif data == "trailing":
                good = comp_cache["d"]
                blk = 262144                        # in_granul of decompression (a multiple of the -s value)
                nblk = (len(good) - 4 + blk - 1) // blk
                first = good + bytes(4 + nblk * blk - len(good)) + bytes(16)
                data = first + bytes(1000)
                plan["cuts"] = [len(first)]
                plan["wait_output"] = len(self.tsan_plain)
            elif data == "twostreams":
                good = comp_cache["d"]
                data = good + good
                plan["cuts"] = [len(good)]
            if data is None:
                base = self.tsan_plain
                if "d" not in comp_cache:
                    rc, out, err = vlib.shb([rel, "-1", "-n2"], input=base, timeout=120)
                    comp_cache["d"] = out
                data = comp_cache["d"]
            env = {"LBZIP2_VERIF_SCHED": str(seed), "TSAN_OPTIONS": "halt_on_error=0 report_signal_unsafe=0 exitcode=66 suppressions=" + supp}
            t0 = time.time()
            damaged = kind == "decompress-damaged"
            if plan:
                rc, out, err = self.timed_run([exe] + args, data, plan["cuts"], plan["delays_ms"], plan.get("wait_output"), env, 240)
            else:
                rc, out, err = vlib.shb([exe] + args, input=data, env=env, timeout=8 if damaged else 240)
            rep = err.decode("latin-1") if b"ThreadSanitizer" in err else ""
            control = None
            if damaged:
                # Tool artefact (investigated with gdb): the failing worker keeps the stdio lock of stderr
                # on purpose (flockfile() in failf(), then bailout() -> pthread_exit()); the main thread then
                # calls _exit(1), which does not touch stdio - but TSan's _exit interceptor calls
                # fflush(stderr) and blocks on that lock for ever (main: _exit -> _IO_fflush ->
                # _IO_stdfile_2_lock).  The rel build of the same tree exits with status 1 at once (control
                # run below).  "thread leak" (threads not joined at _exit) is expected on this path too.
                # Only other reports are kept; the timeout of the TSan build is tolerated.
                blocks = [b for b in rep.split("==================") if "WARNING: ThreadSanitizer" in b and "thread leak" not in b]
                rep = "==================".join(blocks)
                t1 = time.time()
                crc, cout, cerr = vlib.shb([rel] + args, input=data, env={"LBZIP2_VERIF_SCHED": str(seed)}, timeout=60)
                control = {"rc": crc, "wall_s": round(time.time() - t1, 2)}
            return {"kind": kind, "args": args, "seed": seed, "rc": rc, "wall_s": round(time.time() - t0, 2),
                    "in_len": len(data), "out_len": len(out), "report": rep, "control_rel": control, "_input": data, "plan": plan,
                    "stderr_tail": err.decode("latin-1")[-300:] if rc not in (0, 66) else ""}
        self.tsan_plain = jobs[0][2] if jobs and isinstance(jobs[0][2], bytes) else b"x" * 100000
        # compressed input for the decompression jobs is made once, before the pool
        rc, out, err = vlib.shb([rel, "-1", "-n2"], input=self.tsan_plain, timeout=120)
        comp_cache["d"] = out
        with ThreadPoolExecutor(max_workers=max(2, min(8, vlib.NCPU // 2))) as ex:
            return list(ex.map(one, jobs))

    @staticmethod
    def pack_input(data):
        import base64
        import zlib
        return base64.b64encode(zlib.compress(data, 9)).decode()

    @staticmethod
    def public(r):
        return {k: v for k, v in r.items() if k not in ("report", "_input")}

    @staticmethod
    def tsan_summary(report):
        """(kind, variable or None, functions) of the first report"""
        m = re.search(r"WARNING: ThreadSanitizer: ([^\n(]+)", report)
        kind = m.group(1).strip() if m else "?"
        g = re.search(r"Location is global '([^']+)'", report)
        funcs = re.findall(r"#\d+ (\w+) [^\n]*?/src/(\w+\.c):(\d+)", report)
        return kind, (g.group(1) if g else None), funcs[:6]

    def direct(self):
        t0 = time.time()
        nseeds = 1 if self.tier == "quick" else 10
        sizes = (400000,) if self.tier == "quick" else (400000, 1500000, 3000000)
        jobs = self.tsan_jobs(nseeds, sizes)
        runs = self.run_tsan(jobs)
        self.tsan_runs = runs
        viols = []
        bad_rc = [r for r in runs if (r["kind"] not in ("decompress-damaged", "decompress-trailing-late") and r["rc"] not in (0, 66)) or
                  (r["kind"] == "decompress-trailing-late" and r["rc"] not in (0, 4, 66)) or
                  (r["kind"] == "decompress-damaged" and (r["control_rel"] or {}).get("rc") != 1)]
        dam = [r for r in runs if r["kind"] == "decompress-damaged"]
        if dam:
            self.notes.append("damaged-input runs: %d; rel-build control exit statuses %s in at most %.2fs; TSan-build timeouts tolerated "
                              "(tool artefact: TSan's _exit interceptor fflush(stderr) blocks on the stdio lock the failing worker keeps; "
                              "'thread leak' reports dropped): %d" % (
                                  len(dam), sorted(set(r["control_rel"]["rc"] for r in dam)), max(r["control_rel"]["wall_s"] for r in dam),
                                  sum(1 for r in dam if r["rc"] == 124)))
        reports = [r for r in runs if r["report"]]
        self.notes.append("TSan smoke (testing, support only): %d runs (%s), %d with a ThreadSanitizer report, %d abnormal exits, %.1fs" % (
            len(runs), ",".join(sorted(set(r["kind"] for r in runs))), len(reports), len(bad_rc), time.time() - t0))
        for r in reports[:3]:
            kind, var, funcs = self.tsan_summary(r["report"])
            viols.append(Violation("tsan:%s:%s" % (kind, var or (funcs[0][0] if funcs else "?")),
                                   "ThreadSanitizer reports a %s%s in lbzip2 %s (LBZIP2_VERIF_SCHED=%d): %s" % (
                                       kind, " on '%s'" % var if var else "", " ".join(r["args"]), r["seed"],
                                       ", ".join("%s (%s:%s)" % f for f in funcs[:3])),
                                   {"how": "build with clang -fsanitize=thread (vlib.build_lbzip2('tsan')); "
                                           "LBZIP2_VERIF_SCHED=%d lbzip2-tsan %s < input (input kind: %s, %d bytes, generated from VERIF_SEED)" % (
                                               r["seed"], " ".join(r["args"]), r["kind"], r["in_len"]),
                                    "run": self.public(r), "tsan_run": self.public(r), "input_zlib_b64": self.pack_input(r["_input"]),
                                    "tsan_report": r["report"][:6000]}))
        for r in bad_rc[:2]:
            self.broken.append(Broken("direct", "TSan run exited abnormally", json.dumps(self.public(r))))
        return viols

    # ---- ownership part: diagnosis with the translator's reference checker ------------
    def own_model(self):
        if not hasattr(self, "_own"):
            import gen_own
            self._own = gen_own.translate(vlib.REPO)
        return self._own

    def own_search(self):
        """which hand-over rule the current source breaks (the verdict is Coq's own_check; this is the
        same algorithm in python, used only to name the site)"""
        import gen_own
        viols = []
        try:
            T = self.own_model()
        except Exception as ex:
            if any(b.what.startswith("Gen/OwnProg.v") for b in self.broken):
                viols.append(Violation("ownership:untranslatable",
                                       "the hand-over skeleton of the current source cannot be transcribed: %s" % str(ex)[:300],
                                       {"error": str(ex)}, found_input=False))
            return viols
        diags = gen_own.diagnose(T)
        reports = [r for r in getattr(self, "tsan_runs", []) if r["report"]]
        seen = set()
        for scen, thread, site, msg in diags:
            key = site or msg
            if key in seen:
                continue
            seen.add(key)
            fn_line = (site or "").rsplit(":", 1)
            fn = fn_line[0].split(":")[-1] if site else ""
            hit = None
            for r in reports:
                for block in r["report"].split("=================="):
                    if "ThreadSanitizer" in block and fn and re.search(r"\b%s\b" % re.escape(fn), block):
                        hit = (r, block)
                        break
                if hit:
                    break
            payload = {"scenario": scen, "thread": thread, "site": site, "rule": msg,
                       "how": "cd /verif && VERIF_REPO=%s ./check C12   (python3 lib/gen_own.py %s prints the same diagnosis)" % (vlib.REPO, vlib.REPO)}
            summary = "heap ownership (scenario %s, thread %s) at %s: %s" % (scen, thread, site or "?", msg)
            if hit:
                r, block = hit
                payload["tsan_report"] = block[:6000]
                payload["tsan_run"] = self.public(r)
                payload["input_zlib_b64"] = self.pack_input(r["_input"])
                summary += "; exhibited by ThreadSanitizer: lbzip2 %s (%s), LBZIP2_VERIF_SCHED=%d" % (" ".join(r["args"]), r["kind"], r["seed"])
            viols.append(Violation("ownership:" + (site or msg[:60]), summary, payload, found_input=bool(hit)))
        return viols[:6]

    # ---- search -----------------------------------------------------------------
    def search(self):
        viols = self.own_search()
        res = None
        try:
            res = self.run_extracted()
        except Exception as ex:
            self.notes.append("extracted checker not available: %s" % str(ex)[-300:])
        suspects = []
        if res is not None:
            seen = set()
            for sname, sc in res["scenarios"].items():
                specs = [s for s in self.model().scenarios if s["name"] == sname][0]["specs"]
                for f, g in sc["bad"]:
                    key = f["var"]
                    if key in seen:
                        continue
                    seen.add(key)
                    suspects.append((sname, specs, f, g))
            for ff in res["flowfailed"]:
                self.notes.append("analysis could not be completed for scenario %s, class index %s (loop invariant not found, "
                                  "unresolved/untranscribed callee or recursion)" % tuple(ff))
        if res is not None and res["flowfailed"]:
            uns = getattr(self.model(), "unsupported", {})
            viols.append(Violation("lockset:analysis-incomplete",
                                   "the lockset analysis cannot be completed on the current source (scenario/class %s): %s" % (
                                       ", ".join("/".join(x) for x in res["flowfailed"]),
                                       ("functions that cannot be transcribed: " + "; ".join(sorted(uns.values()))) if uns else
                                       "no loop invariant found, unresolved indirect call or recursion"),
                                   {"flowfailed": res["flowfailed"], "unsupported": uns}, found_input=False))
        if not suspects:
            return viols
        # try to exhibit it with ThreadSanitizer
        # scenarios in which the named access sites are reachable come first: sites in the reader
        # thread's functions / expand.c need input that arrives while the parser has finished or
        # waits (timed pipe), compress.c sites need compression, copy_* the -cdf pipeline
        fns = set()
        for sname, specs, f, g in suspects:
            for x in (f, g):
                fns.add(x["site"].rsplit(":", 1)[0].split("<")[0])
        reader = any(re.search(r"on_input_avail|source_thread_proc|source_release_buffer|source_close|xread", x) for x in fns)
        classes = []
        if reader or any(x.startswith("expand.c") for x in fns):
            classes.append("decompress")
        if reader or any(x.startswith("compress.c") for x in fns):
            classes.append("compress")
        if reader or any("copy" in x for x in fns):
            classes.append("copy")
        plain = bytes((self.rng.below(64) if (i // 4096) % 3 else 65) for i in range(400000))
        nlate = 6 if self.tier == "quick" else 15
        jobs = self.late_jobs(plain, nlate, classes or ("decompress", "compress", "copy"), workers=(1, 1, 2, 4))
        jobs = [j for j in jobs if j[2] is not None and not isinstance(j[2], str)][:0] + jobs   # keep order
        if jobs and not isinstance(jobs[0][2], bytes):
            jobs.insert(0, ("compress", ["-n2", "-1"], plain, self.rng.range(1, 1 << 30), None))   # defines the plaintext
        jobs += self.tsan_jobs(3 if self.tier == "quick" else 10, late=0)
        runs = list(getattr(self, "tsan_runs", []))
        try:
            runs += self.run_tsan(jobs)
        except vlib.BuildError as ex:
            self.notes.append("tsan build failed: " + str(ex)[-300:])
        reports = [r for r in runs if r["report"]]
        for sname, specs, f, g in suspects[:6]:
            var = f["var"]
            base = var.split(":")[-1].split(".")[0]
            fn_sites = set(x["site"].rsplit(":", 1)[0].split(":")[-1].split("<")[0] for x in (f, g))
            lines = set(x["site"].rsplit(":", 1)[1] for x in (f, g))
            hit = None
            for r in reports:
                rep = r["report"]
                for block in rep.split("=================="):
                    if "ThreadSanitizer" not in block:
                        continue
                    if re.search(r"global '%s'" % re.escape(base), block) or \
                            (any(re.search(r"\b%s\b" % re.escape(fn), block) for fn in fn_sites) and
                             any(re.search(r"\.c:%s\b" % l, block) for l in lines)):
                        hit = (r, block)
                        break
                if hit:
                    break

            def desc(x):
                return "%s %s at %s by class %s holding {%s}%s" % (
                    "write" if x["write"] else "read", x["var"], x["site"], specs[x["class"]]["name"],
                    ",".join(x["locks"]), "" if x["conc"] else " (outside its create..join phase)")
            summary = "shared variable `%s` (scenario %s): %s  AND  %s  - no common mutex, not ordered by create/join" % (
                var, sname, desc(f), desc(g))
            payload = {"variable": var, "scenario": sname, "access_1": f, "access_2": g,
                       "how": "cd /verif && VERIF_REPO=%s ./check C12   (diagnosis: .work/bin/lock_model)" % vlib.REPO}
            if hit:
                r, block = hit
                payload["tsan_report"] = block[:6000]
                payload["tsan_command"] = "LBZIP2_VERIF_SCHED=%d %s %s < <%s input of %d bytes%s>" % (
                    r["seed"], vlib.build_lbzip2("tsan"), " ".join(r["args"]), r["kind"], r["in_len"],
                    (", through a pipe: cut at %s, pauses %s ms%s" % (r["plan"]["cuts"], r["plan"]["delays_ms"],
                     ", the tail only after %s output bytes" % r["plan"]["wait_output"] if r["plan"].get("wait_output") else ""))
                    if r.get("plan") else "")
                payload["tsan_run"] = self.public(r)
                payload["input_zlib_b64"] = self.pack_input(r["_input"])
                summary += "; exhibited by ThreadSanitizer: lbzip2 %s (%s), LBZIP2_VERIF_SCHED=%d" % (" ".join(r["args"]), r["kind"], r["seed"])
            viols.append(Violation("lockset:" + var, summary, payload, found_input=bool(hit)))
        return viols

    # ---- evidence extras: run after the pipeline pieces (called from correspond via run) ----
    def run(self):
        # add the classification to the notes once the proof build has happened
        orig = self.correspond

        def wrapped():
            cov = orig()
            try:
                res = self.run_extracted()
                cl = self.classify(res)
                cov["checker_verdict_extracted"] = res["verdict"]
                cov["facts"] = {k: len(v["facts"]) for k, v in res["scenarios"].items()}
                cov["tracked_variables"] = len(res["tracked"])
                rules = {}
                for v, rule in cl["globals"].items():
                    key = rule.split(" ")[0]
                    rules[key] = rules.get(key, 0) + 1
                cov["globals_by_rule"] = rules
                cov["globals_rule_detail"] = {v: r for v, r in sorted(cl["globals"].items()) if not r.startswith("read-only")}
                cov["heap_classes_locked"] = cl["heap_locked"]
                cov["heap_classes_unlocked_relying_on_ownership"] = cl["heap_unlocked"]
                cov["untracked_globals"] = sorted(v for v in self.model().ids["V"].names
                                                  if not v.startswith("heap:") and v not in res["tracked"])
            except Exception as ex:
                self.notes.append("classification not available: %s" % str(ex)[-300:])
            return cov
        self.correspond = wrapped
        return PropertyCheck.run(self)

    def replay(self, path):
        p = json.load(open(path))
        print(json.dumps({k: p.get(k) for k in ("key", "summary", "variable", "tsan_command")}, indent=1))
        if p.get("tsan_run"):
            import base64
            import zlib
            r = p["tsan_run"]
            data = zlib.decompress(base64.b64decode(p["input_zlib_b64"])) if p.get("input_zlib_b64") else None
            jobs = [(r["kind"] if data is None else "replay", r["args"], data, r["seed"], r.get("plan"))]
            for attempt in range(5):
                out = self.run_tsan(jobs)
                if out[0]["report"]:
                    print(out[0]["report"][:3000])
                    return 1
            print("no ThreadSanitizer report in 5 attempts (schedule dependent)")
            return 0
        res = self.run_extracted()
        bad = sum(len(s["bad"]) for s in res["scenarios"].values())
        print("extracted checker verdict:", res["verdict"], "failing pairs:", bad)
        return 0 if res["verdict"] else 1
