"""Shared helpers for the compression-side properties (C01, C02, C20): plaintext
generator G1, the in-process block encoder harness, the extracted encoder-side
model, round trips through the real binary."""
import bz2
import hashlib
import os
import subprocess
import sys
from concurrent.futures import ThreadPoolExecutor

import vlib
import declib
from runner import Broken, Violation

ENC_GEN = ["Consts.v", "CrcTab.v", "DecTabs.v"]
ENC_TRUSTED = declib.DEC_TRUSTED + [
    "encoder side: BWT is specified as the last column of the sorted rotation matrix with ANY row equal to the block as primary "
    "index (divbwt.c, 1.7 kLOC, is modelled by this specification, not verified); the choices of generate_prefix_code() "
    "(tables, selectors, padding) enter the model as a WITNESS that must satisfy witness_ok; the bit layout of transmit() is "
    "modelled exactly (Enc/EncModel.write_block) and compared byte for byte with the real transmit() on the real witness "
    "(harness/enc_h_block.c includes src/encode.c)",
    "Enc/GenModel.v: hand-written executable model of generate_prefix_code() (number of trees, initial trees, EM iterations with the packed "
    "10-bit cost fields, make_code_lengths, tree reordering / removal, dummy second tree, assign_codes via Enc/PmModel.v); Properties_C02gen "
    "proves that its result ALWAYS satisfies the table/selector part of witness_ok (2..6 complete tables with lengths 1..20, selectors < "
    "#tables, count = ceil(nm/50) <= 18001) for every symbol vector, cluster factor and every admissible make_code_lengths, with no "
    "out-of-bounds access or failed assert; tied to encode.c by harness/gen_h.c (ASan+UBSan+asserts, poisoned state: nt, cost, selectors in "
    "both numberings, tmap, every transmitted table) and on the real mtfv of whole blocks (gen_part.check_blocks). Enc/EncodeModel.v models "
    "encode() from the MTF stage on (cost arithmetic, packed selector MTF, tree_pad and surplus selector) and Properties_C02enc proves "
    "that every computed block is byte aligned with |write_block| = 8 * out_expect_len, that every value the padded first table walks "
    "through stays in 1..20, and the round trip/strictness with EVERYTHING computed (C02enc_stream_total); tied on whole blocks: "
    "tree_pad, num_selectors, selectorMTF[], out_expect_len and the complete bytes of transmit() (encode_part.check_blocks). The ONLY "
    "remaining witness is the BWT primary index (valid_idxb); make_code_lengths() is proved total for every "
    "frequency row with 3..258 entries and sum <= 3524319 (Huffman depth <= 30 by a Fibonacci argument on THIS two-queue construction; "
    "all asserts of build_tree/compute_depths hold), so Properties_C02gen_total states the round trip and strictness with computed tables "
    "and selectors without any proviso (C02gen_stream_total)",
]


def gen_plain(rng, maxlen=1200):
    """G1 plaintexts aimed at the case splits of the encoder."""
    kind = rng.below(14)
    n = rng.below(maxlen) + 1
    if kind == 0:
        return bytes([rng.below(256)]) * rng.choice([1, 2, 3, 4, 5, 255, 256, 258, 259, 260, 261, 518, 519, n])
    if kind == 1:
        out = bytearray()
        while len(out) < n:
            out += bytes([rng.below(4) + 65]) * rng.choice([1, 1, 2, 3, 4, 5, 6, 255, 258, 259, 260])
        return bytes(out)
    if kind == 2:  # Fibonacci word
        a, b = b"a", b"ab"
        while len(b) < n:
            a, b = b, b + a
        return b[:n]
    if kind == 3:  # Thue-Morse
        return bytes(97 + bin(i).count("1") % 2 for i in range(n))
    if kind == 4:  # tandem repeats u^k
        u = bytes(rng.below(3) + 97 for _ in range(rng.range(1, 7)))
        return (u * (n // len(u) + 1))[:max(len(u), n - n % len(u))]
    if kind == 5:
        return bytes(range(256)) + bytes(rng.below(256) for _ in range(n % 300))
    if kind == 6:
        return bytes(rng.below(2) for _ in range(n))
    if kind == 7:
        return bytes(rng.below(3) + 48 for _ in range(n))
    if kind == 8:
        return bytes(rng.below(16) for _ in range(n))
    if kind == 9:  # MTF lengths around the table-count thresholds 150/300/600/1200/2400
        target = rng.choice([150, 300, 600, 1200, 2400]) + rng.range(-2, 2)
        return bytes(rng.below(256) for _ in range(max(1, target - 1)))
    if kind == 10:
        return b""
    if kind == 11:  # skewed (geometric) frequencies -> long codes
        out = bytearray()
        for _ in range(n):
            k = 0
            while k < 30 and rng.chance(1, 2):
                k += 1
            out.append(k)
        return bytes(out)
    if kind == 12:  # Fibonacci-like frequencies force the length-limited (package-merge) path
        out = bytearray()
        a, b = 1, 1
        for s in range(24):
            out += bytes([s]) * a
            a, b = b, a + b
            if len(out) > 60000:
                break
        return bytes(rng.shuffle(list(out[:rng.choice([2000, 20000, 60000])])))
    return bytes(rng.below(256) for _ in range(n))


HARNESS_FLAVOR = ["dbg"]   # search() switches to "rel" (asserts compiled out, like the shipped build)


def harness():
    fl = HARNESS_FLAVOR[0]
    return vlib.build_c("enc_h_block" + ("" if fl == "dbg" else "-" + fl), ["enc_h_block.c", os.path.join(vlib.REPO, "src", "divbwt.c"),
                                        os.path.join(vlib.REPO, "src", "crctab.c")], flavor=fl)


def model_driver():
    return vlib.build_ocaml("enc_model", os.path.join(vlib.COQ, "Extract", "ml"), ["enc_model"], "enc_driver.ml")


def parse_kv(line):
    toks = line.split()
    return toks[0] if toks else "", dict(t.split("=", 1) for t in toks[1:] if "=" in t)


def run_harness(cases, timeout=600):
    """cases: list of (M, data bytes).  Returns list of (status, kv)."""
    exe = harness()
    shards = max(1, min(vlib.NCPU, len(cases) // 10 + 1))
    parts = [cases[i::shards] for i in range(shards)]

    def work(part):
        inp = "".join("%d %s\n" % (m, d.hex() if d else "-") for m, d in part).encode()
        p = subprocess.run([exe], input=inp, stdout=subprocess.PIPE, stderr=subprocess.PIPE, timeout=timeout)
        lines = p.stdout.decode().splitlines()
        lines += ["CRASH rc=%s err=%s" % (p.returncode, p.stderr.decode()[-300:].replace(" ", "_"))] * (len(part) - len(lines))
        return lines
    with ThreadPoolExecutor(shards) as ex:
        res = list(ex.map(work, parts))
    out = [None] * len(cases)
    for s, lines in enumerate(res):
        for k, l in enumerate(lines):
            out[s + k * shards] = parse_kv(l) + (l,)
    return out


def run_prefix(mtfvs, timeout=600):
    """generate_prefix_code() alone on given MTF symbol vectors (each ending in EOB)"""
    exe = harness()

    def work(v):
        p = subprocess.run([exe], input=("P %s\n" % ",".join(map(str, v))).encode(), stdout=subprocess.PIPE, stderr=subprocess.PIPE, timeout=timeout)
        l = p.stdout.decode().strip()
        return parse_kv(l) + (l,) if l else ("CRASH", {}, "rc=%s %s" % (p.returncode, p.stderr.decode()[-200:]))
    with ThreadPoolExecutor(vlib.NCPU) as ex:
        return list(ex.map(work, mtfvs))


def run_model(cases, hres, timeout=1200):
    """feed the real witnesses to the extracted model; returns list of kv (or None)."""
    exe = model_driver()
    idx = [i for i, r in enumerate(hres) if r[0] == "OK"]
    shards = max(1, min(vlib.NCPU, len(idx) // 4 + 1))
    parts = [idx[i::shards] for i in range(shards)]

    def work(part):
        inp = "".join("W %d %s\n" % (cases[i][0], hres[i][2][3:]) for i in part).encode()
        p = subprocess.run([exe], input=inp, stdout=subprocess.PIPE, stderr=subprocess.PIPE, timeout=timeout)
        lines = p.stdout.decode().splitlines()
        lines += ["CRASH=%s" % p.returncode] * (len(part) - len(lines))
        return lines
    with ThreadPoolExecutor(shards) as ex:
        res = list(ex.map(work, parts))
    out = [None] * len(cases)
    for part, lines in zip(parts, res):
        for i, l in zip(part, lines):
            out[i] = dict(t.split("=", 1) for t in l.split() if "=" in t)
    return out


def block_cases(rng, n, max_m=1500):
    cases = []
    for _ in range(n):
        d = gen_plain(rng, 900)
        if not d:
            continue
        m = rng.choice([1, 2, 3, 4, 5, 6, 7, 10, 50, len(d), len(d) + 1, max(1, len(d) - 1), rng.range(1, max_m), max_m])
        m = min(m, max_m)
        cases.append((m, d[:4000]))
    return cases


def encoder_correspondence(check, cases, gen_vectors=False):
    """byte-exact: real transmit() output vs write_block on the real witness; witness_ok; MTF symbols;
    model of generate_prefix_code() on the real mtfv of every block (and, with gen_vectors, on generated symbol vectors)."""
    hres = run_harness(cases)
    mres = run_model(cases, hres)
    gen_stats = {}
    try:
        import gen_part
        gen_stats["gen_blocks"] = gen_part.check_blocks(check, hres)
        import encode_part
        gen_stats["encode_blocks"] = encode_part.check_blocks(check, hres, cases)
        if gen_vectors:
            g = gen_part.correspond(check) or {}
            gen_stats["gen_vectors"] = {k: v for k, v in g.items() if k != "samples"}
    except vlib.BuildError:
        raise
    except Exception as e:
        check.broken.append(Broken("correspondence", "gen_part (model of generate_prefix_code) crashed", repr(e)[:800]))
    stats = {"blocks": 0, "disagreements": 0, "witness_not_ok": 0, "nt_hist": {}, "pad_hist": {}, "maxlen_hist": {}}
    stats.update(gen_stats)
    for (m, d), (st, kv, raw), mk in zip(cases, hres, mres):
        if st != "OK":
            if st != "EMPTY":
                check.broken.append(Broken("correspondence", "encoder harness failed on M=%d input %s" % (m, d.hex()[:80]), raw[:300]))
                stats["disagreements"] += 1
            continue
        stats["blocks"] += 1
        stats["nt_hist"][kv["nt"]] = stats["nt_hist"].get(kv["nt"], 0) + 1
        stats["pad_hist"][kv["pad"]] = stats["pad_hist"].get(kv["pad"], 0) + 1
        ml = max(max(int(x) for x in kv["len%d" % t].split(",")) for t in range(int(kv["nt"])))
        stats["maxlen_hist"][str(ml)] = stats["maxlen_hist"].get(str(ml), 0) + 1
        if mk is None or "out" not in mk:
            check.broken.append(Broken("correspondence", "extracted encoder model failed on M=%d" % m, str(mk)[:200]))
            stats["disagreements"] += 1
            continue
        bad = []
        if mk["out"] != kv["out"]:
            bad.append("block bytes differ")
        if mk["syms"] != kv["mtfv"]:
            bad.append("MTF/zero-run symbols differ")
        if mk["ok"] != "true":
            bad.append("witness_ok is false (tables/selectors/index chosen by the encoder violate the strict format)")
            stats["witness_not_ok"] += 1
        if bad:
            stats["disagreements"] += 1
            if stats["disagreements"] <= 5:
                check.broken.append(Broken("correspondence", "%s for M=%d input_hex=%s" % ("; ".join(bad), m, d.hex()[:300]),
                                           "impl_out=%s model_out=%s" % (kv["out"][:200], mk["out"][:200])))
    return hres, mres, stats


def stream_of_block(kv, level=9):
    """a complete one-block stream around the harness output"""
    crc = int(kv["crc"])
    return b"BZh" + bytes([0x30 + level]) + bytes.fromhex(kv["out"]) + bytes.fromhex("177245385090") + crc.to_bytes(4, "big")


def run_compress(files, level=1, seq=False, nworkers=(1, 2, 3, 4, 8, 16), flavor="rel", timeout=120):
    exe = vlib.build_lbzip2(flavor)

    def work(iv):
        i, f = iv
        nw = nworkers[i % len(nworkers)]
        args = [exe, "-n%d" % nw, "-%d" % level] + (["-u"] if seq else [])
        try:
            p = subprocess.run(args, input=f, stdout=subprocess.PIPE, stderr=subprocess.PIPE, timeout=vlib.hang_timeout(timeout))
        except subprocess.TimeoutExpired:
            vlib.note_hang()
            return (None, "HANG", b"")
        return (p.stdout, p.returncode, p.stderr)
    with ThreadPoolExecutor(vlib.NCPU) as ex:
        return list(ex.map(work, list(enumerate(files))))


def run_decompress(files, nworkers=(1, 4, 2, 16), flavor="rel", timeout=120):
    exe = vlib.build_lbzip2(flavor)

    def work(iv):
        i, f = iv
        nw = nworkers[i % len(nworkers)]
        try:
            p = subprocess.run([exe, "-n%d" % nw, "-d"], input=f, stdout=subprocess.PIPE, stderr=subprocess.PIPE, timeout=vlib.hang_timeout(timeout))
        except subprocess.TimeoutExpired:
            vlib.note_hang()
            return (None, "HANG", b"")
        return (p.stdout, p.returncode, p.stderr)
    with ThreadPoolExecutor(vlib.NCPU) as ex:
        return list(ex.map(work, list(enumerate(files))))


def boundary_plains(rng, level=1, n=24):
    """runs of equal bytes placed right at the block capacity / chunk boundary (level*100000 RLE bytes)"""
    M = 100000 * level
    out = []
    noise = bytes((i * 7 + (i >> 3)) % 251 for i in range(M + 600))      # no run of 4 equal bytes
    for _ in range(n):
        k = rng.range(0, 9)
        r = rng.choice([3, 4, 5, 6, 7, 8, 255, 258, 259, 260, 263])
        c = rng.below(256)
        pre = noise[:M - k]
        if pre and pre[-1] == c:
            c = (c + 1) % 256
        out.append(pre + bytes([c]) * r + noise[:rng.range(0, 300)])
    return out


def big_plains(rng, quick):
    """a few larger inputs for process-level runs (several blocks at level 1/2)"""
    out = []
    out.append(bytes(rng.below(256) for _ in range(250000)))                  # incompressible, 3 blocks at -1
    out.append((b"abcdefghij" * 7 + b"\n") * 5000)                               # repetitive
    out.append(b"\0" * 1000000)                                                   # long runs
    out.append(bytes(rng.below(4) for _ in range(100001)))                     # just over one chunk
    out.append(bytes(rng.below(256) for _ in range(99999)) + b"zzzzzz")        # run across the chunk boundary
    # a block that compresses slowly followed by many that compress fast (index 5 -> -n16? no: keep it at a small worker count, see
    # run_compress: worker count = nworkers[index % 6]; two copies so that -n2/-n3/-n4 are among them): the fast blocks must not take
    # the output slots the slow one needs
    slowfast = bytes(rng.below(256) for _ in range(100000)) + b"\0" * 2400000
    out.insert(1, slowfast)
    out.insert(2, slowfast)
    out.insert(3, slowfast)
    if not quick:
        out.append(bytes(rng.below(7) for _ in range(2000000)))
        a, b = b"a", b"ab"
        while len(b) < 1500000:
            a, b = b, b + a
        out.append(b)
    return out


def deep_table_plains(quick=True):
    """inputs whose first coding groups use a 20-deep (length-limited) prefix table in which RUNA is an unused symbol of length 18/19:
    records <payload byte> 0x00 <counter digits>; the counter makes the rotations starting with 0x00 sort in record order, so the BWT
    output starts with the payload bytes in the chosen order; the payloads are produced by running a move-to-front list backwards from
    ranks 1..20 with geometric frequencies (never rank 0).  The padding rule of transmit() for the first table is exercised with a
    starting length near the 20-bit limit; extra records vary the block's bit length (the padding residue)."""
    out = []
    variants = [(21, 1.75, 0.3, 0), (21, 1.75, 0.3, 1), (21, 1.75, 0.3, 2), (21, 1.75, 0.3, 3)]
    if not quick:
        variants += [(21, 1.75, 1.0, 0), (21, 1.8, 0.2, 1), (21, 1.7, 0.5, 2), (20, 1.75, 0.4, 0), (21, 1.75, 0.3, 5), (21, 1.75, 0.3, 7)]
    for K, ratio, scale, extra in variants:
        ranks = []
        for r in range(1, K):
            ranks += [r] * max(1, int(scale * ratio ** (K - 1 - r)))
        rng = vlib.SplitMix(K * 1000 + int(ratio * 100) + extra)
        ranks = rng.shuffle(ranks)
        lst = list(range(1, K + 1))
        d0, ndig, radix = K + 1, 6, 8
        buf = bytearray()
        for i, r in enumerate(ranks + [1] * extra):
            c = lst.pop(r)
            lst.insert(0, c)
            buf.append(c)
            buf.append(0)
            v, digs = i, []
            for _ in range(ndig):
                digs.append(v % radix)
                v //= radix
            digs.reverse()
            for q, dg in enumerate(digs):
                buf.append(d0 + q * radix + dg)
        out.append(bytes(buf))
    return out


def maxgroups_plain():
    """900000 bytes whose single level-9 block carries 900000 MTF symbols + EOB = 18001 coding groups (the format's maximum):
    no four equal adjacent input bytes and no two adjacent zero MTF ranks after the BWT.  Deterministic; cached under .work/cache."""
    import hashlib
    path = os.path.join(vlib.WORK, "cache", "maxgroups_plain.bin")
    if os.path.exists(path) and os.path.getsize(path) == 900000:
        return open(path, "rb").read()
    N = 900000
    d = bytearray()
    i = 0
    while len(d) < N:
        d += hashlib.sha256(b"lbzip2-verif-maxgroups" + i.to_bytes(8, "big")).digest()
        i += 1
    d = d[:N]

    def no_quads():
        for j in range(3, N):
            if d[j] == d[j - 1] == d[j - 2] == d[j - 3]:
                d[j] ^= 0x55
    no_quads()
    for _ in range(60):
        dd = bytes(d) + bytes(d[:32])
        sa = sorted(range(N), key=lambda j: dd[j:j + 16])
        last = bytes(d[j - 1] for j in sa)
        first = min(set(d))
        zero = [last[0] == first] + [last[j] == last[j - 1] for j in range(1, N)]
        bad = [j for j in range(1, N) if zero[j] and zero[j - 1]]
        if not bad:
            os.makedirs(os.path.dirname(path), exist_ok=True)
            open(path, "wb").write(bytes(d))
            return bytes(d)
        for j in bad:
            q = (sa[j] - 1) % N
            d[q] = (d[q] + 0x6b) & 0xff
        no_quads()
    return bytes(d)


# ---- independent optimum for C20: length-limited minimum redundancy code (package-merge) ----
def optimal_limited_cost(freqs, maxlen):
    """minimum of sum f_i * l_i over complete prefix codes with all l_i in 1..maxlen (Larmore-Hirschberg)."""
    n = len(freqs)
    if n == 1:
        return freqs[0]
    if (1 << maxlen) < n:
        return None
    items = sorted((f, (i,)) for i, f in enumerate(freqs))
    leaves = [(f, {i: 1}) for f, (i,) in items]
    packages = list(leaves)
    for _ in range(maxlen - 1):
        merged = []
        for k in range(0, len(packages) - 1, 2):
            a, b = packages[k], packages[k + 1]
            d = dict(a[1])
            for s, c in b[1].items():
                d[s] = d.get(s, 0) + c
            merged.append((a[0] + b[0], d))
        packages = sorted(leaves + merged, key=lambda x: x[0])
    chosen = packages[:2 * n - 2]
    lens = [0] * n
    for w, d in chosen:
        for s, c in d.items():
            lens[s] += c
    return sum(f * l for f, l in zip(freqs, lens))


def table_usage(kv):
    """per transmitted table: symbol frequencies over the groups it codes (from the real witness)"""
    mtfv = [int(x) for x in kv["mtfv"].split(",")]
    sels = [int(x) for x in kv["sels"].split(",")]
    nt = int(kv["nt"])
    asz = int(kv["as"])
    freqs = [[0] * asz for _ in range(nt)]
    used = [False] * nt
    for g, t in enumerate(sels):
        used[t] = True
        for s in mtfv[50 * g:50 * g + 50]:
            freqs[t][s] += 1
    lens = [[int(x) for x in kv["len%d" % t].split(",")] for t in range(nt)]
    return freqs, lens, used
