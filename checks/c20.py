"""C20 - prefix tables are optimal for the symbols they code."""
import os

import vlib
import declib
import enclib
from runner import PropertyCheck, Broken, Violation


class Check(PropertyCheck):
    pid = "C20"
    props_module = "Properties.Properties_C20"
    extra_targets = ["Extract/ExtractEnc.vo", "Extract/ExtractPm.vo"]
    extra_props = ["Properties.Properties_C20pm"]
    gen_files = enclib.ENC_GEN
    trusted_base = enclib.ENC_TRUSTED + [
        "Enc/PmModel.v: hand-written executable model of the labelling loop, sort_alphabet(), weight_add, package_merge() (explicit "
        "stack count[], all 21 rows of tree[][]) and the per-height length derivation / cost / best-height choice of assign_codes(), "
        "with bounds-checked arrays and explicit uint32/uint64 arithmetic; tied to encode.c by harness/pm_h.c (#includes the real file, "
        "ASan+UBSan+asserts): leaf_weight[], the whole tree[21][21], length[] and the returned cost must agree on every generated "
        "frequency vector (checks/pm_part.py)",
        "the theorems C20pm_* (optimality among complete codes no longer than the table's longest code, completeness, <= 20 bits, no "
        "out-of-bounds/underflow/assert) hold for every frequency vector with 2..258 entries and 258 * sum < 2^32 (block size <= 900000 "
        "gives sum <= 900001); for larger sums the real assign_codes can trip its own assert (C20pm_sum_below_2p32_refuted) - unreachable",
        "NOT proved: that frequency[t] handed to assign_codes() is the count vector of the groups that finally select table t (the "
        "last iteration of generate_prefix_code re-assigns selectors before assign_codes: evaluated on the real encoder state of every "
        "generated block against an independent optimum, checks/enclib.optimal_limited_cost - that part is testing); code[]/base_code[] "
        "assignment is covered by C01/C02's layout correspondence"]
    assumptions = ["a table's frequencies are those of the symbols of the groups that select it (from the real encoder state)",
                   "258 * (sum of a table's frequencies) < 2^32"]

    def gen_cases(self):
        quick = self.tier == "quick"
        rng = self.rng
        cases = enclib.block_cases(rng, 200 if quick else 3000, 600 if quick else 1500)
        # single-table blocks for all alphabet sizes, flat / geometric / Fibonacci / spike frequency profiles
        for a in range(1, 257, 7 if quick else 1):
            prof = rng.below(4)
            out = bytearray()
            f1, f2 = 1, 1
            for s in range(a):
                if prof == 0:
                    cnt = 1
                elif prof == 1:
                    cnt = 1 + (1 << min(s, 9)) % 700
                elif prof == 2:
                    cnt = min(f1, 400)
                    f1, f2 = f2, f1 + f2
                else:
                    cnt = 300 if s == 0 else 1
                out += bytes([s]) * cnt
            data = bytes(rng.shuffle(list(out)))[:4000]
            cases.append((5000, data))
        cases.append((70000, enclib.gen_plain(vlib.SplitMix(12), 10) if False else bytes(rng.shuffle(
            [s for s, c in zip(range(24), [1, 1, 2, 3, 5, 8, 13, 21, 34, 55, 89, 144, 233, 377, 610, 987, 1597, 2584, 4181, 6765, 10946, 17711, 28657, 100]) for _ in range(min(c, 9000))]))))
        return cases

    def correspond(self):
        cases = self.gen_cases()
        self.cases = cases
        small = [(m, d) for m, d in cases if len(d) <= 1500 and m <= 1500]
        self.hres_small, self.mres, stats = enclib.encoder_correspondence(self, small)
        self.hres = enclib.run_harness(cases)
        # generate_prefix_code() directly on crafted symbol vectors: Fibonacci / geometric weights over 3..258 symbols
        rng = self.rng
        vecs = []
        for _ in range(12 if self.tier == "quick" else 120):
            asz = rng.choice([3, 4, 5, 17, 24, 30, 40, 100, 258, rng.range(3, 258)])
            w, a, b = [], 1, 1
            for s in range(asz - 1):
                w.append(a)
                if rng.chance(3, 4):
                    a, b = b, a + b
                if a > 200000:
                    a = b = 200000
            tot = sum(w)
            n = rng.choice([100, 1000, 20000, 120000])
            cum, acc = [], 0
            for x in w:
                acc += x
                cum.append(acc)
            import bisect
            v = [bisect.bisect_right(cum, rng.below(tot)) for _ in range(n)]
            vecs.append(v + [asz - 1])
        # exact Fibonacci weights over 30 symbols, ~850000 symbols: unrestricted Huffman depth > 20, forcing the length limit
        import bisect
        w, a, b = [], 1, 1
        for s_ in range(30):
            w.append(a)
            a, b = b, a + b
        cum, acc = [], 0
        for x in w:
            acc += x
            cum.append(acc)
        vecs.append([bisect.bisect_right(cum, rng.below(acc)) for _ in range(850000)] + [30])
        self.pvecs = vecs
        self.pres = enclib.run_prefix(vecs)
        for v, (st, kv, raw) in zip(vecs, self.pres):
            if st == "OK":
                self.hres.append((st, kv, raw))
                self.cases.append((0, b""))
            else:
                self.broken.append(Broken("correspondence", "generate_prefix_code harness failed", raw[:200]))
        ntab = 0
        distinct = set()
        for st, kv, raw in self.hres:
            if st == "OK":
                freqs, lens, used = enclib.table_usage(kv)
                for t in range(len(lens)):
                    if used[t]:
                        ntab += 1
                        distinct.add((tuple(freqs[t]), tuple(lens[t])))
        self.ntables = ntab
        import pm_part
        try:
            pm = pm_part.correspond(self) or {}
        except vlib.BuildError:
            raise
        except Exception as e:
            pm = {"evaluations": 0, "distinct_nontrivial": 0, "rule": "pm_part crashed"}
            self.broken.append(Broken("correspondence", "pm_part.correspond crashed", repr(e)[:800]))
        return {"evaluations": len(cases) + int(pm.get("evaluations", 0)), "distinct_nontrivial": len(distinct) + int(pm.get("distinct_nontrivial", 0)),
                "package_merge_correspondence": {k: v for k, v in pm.items() if k != "samples"},
                "rule": "G1 inputs plus single-table blocks for alphabet sizes 3..258 with flat/geometric/Fibonacci/spike frequencies and a "
                        "Fibonacci-weighted block that forces codes past 20 bits into the package-merge path; non-trivial = distinct "
                        "(frequency vector, length vector) pairs of USED tables",
                "samples": [{"M": m, "input_hex": d.hex()[:60], "impl": raw[:200]} for (m, d), (st, kv, raw) in list(zip(cases, self.hres))[:2]],
                "used_tables_checked_against_optimum": ntab, "encoder_stats": stats,
                "max_code_length_seen": max([max(max(l) for l in enclib.table_usage(kv)[1]) for st, kv, raw in self.hres if st == "OK"] or [0])}

    def direct(self):
        out = []
        for (m, d), (st, kv, raw) in zip(self.cases, self.hres):
            if st != "OK":
                continue
            freqs, lens, used = enclib.table_usage(kv)
            for t in range(len(lens)):
                if max(lens[t]) > 20 or min(lens[t]) < 1:
                    out.append(Violation("code-too-long", "table %d has a code length outside 1..20: %s" % (t, lens[t]),
                                         {"M": m, "input_hex": d.hex()[:4000], "table": t}))
                if not used[t]:
                    continue
                cost = sum(f * l for f, l in zip(freqs[t], lens[t]))
                best = enclib.optimal_limited_cost(freqs[t], max(lens[t]))
                if best is not None and cost > best:
                    out.append(Violation("suboptimal-table", "used table %d costs %d bits, a complete code no longer than %d bits costs %d (alphabet %d)" %
                                         (t, cost, max(lens[t]), best, len(lens[t])),
                                         {"M": m, "input_hex": d.hex()[:4000], "table": t, "freqs": freqs[t], "lens": lens[t], "optimum": best}))
            if len(out) >= 3:
                break
        return out

    def search(self):
        self.rng = vlib.SplitMix(self.seed + 55)
        enclib.HARNESS_FLAVOR[0] = "rel"
        self.cases = self.gen_cases()
        small = [(m, d) for m, d in self.cases if len(d) <= 1500]
        self.hres = []
        for c in self.cases:     # one process per case: a crash must not hide the other cases
            self.hres += enclib.run_harness([c])
        self.cases = list(self.cases)
        for v in getattr(self, "pvecs", []):
            r = enclib.run_prefix([v])[0]
            if r[0] == "OK":
                self.hres.append(r)
                self.cases.append((0, b""))
        out = self.direct()
        for (m, d), (st, kv, raw) in zip(self.cases, self.hres):
            if st == "CRASH" and len(out) < 3:
                out.append(Violation("encoder-crash", "the block encoder crashes (asserts compiled out) for M=%d on %d input bytes: %s" % (m, len(d), raw[:200]),
                                     {"M": m, "input_hex": d.hex()[:4000]}))
        return out

    def replay(self, path):
        import json
        p = json.load(open(path))
        if "input_hex" not in p:
            print(json.dumps(p.get("broken"), indent=1)[:3000])
            return 1
        self.cases = [(p["M"], bytes.fromhex(p["input_hex"]))]
        self.hres = enclib.run_harness(self.cases)
        v = self.direct()
        print([x.summary for x in v])
        return 1 if v else 0
