"""C20 helper - the prefix-code construction (sort_alphabet / package_merge / assign_codes of src/encode.c).

correspond(check): runs the REAL functions (harness/pm_h.c, which #includes the current /repo/src/encode.c;
built with ASan+UBSan and asserts) and the extracted Gallina model (coq/Enc/PmModel.v ->
Extract/ml/pm_model.ml, needs the target Extract/ExtractPm.vo) on the same frequency vectors and compares
  * the return value of assign_codes() (best cost, uint32) and length[0..as-1],
  * leaf_weight[0..as] after labelling + sort_alphabet(),
  * the whole tree[21][21] matrix after package_merge().
Mode "L" lines (258 * sum(freq) < 2^32, the range covered by the theorems of Enc/PmProofs.v, in which the real
assign_codes provably does not trip its assert()s) compare everything;
mode "T" lines (sum(freq) up to 2^32 - 1, where 64-bit weights may wrap and assign_codes may trip its own
assert()s - unreachable in lbzip2, whose frequencies sum to at most the block size) compare leaf_weight and tree only.
"""
import os

import vlib
from runner import Broken

MAXLEN = 20
MAX_ALPHA = 258
LIMIT_L = (1 << 32) // MAX_ALPHA   # L mode: MAX_ALPHA_SIZE * sum(freq) < 2^32 = pm_input_ok of Enc/PmProofs.v
LIMIT_T = (1 << 32) - 1


def build_harness(flavor="asan"):
    src = [os.path.join(vlib.REPO, "src", f) for f in ("crctab.c", "divbwt.c")]
    return vlib.build_c("pm_h-" + flavor, ["pm_h.c"] + src, flavor=flavor)


def build_model():
    return vlib.build_ocaml("pm_model", os.path.join(vlib.COQ, "Extract", "ml"), ["pm_model"], "pm_driver.ml")


# ---------------------------------------------------------------------------
# generators
# ---------------------------------------------------------------------------
def _fib(n):
    f = [1, 1]
    while len(f) < n:
        f.append(f[-1] + f[-2])
    return f[:n]


def _scale_to(f, limit):
    """Scale a vector down (integer division) until its sum is below limit."""
    s = sum(f)
    if s < limit:
        return f
    k = s // (limit - len(f) - 1) + 1
    return [x // k for x in f]


def gen_size(r):
    return r.choice([2, 2, 3, 3, 4, 5, 6, 7, 8, 9, 15, 16, 17, 21, 22, 23, 24, 31, 32, 33, 40, 64, 65, 100, 128, 129,
                     200, 255, 256, 257, 258, 258, r.range(2, 258), r.range(2, 258), r.range(2, 40), r.range(2, 40),
                     r.range(2, 12), r.range(2, 12)])


def gen_case(r, small=False):
    """Returns (mode, kind, freq list)."""
    n = gen_size(r)
    if small:
        n = r.choice([2, 3, 4, 5, 6, 7, 8, 9, 10, 12, 16, 17, 21, 22, 23, 25, 30, 33, r.range(2, 48)])
    kind = r.choice(["rand", "rand", "rand", "randz", "fib", "fib", "fibish", "geo", "geo", "equal", "zero", "fewvals",
                     "ties", "ties", "huge", "steps", "onebig", "overflow"])
    mode = "L"
    if kind == "rand":
        hi = r.choice([1, 2, 3, 10, 100, 1000, 50000, 900000])
        f = [r.range(0, hi) for _ in range(n)]
    elif kind == "randz":                      # many zeros
        hi = r.choice([1, 5, 1000, 900000])
        f = [r.range(1, hi) if r.chance(1, 4) else 0 for _ in range(n)]
    elif kind == "fib":                        # forces the 20-bit limit to bind for n >= 22
        f = _fib(n)
        cap = r.choice([1 << 20, 1 << 24, LIMIT_L // 300, 10 ** 30])
        f = [min(x, cap) for x in f]
        f = _scale_to(f, LIMIT_L)
        f = r.shuffle(f) if r.chance(2, 3) else (f if r.chance(1, 2) else f[::-1])
    elif kind == "fibish":                     # perturbed Fibonacci
        f = [max(0, x + r.range(-1, 1)) for x in _fib(min(n, 40))] + [r.range(0, 3) for _ in range(max(0, n - 40))]
        f = r.shuffle(_scale_to(f, LIMIT_L))
    elif kind == "geo":
        num, den = r.choice([(2, 1), (3, 1), (3, 2), (5, 4), (11, 10), (4, 1)])
        f, x = [], 1
        for _ in range(n):
            f.append(x)
            x = min(x * num // den + r.below(2), 1 << 40)
        f = _scale_to(f, LIMIT_L)
        f = r.shuffle(f) if r.chance(1, 2) else f
    elif kind == "equal":
        v = r.choice([0, 1, 1, 2, 3, 7, 1000, LIMIT_L // (n + 1)])
        f = [v] * n
    elif kind == "zero":
        f = [0] * n
        if r.chance(1, 2):
            f[r.below(n)] = r.choice([1, 2, 900000])
    elif kind == "fewvals":
        vals = [r.choice([0, 1, 2, 3, 4, 5, 8, 16, 100]) for _ in range(r.range(1, 3))]
        f = [r.choice(vals) for _ in range(n)]
    elif kind == "ties":                       # package weight == leaf weight ties everywhere
        base = r.choice([1, 1, 2, 3])
        f = [base << r.below(r.choice([2, 4, 8, 21])) for _ in range(n)]
        f = _scale_to(f, LIMIT_L)
    elif kind == "huge":                       # as large as the theorems allow
        w = [r.range(0, 1 << 30) ** r.choice([1, 1, 2]) for _ in range(n)]
        s = sum(w) or 1
        tot = LIMIT_L - 1 - r.below(3)
        f = [x * (tot - n) // s for x in w]
    elif kind == "steps":                      # plateaux
        f, v = [], r.range(0, 3)
        for _ in range(n):
            if r.chance(1, 5):
                v = v * r.choice([1, 2, 2, 3]) + r.below(3)
            f.append(min(v, LIMIT_L // (n + 1)))
        f = r.shuffle(f) if r.chance(1, 2) else f
    elif kind == "onebig":
        f = [r.range(0, 3) for _ in range(n)]
        f[r.below(n)] = r.choice([100, 900000, LIMIT_L // 2])
    else:                                      # overflow: 64-bit weights may wrap; tree only
        mode = "T"
        w = [r.range(0, 1 << 30) ** r.choice([1, 2, 4]) for _ in range(n)]
        s = sum(w) or 1
        tot = r.choice([LIMIT_T, LIMIT_T, LIMIT_T // 2, LIMIT_T // 5, LIMIT_T // 12, LIMIT_T // 20, LIMIT_T // 100])
        f = [x * (tot - n) // s for x in w]
    if mode == "L":
        f = _scale_to(f, LIMIT_L)
    assert len(f) == n and all(0 <= x < (1 << 32) for x in f)
    assert sum(f) <= LIMIT_T and (mode == "T" or MAX_ALPHA * sum(f) < (1 << 32)), (kind, sum(f))
    return mode, kind, f


FIXED = [
    ("L", "fixed", [0, 0]), ("L", "fixed", [1, 0]), ("L", "fixed", [0, 1]), ("L", "fixed", [5, 5]),
    ("L", "fixed", [0, 0, 0]), ("L", "fixed", [1, 1, 1]), ("L", "fixed", [5, 1, 1]), ("L", "fixed", [1, 1, 2]),
    ("L", "fixed", [1, 1, 1, 1]), ("L", "fixed", [1, 2, 3, 5, 8, 13]), ("L", "fixed", [1] * 5), ("L", "fixed", [1] * 258),
    ("L", "fixed", [0] * 258), ("L", "fixed", _fib(21)), ("L", "fixed", _fib(22)), ("L", "fixed", _fib(23)),
    ("L", "fixed", _fib(30)[::-1]), ("L", "fixed", _scale_to(_fib(258), LIMIT_L)),
    ("L", "fixed", [1 << i for i in range(24)]), ("L", "fixed", [min(1 << i, 1 << 19) for i in range(258)]),
    ("L", "fixed", list(range(258))), ("L", "fixed", [LIMIT_L // 258 - 1] * 258),
    ("T", "fixed", [(1 << 32) // 258 - 1] * 258), ("T", "fixed", [(1 << 31) - 1, 1 << 31]),
    ("T", "fixed", [(1 << 32) - 3, 1, 1]),
]


def gen_cases(r, n_cases):
    cases = [(m, k, _scale_to(f, LIMIT_L) if m == "L" else f) for (m, k, f) in FIXED]
    while len(cases) < n_cases:
        # three small ones for each one of arbitrary size: the proofs' case splits are all reachable
        # with small alphabets, and the model side is slow on big ones
        cases.append(gen_case(r, small=(len(cases) % 4 != 0)))
    return cases


# ---------------------------------------------------------------------------
# correspondence
# ---------------------------------------------------------------------------
def _fields(line):
    d = {}
    for tok in line.split(" "):
        if "=" in tok:
            k, v = tok.split("=", 1)
            d[k] = v
    return d


def correspond(check, n_cases=None, flavor="asan"):
    """Conventions of PropertyCheck.correspond: uses check.rng, appends Broken(...) to check.broken,
    returns the coverage dict."""
    r = check.rng
    if n_cases is None:
        n_cases = 2000 if getattr(check, "tier", "quick") == "quick" else 12000
    try:
        hs = build_harness(flavor)
        md = build_model()
    except vlib.BuildError as ex:
        check.broken.append(Broken("correspondence", "pm_part: harness or model driver does not build", str(ex)[-1500:]))
        return {"evaluations": 0, "distinct_nontrivial": 0, "rule": "build failed", "samples": []}
    cases = gen_cases(r, n_cases)
    lines = ["%s %s" % (mode, ",".join(map(str, f))) for (mode, kind, f) in cases]
    inp = ("\n".join(lines) + "\n").encode()
    rc1, o1, e1 = vlib.sh([hs], input=inp, timeout=1800)
    rc2, o2, e2 = vlib.sh([md], input=inp, timeout=1800)
    impl, model = o1.splitlines(), o2.splitlines()
    if rc1 != 0 or len(impl) != len(cases) + 1:
        bad = lines[len(impl) - 1] if 0 < len(impl) <= len(lines) else "?"
        check.broken.append(Broken("correspondence", "pm_h (real assign_codes/package_merge) crashed or truncated output "
                                   "(rc=%s, %d/%d lines); next input: %s" % (rc1, len(impl), len(cases) + 1, bad[:300]), e1[-1500:]))
    if rc2 != 0 or len(model) != len(cases) + 1:
        check.broken.append(Broken("correspondence", "pm model driver failed (rc=%s, %d/%d lines)" % (rc2, len(model), len(cases) + 1),
                                   e2[-1500:]))
    if impl[:1] and model[:1] and impl[:1] != model[:1]:
        check.broken.append(Broken("correspondence", "constants differ between encode.c/common.h and the model",
                                   "impl=%s model=%s" % (impl[:1], model[:1])))
    hist = {"mode_L": 0, "mode_T": 0, "as=2": 0, "as=258": 0, "maxlen=20": 0, "limit_binds": 0, "has_zero": 0,
            "model_err_L": 0, "kinds": {}, "maxlen": {}}
    distinct = set()
    ndiff = 0
    for i, (mode, kind, f) in enumerate(cases):
        a = impl[i + 1] if i + 1 < len(impl) else "<none>"
        b = model[i + 1] if i + 1 < len(model) else "<none>"
        hist["mode_" + mode] += 1
        hist["kinds"][kind] = hist["kinds"].get(kind, 0) + 1
        hist["as=2"] += len(f) == 2
        hist["as=258"] += len(f) == 258
        hist["has_zero"] += 0 in f
        fb = _fields(b)
        if mode == "L":
            if b.startswith("ERR"):
                hist["model_err_L"] += 1
                if hist["model_err_L"] <= 3:
                    check.broken.append(Broken("correspondence", "the model returns an error value inside the input range "
                                               "covered by C20pm_safe_and_complete (extraction or model changed?)",
                                               "freq=%s model=%s" % (",".join(map(str, f))[:300], b[:80])))
            elif "len" in fb:
                lens = list(map(int, fb["len"].split(",")))
                ml = max(lens)
                hist["maxlen"][ml] = hist["maxlen"].get(ml, 0) + 1
                hist["maxlen=20"] += ml == MAXLEN
                # the limit binds when the unrestricted (row 20 = height-20) code would be deeper than the chosen one
                # is not observable here; count the tables that use the full 20 bits instead
                rows = fb.get("tree", "").split(";")
                if len(rows) == 21 and rows[20].split(",")[19] != "0":
                    hist["limit_binds"] += 1
        if len(f) >= 3:
            distinct.add((mode, tuple(f)))
        if a == "<none>" and rc1 != 0:
            continue          # the crash is already reported, with the input it happened on
        if a != b:
            ndiff += 1
            if ndiff <= 5:
                fa = _fields(a)
                where = [k for k in ("cost", "len", "lw", "tree") if fa.get(k) != fb.get(k)]
                det = []
                for k in where[:2]:
                    xa, xb = fa.get(k, "<missing>"), fb.get(k, "<missing>")
                    if k == "tree":
                        ra, rb = xa.split(";"), xb.split(";")
                        row = next((j for j in range(min(len(ra), len(rb))) if ra[j] != rb[j]), -1)
                        det.append("tree row %d: impl=%s model=%s" % (row, ra[row] if row >= 0 else xa[:80], rb[row] if row >= 0 else xb[:80]))
                    else:
                        det.append("%s: impl=%s model=%s" % (k, xa[:200], xb[:200]))
                if not where:
                    det.append("impl=%s model=%s" % (a[:200], b[:200]))
                check.broken.append(Broken("correspondence",
                                           "assign_codes/package_merge model vs implementation differ (%s) on mode=%s as=%d freq=%s"
                                           % ("/".join(where) or "shape", mode, len(f), ",".join(map(str, f))[:300]),
                                           "; ".join(det)))
    return {
        "evaluations": len(cases),
        "distinct_nontrivial": len(distinct),
        "rule": "distinct frequency vectors with as >= 3 (as 2..258; uniform/zero-heavy/Fibonacci and perturbed Fibonacci "
                "(20-bit limit binds)/geometric/equal/all-zero/few-values/power-of-two ties/plateaux/one-big/largest sums "
                "with 258*sum < 2^32; plus 'overflow' vectors with sum up to 2^32-1 compared on leaf_weight+tree only); "
                "compared: assign_codes() return value, length[0..as-1], leaf_weight[0..as] after sort_alphabet, "
                "the full tree[21][21] after package_merge; harness built with ASan+UBSan and asserts",
        "samples": [l[:300] for l in lines[len(FIXED):len(FIXED) + 3]],
        "histogram": hist,
        "disagreements": ndiff,
    }


if __name__ == "__main__":     # stand-alone run: python3 checks/pm_part.py [n_cases] [seed]
    import sys

    class _C:
        pass
    c = _C()
    c.rng = vlib.SplitMix(int(sys.argv[2]) if len(sys.argv) > 2 else 7)
    c.broken = []
    c.tier = "quick"
    import json
    import time
    t0 = time.time()
    res = correspond(c, int(sys.argv[1]) if len(sys.argv) > 1 else None)
    res["samples"] = [s[:80] for s in res["samples"]]
    print(json.dumps(res, indent=1)[:3000])
    print("seconds: %.1f" % (time.time() - t0))
    for b in c.broken[:8]:
        print("BROKEN", b.kind, b.what[:400], "|", b.detail[:400])
    sys.exit(1 if c.broken else 0)
