"""C21 - I/O failures on filters terminate promptly.

Tie of the proved state machine (coq/IoFail, configuration regenerated into
Gen/IoFailTab.v) to the real binary: the LD_PRELOAD shim harness/faultinj.c makes
the k-th read()/write() of a stdin->stdout filter run fail, for every k found by an
enumeration run, with EIO / ENOSPC / EPIPE / EFBIG (EPIPE and EFBIG with and without
the accompanying thread-directed SIGPIPE / SIGXFSZ, default and ignored disposition);
plus genuine failures: early-closed pipes, RLIMIT_FSIZE, /dev/full, a directory as
stdin.  Exit status / terminating signal / hang and the stderr class are compared
with the extracted model run on the same (role, errno, signal flag, disposition)
under random schedules of the other threads, and the clauses of the property are
evaluated directly (never status 0, never a hang, message rule, no byte written
after a failed write)."""
import bz2
import concurrent.futures
import errno
import json
import os
import shlex
import signal
import tempfile

import faultlib
import vlib
from runner import PropertyCheck, Broken, Violation

WATCHDOG = 10.0
ERRNOS = {"EIO": errno.EIO, "ENOSPC": errno.ENOSPC, "EPIPE": errno.EPIPE, "EFBIG": errno.EFBIG}
SILENT = (errno.EPIPE, errno.EFBIG)
SIG_OF = {errno.EPIPE: int(signal.SIGPIPE), errno.EFBIG: int(signal.SIGXFSZ)}
# (errno name, raise the signal too, disposition)
VARIANTS = [("EIO", False, "default"), ("ENOSPC", False, "default"),
            ("EPIPE", False, "default"), ("EPIPE", True, "default"), ("EPIPE", True, "ignore"),
            ("EFBIG", False, "default"), ("EFBIG", True, "default"), ("EFBIG", True, "ignore")]


def gen_data(kind, seed, size):
    """Deterministic test inputs (re-creatable from the replay file)."""
    r = vlib.SplitMix(seed)
    if kind == "text":          # compressible, alphabet of 16
        return bytes(97 + r.below(16) for _ in range(size))
    if kind == "rand":          # incompressible; cheap generator: 8 bytes per draw
        out = bytearray()
        while len(out) < size:
            out += r.next().to_bytes(8, "little")
        return bytes(out[:size])
    if kind == "bz2text":
        return bz2.compress(gen_data("text", seed, size), 1)
    if kind == "bz2rand":
        return bz2.compress(gen_data("rand", seed, size), 1)
    raise ValueError(kind)


class Config:
    def __init__(self, name, mode, opts, data_spec, env=None, short=None, light=False):
        self.name, self.mode, self.opts, self.data_spec = name, mode, opts, data_spec
        self.env = dict(env or {})
        self.short = short
        self.light = light      # quick tier: fewer positions, no SIG_IGN variants
        self._data = None

    @property
    def data(self):
        if self._data is None:
            self._data = gen_data(*self.data_spec)
        return self._data

    def as_dict(self):
        return {"name": self.name, "mode": self.mode, "opts": self.opts, "data_spec": list(self.data_spec),
                "env": self.env, "short": self.short, "light": self.light}

    @staticmethod
    def from_dict(d):
        return Config(d["name"], d["mode"], d["opts"], tuple(d["data_spec"]), d.get("env"), d.get("short"), d.get("light", False))


def stderr_expect(pname, call, eno):
    fs = "stdin" if call == "read" else "stdout"
    return "%s: %s: %s(): %s\n" % (pname, fs, call, os.strerror(eno))


class Check(PropertyCheck):
    pid = "C21"
    props_module = "Properties.Properties_C21"
    extra_targets = ["Extract/ExtractIoFail.vo"]
    gen_files = ["IoFailTab.v"]
    level = "proof"
    trusted_base = [
        "Coq 8.16.1 kernel (coqc); vm_compute for the finite reachability check of the regenerated configuration "
        "(144 fault environments, closedness of the explored set re-checked by closedb); no native_compute; "
        "`Strategy expand [check]` is a conversion heuristic only",
        "axioms: none (Print Assumptions: closed under the global context)",
        "translator lib/gen_iofail.py (signals.c tables, bailout()/halt()/promote() statements, DEF() macro and its print "
        "condition, xread/xwrite error branches, call lists) -> Gen/IoFailTab.v; signal/errno numbers from python's signal/errno",
        "hand-written interpreter of the transcribed operations and of POSIX signal semantics (thread-directed vs process "
        "pending sets, sigsuspend mask, default actions) in IoFail/IoFailModel.v; tied to the binary by fault injection "
        "(harness/faultinj.c LD_PRELOAD shim) and genuine failures (closed pipes, RLIMIT_FSIZE, /dev/full, directory stdin)",
        "extraction (ExtrOcamlBasic only), OCaml compiler, harness/iofail_driver.ml, lib/faultlib.py",
    ]
    assumptions = [
        "one read()/write() failure per run (the property's quantifier); SIGPIPE and SIGXFSZ share one disposition",
        "the pipeline can signal completion (SIGUSR2) only after the failing thread has done its part "
        "(structure_ok: xraise(SIGUSR2) follows uninit_io/process->uninit; copy_terminate needs eof and all writes done)",
        "no signals from outside, pthread_create does not fail, signal mask inherited from the parent blocks nothing relevant",
        "wall-clock promptness and kernel signal delivery latency are not modelled (watchdog of 10 s in the tie)",
    ]

    # ------------------------------------------------------------------ configs
    def configs(self):
        s = self.seed
        small = ("text", s * 7 + 1, 3000)
        multi = ("text", s * 7 + 2, 250000)
        cs = []
        ns = (1, 2, 4) if self.tier == "quick" else (1, 2, 3, 4, 8)
        for n in ns:
            lt = n != 2
            cs.append(Config("c-small-n%d" % n, "compress", ["-1", "-n", str(n)], small, light=lt))
            cs.append(Config("c-multi-n%d" % n, "compress", ["-1", "-n", str(n)], multi, light=lt))
            cs.append(Config("d-small-n%d" % n, "decompress", ["-d", "-n", str(n)], ("bz2text", s * 7 + 3, 3000), light=lt))
            cs.append(Config("d-multi-n%d" % n, "decompress", ["-d", "-n", str(n)], ("bz2text", s * 7 + 4, 250000),
                             env={"LBZIP2_VERIF_IN_GRANUL": "4096", "LBZIP2_VERIF_OUT_GRANUL": "32768"}, light=lt))
            cs.append(Config("copy-n%d" % n, "copy", ["-cdf", "-n", str(n)], ("text", s * 7 + 5, 200000), light=lt))
        cs.append(Config("copy-tiny", "copy", ["-cdf"], ("text", s * 7 + 6, 3)))
        cs.append(Config("copy-10", "copy", ["-cdf"], ("text", s * 7 + 6, 10)))
        cs.append(Config("c-empty", "compress", ["-1", "-n", "2"], ("text", 1, 0)))
        cs.append(Config("c-short", "compress", ["-1", "-n", "2"], small, short=700))
        cs.append(Config("d-short", "decompress", ["-d", "-n", "2"], ("bz2text", s * 7 + 3, 400), short=1))
        cs.append(Config("copy-short", "copy", ["-cdf", "-n", "2"], ("text", s * 7 + 7, 5000), short=1500))
        cs.append(Config("c-sched", "compress", ["-1", "-n", "4"], multi, env={"LBZIP2_VERIF_SCHED": str(1 + self.rng.below(1000))}, light=True))
        cs.append(Config("d-sched", "decompress", ["-d", "-n", "4"], ("bz2text", s * 7 + 4, 250000),
                         env={"LBZIP2_VERIF_SCHED": str(1 + self.rng.below(1000)), "LBZIP2_VERIF_IN_GRANUL": "16384"}, light=True))
        if self.tier != "quick":
            cs.append(Config("c-9", "compress", ["-9", "-n", "3"], ("text", s * 7 + 8, 1200000)))
            cs.append(Config("c-u", "compress", ["-1", "-u", "-n", "3"], multi))
        return cs

    # ------------------------------------------------------------------ running
    def prepare(self):
        if getattr(self, "exe", None):
            return
        import resource
        try:                    # SIGXFSZ's default action dumps core: keep the tree clean
            resource.setrlimit(resource.RLIMIT_CORE, (0, resource.getrlimit(resource.RLIMIT_CORE)[1]))
        except Exception:
            pass
        self.exe = vlib.build_lbzip2("rel")
        self.pname = os.path.basename(self.exe)
        self.shim = faultlib.build_faultinj()
        import glob
        import shutil
        import time
        for d in glob.glob(os.path.join(self.work, "c21-*")):     # left behind by an interrupted run
            try:
                if time.time() - os.path.getmtime(d) > 3600:
                    shutil.rmtree(d, ignore_errors=True)
            except OSError:
                pass
        self.tmp = tempfile.mkdtemp(prefix="c21-", dir=self.work)

    def cleanup_tmp(self):
        import shutil
        shutil.rmtree(getattr(self, "tmp", "") or "/nonexistent", ignore_errors=True)

    def run_plan(self, cfg, plan, idx):
        """plan: dict(call, nth, errno, sig, disp, sticky) or a 'real' plan; returns result dict."""
        log = os.path.join(self.tmp, "log%d" % idx)
        env = dict(cfg.env)
        kind = plan.get("kind", "inject")
        argv = [self.exe] + cfg.opts
        res = None
        if kind == "inject":
            env.update(faultlib.fi_env(call=plan["call"], fdclass="stdin" if plan["call"] == "read" else "stdout",
                                       nth=plan["nth"], err=plan["errno"], signal_too=plan["sig"], short=cfg.short,
                                       log=log, sticky=plan.get("sticky", False)))
            res = faultlib.run_filter(argv, cfg.data, env=env, timeout=WATCHDOG, sigpipe=plan["disp"])
            inj = [l for l in faultlib.parse_log(log) if l["inj"]]
            res["injected"] = bool(inj)
            res["inj_main"] = inj[0]["main"] if inj else None
        elif kind == "close":
            env.update(faultlib.fi_env(call="close", fdclass="stdout", nth=1, err=plan["errno"], short=cfg.short, log=log))
            res = faultlib.run_filter(argv, cfg.data, env=env, timeout=WATCHDOG)
            inj = [l for l in faultlib.parse_log(log) if l["inj"]]
            res["injected"] = bool(inj)
            res["inj_main"] = inj[0]["main"] if inj else None
        elif kind == "closedpipe":
            res = faultlib.run_filter(argv, cfg.data, env=env, timeout=WATCHDOG, stdout_limit=plan["limit"], sigpipe=plan["disp"])
            res["injected"] = True
            res["inj_main"] = None
        elif kind in ("fsize", "devfull", "dirstdin"):
            out = os.path.join(self.tmp, "out%d" % idx)
            inp = os.path.join(self.tmp, "in%d" % idx)
            with open(inp, "wb") as f:
                f.write(cfg.data)
            trap = 'trap "" PIPE XFSZ; ' if plan.get("disp") == "ignore" else ""
            if kind == "fsize":
                sh = '%sulimit -f %d; exec "$@" < %s > %s' % (trap, plan["blocks"], shlex.quote(inp), shlex.quote(out))
            elif kind == "devfull":
                sh = '%sexec "$@" < %s > /dev/full' % (trap, shlex.quote(inp))
            else:
                sh = '%sexec "$@" < / > %s' % (trap, shlex.quote(out))
            res = faultlib.run_filter(["/bin/sh", "-c", sh, "sh"] + argv, b"", env=env, timeout=WATCHDOG)
            res["injected"] = True
            res["inj_main"] = None
            try:
                res["out"] = open(out, "rb").read() if os.path.exists(out) else b""
            except OSError:
                res["out"] = b""
            for p in (out, inp):
                if os.path.exists(p):
                    os.remove(p)
        if os.path.exists(log):
            os.remove(log)
        return res

    def enumerate_calls(self, cfg, idx):
        log = os.path.join(self.tmp, "enum%d" % idx)
        env = dict(cfg.env)
        env.update(faultlib.fi_env(log=log, short=cfg.short))
        res = faultlib.run_filter([self.exe] + cfg.opts, cfg.data, env=env, timeout=60)
        calls = faultlib.parse_log(log)
        os.remove(log)
        reads = [c for c in calls if c["call"] == "read" and c["cls"] == "stdin"]
        writes = [c for c in calls if c["call"] == "write" and c["cls"] == "stdout"]
        reads.sort(key=lambda c: c["n"])
        writes.sort(key=lambda c: c["n"])
        return res, reads, writes

    @staticmethod
    def role_of(cfg, call, k, reads, writes):
        lst = reads if call == "read" else writes
        c = lst[k - 1]
        if c["main"]:
            return "sniff" if call == "read" else "copyhdr"
        if call == "read":
            return "reader"
        if cfg.mode == "compress" and writes and c["tid"] == writes[0]["tid"] and not writes[0]["main"]:
            return "prihdr" if k == 1 else "pritrl"
        return "writer"

    # ------------------------------------------------------------------ plans
    def build_plans(self, full):
        """Enumerate every config, then build the list of (cfg, plan) to run."""
        self.prepare()
        cfgs = self.configs()
        self.enum = {}
        plans = []
        enum_bad = []
        with concurrent.futures.ThreadPoolExecutor(max_workers=vlib.NCPU) as ex:
            futs = {ex.submit(self.enumerate_calls, c, i): c for i, c in enumerate(cfgs)}
            for f in concurrent.futures.as_completed(futs):
                c = futs[f]
                res, reads, writes = f.result()
                self.enum[c.name] = (res, reads, writes)
        self.wrong_output = []
        for c in cfgs:
            res, reads, writes = self.enum[c.name]
            if res["rc"] != 0 or res["hung"]:
                enum_bad.append((c, res))
                continue
            # the fault-free run (possibly with fragmented reads/writes) must deliver everything
            try:
                if c.mode == "compress":
                    good = bz2.decompress(res["out"]) == c.data
                elif c.mode == "decompress":
                    good = res["out"] == bz2.decompress(c.data)
                else:
                    good = res["out"] == c.data
            except Exception:
                good = False
            if not good:
                self.wrong_output.append((c, res))
            for call, lst in (("read", reads), ("write", writes)):
                ks = list(range(1, len(lst) + 1))
                light = c.light and not full
                limit = None if (full or (len(ks) <= 12 and not light) or len(ks) <= 4) else (1 if light else 4)
                if limit:
                    keep = {1, 2, len(ks)} if light else {1, 2, len(ks) - 1, len(ks)}
                    pool = [k for k in ks if k not in keep]
                    keep |= set(self.rng.shuffle(pool)[:limit])
                    ks = sorted(keep)
                for k in ks:
                    role = self.role_of(c, call, k, reads, writes)
                    for en, sg, disp in VARIANTS:
                        if disp == "ignore" and not full and (light or (len(lst) > 4 and k % 3 != 1)):
                            continue    # inherited SIG_IGN: a third of the positions in the quick tier
                        plans.append((c, {"kind": "inject", "call": call, "nth": k, "errno": ERRNOS[en], "ename": en,
                                          "sig": sg, "disp": disp, "role": role,
                                          "prefix": sum(w["ret"] for w in writes[:k - 1]) if call == "write" else None}))
        # sticky variants (every later call fails too), a few
        for c in cfgs:
            if c.name in ("c-multi-n2", "d-multi-n2", "copy-n2") and c.name in self.enum and self.enum[c.name][0]["rc"] == 0:
                res, reads, writes = self.enum[c.name]
                for call, lst in (("read", reads), ("write", writes)):
                    for k in sorted(set([1, 2, max(1, len(lst) // 2)])):
                        if k <= len(lst):
                            role = self.role_of(c, call, k, reads, writes)
                            plans.append((c, {"kind": "inject", "call": call, "nth": k, "errno": errno.EIO, "ename": "EIO",
                                              "sig": False, "disp": "default", "role": role, "sticky": True,
                                              "prefix": sum(w["ret"] for w in writes[:k - 1]) if call == "write" else None}))
        # close(stdout) failing (delayed write error): supplementary
        for c in cfgs:
            if c.name in ("c-small-n2", "d-small-n2", "copy-10"):
                plans.append((c, {"kind": "close", "errno": errno.EIO, "ename": "EIO", "role": "close"}))
        # genuine failures
        s = self.seed
        big_c = Config("c-rand", "compress", ["-1", "-n", "2"], ("rand", s * 7 + 9, 300000))
        big_d = Config("d-rand", "decompress", ["-d", "-n", "2"], ("bz2rand", s * 7 + 9, 300000))
        big_k = Config("copy-rand", "copy", ["-cdf", "-n", "2"], ("rand", s * 7 + 10, 300000))
        # which thread's write hits the closed pipe / the size limit is not known beforehand
        wroles = {"compress": ["writer", "prihdr", "pritrl"], "decompress": ["writer"], "copy": ["writer", "copyhdr"]}
        for c in (big_c, big_d, big_k):
            for lim in (0, 1, 4, 5, 1000, 70000):
                for disp in ("default", "ignore"):
                    plans.append((c, {"kind": "closedpipe", "limit": lim, "disp": disp, "role": "writer", "roles": wroles[c.mode],
                                      "errno": errno.EPIPE, "ename": "EPIPE", "sig": True}))
            for blocks in (1, 8, 100):
                for disp in ("default", "ignore"):
                    plans.append((c, {"kind": "fsize", "blocks": blocks, "disp": disp, "role": "writer", "roles": wroles[c.mode],
                                      "errno": errno.EFBIG, "ename": "EFBIG", "sig": True}))
            plans.append((c, {"kind": "devfull", "disp": "default",
                              "role": {"compress": "prihdr", "decompress": "writer", "copy": "copyhdr"}[c.mode],
                              "errno": errno.ENOSPC, "ename": "ENOSPC", "sig": False}))
            plans.append((c, {"kind": "dirstdin", "disp": "default", "role": "reader" if c.mode == "compress" else "sniff",
                              "errno": errno.EISDIR, "ename": "EISDIR", "sig": False}))
        return plans, enum_bad

    def run_all(self, plans):
        results = [None] * len(plans)
        hangs = [0]

        def one(i):
            if hangs[0] >= 4:
                return None         # enough evidence of hanging; do not spend 10 s on each remaining run
            c, p = plans[i]
            r = self.run_plan(c, p, i)
            if r["hung"]:
                hangs[0] += 1
            return r

        with concurrent.futures.ThreadPoolExecutor(max_workers=vlib.NCPU) as ex:
            for i, r in enumerate(ex.map(one, range(len(plans)))):
                results[i] = r
        return results

    # ------------------------------------------------------------------ model side
    def model_lines(self, plans):
        r = self.rng
        lines = []
        self.line_of = []           # plan index -> indices of its model lines
        for c, p in plans:
          idxs = []
          for role in (p.get("roles") or [p["role"] if p["role"] != "close" else "writer"]):
            nothers = r.below(6)
            toks = []
            for _ in range(r.below(24)):
                t = r.below(10)
                if t < 3:
                    toks.append("F")
                elif t < 6:
                    toks.append("M")
                elif t == 6:
                    toks.append(r.choice(["O", "D", "C"]))
                elif nothers:
                    toks.append("x%d:%s" % (r.below(nothers), r.choice("rcie")))
            idxs.append(len(lines))
            lines.append("%s %d %d %d %d %d %s" % (role, p["errno"], 1 if p.get("sig") else 0,
                                                   0 if p.get("disp") == "ignore" else 1, r.below(2), nothers,
                                                   ",".join(toks) or "-"))
          self.line_of.append(idxs)
        return lines

    def run_model(self, lines):
        md = vlib.build_ocaml("iofail_model", os.path.join(vlib.COQ, "Extract", "ml"), ["iofail_model"], "iofail_driver.ml")
        rc, out, err = vlib.sh([md], input=("CHECK\n" + "\n".join(lines) + "\n").encode(), timeout=600)
        outl = out.splitlines()
        if rc != 0 or len(outl) != len(lines) + 1:
            raise RuntimeError("model driver failed rc=%s: %s" % (rc, (out[-300:] + err[-300:])))
        parsed = []
        for l in outl[1:]:
            d = {}
            for tok in l.replace("EXIT ", "EXIT:").replace("KILL ", "KILL:").split():
                k, _, v = tok.partition("=")
                d[k] = v
            parsed.append(d)
        return outl[0], parsed

    @staticmethod
    def observed(res):
        if res["hung"]:
            return "NONE"
        if res["sig"] is not None:
            return "KILL:%d" % res["sig"]
        return "EXIT:%d" % res["rc"]

    # ------------------------------------------------------------------ the two halves
    def sweep(self, full=False):
        plans, enum_bad = self.build_plans(full)
        results = self.run_all(plans)
        self.plans, self.results, self.enum_bad = plans, results, enum_bad
        return plans, results

    def correspond(self):
        self.prepare()
        try:
            plans, results = self.sweep(full=(self.tier != "quick"))
            lines = self.model_lines(plans)
            chk, model = self.run_model(lines)
        finally:
            pass
        if "check_all=true" not in chk or "structure_ok=true" not in chk:
            self.broken.append(Broken("correspondence", "extracted finite check is false on the regenerated configuration", chk))
        hist = {}
        points = {}
        nontriv = set()
        dis = []
        skipped = 0
        for pi, ((c, p), res) in enumerate(zip(plans, results)):
            ms = [model[j] for j in self.line_of[pi]]
            m, line = ms[0], lines[self.line_of[pi][0]]
            if res is None:
                skipped += 1
                continue
            kind = p["kind"] if p["kind"] != "inject" else "%s:%s" % (p["call"], p["role"])
            hist[kind] = hist.get(kind, 0) + 1
            if p["kind"] == "inject":
                points.setdefault(kind, set()).add((c.name, p["nth"]))
            if not res["injected"]:
                hist["not_injected"] = hist.get("not_injected", 0) + 1
                continue
            if p["kind"] == "close":
                continue            # supplementary, judged in direct() only
            nontriv.add((c.name, json.dumps({k: v for k, v in p.items() if k != "prefix"}, sort_keys=True)))
            obs = self.observed(res)
            nlines = res["err"].decode("latin-1").count("\n")
            if p["kind"] == "inject" and res["inj_main"] is not None and res["inj_main"] != (p["role"] in ("sniff", "copyhdr")):
                dis.append((c, p, res, "role assignment: injected call ran in the %s thread, plan says role %s" % (
                    "main" if res["inj_main"] else "a sub", p["role"]), line))
                continue
            for mm in ms:
                if mm["RES"] != mm["PRED"] and mm["RES"] != "NONE":
                    dis.append((c, p, res, "model run %s differs from its own prediction %s" % (mm["RES"], mm["PRED"]), line))
            if not any(obs == mm["RES"] and nlines == int(mm["PRINTED"]) for mm in ms):
                dis.append((c, p, res, "implementation %s with %d stderr line(s); model %s" % (
                    obs, nlines, " or ".join(sorted(set("%s with %s" % (mm["RES"], mm["PRINTED"]) for mm in ms)))), line))
        self.disagreements = dis
        for c, p, res, what, line in dis[:6]:
            self.broken.append(Broken("correspondence", "%s %s: %s" % (c.name, self.plan_str(p), what),
                                      "model case `%s`; stderr=%r" % (line, res["err"][:200])))
        for c, res in getattr(self, "wrong_output", []):
            self.broken.append(Broken("correspondence", "fault-free run of %s delivers wrong or incomplete output" % c.name,
                                      "FI_SHORT=%s stdout %d bytes" % (c.short, len(res["out"]))))
        for c, res in self.enum_bad:
            self.broken.append(Broken("correspondence", "fault-free enumeration run of %s failed" % c.name,
                                      "rc=%s sig=%s hung=%s stderr=%r" % (res["rc"], res["sig"], res["hung"], res["err"][:200])))
        samples = ["%s | %s | impl=%s" % (c.name, self.plan_str(p), self.observed(r)) for (c, p), r in
                   list(zip(plans, results))[:3] + list(zip(plans, results))[-2:] if r is not None]
        return {
            "evaluations": len(plans) - skipped, "distinct_nontrivial": len(nontriv),
            "rule": "one evaluation = one run of the real binary as stdin->stdout filter with one fault plan + one run of the "
                    "extracted state machine on (role, errno, signal flag, disposition) under a random schedule of the other "
                    "threads; non-trivial = distinct plans whose fault demonstrably happened (shim logged the injection, or a "
                    "genuine closed pipe / file-size limit / /dev/full / directory stdin)",
            "samples": samples, "histogram": hist,
            "injection_points": {k: len(v) for k, v in sorted(points.items())},
            "configs": [c.name for c in self.configs()],
            "variants_per_point": ["%s%s/%s" % (a, "+sig" if b else "", d) for a, b, d in VARIANTS],
            "disagreements": len(dis), "skipped_after_hangs": skipped,
        }

    @staticmethod
    def plan_str(p):
        if p["kind"] == "inject":
            return "%s #%d -> %s%s (%s)%s role=%s" % (p["call"], p["nth"], p["ename"], "+signal" if p["sig"] else "",
                                                      p["disp"], " sticky" if p.get("sticky") else "", p["role"])
        if p["kind"] == "closedpipe":
            return "stdout pipe closed by the reader after %d bytes (%s)" % (p["limit"], p["disp"])
        if p["kind"] == "fsize":
            return "stdout regular file, RLIMIT_FSIZE=%d*512 (%s)" % (p["blocks"], p["disp"])
        if p["kind"] == "devfull":
            return "stdout=/dev/full"
        if p["kind"] == "dirstdin":
            return "stdin is a directory"
        if p["kind"] == "close":
            return "close(stdout) -> EIO"
        return str(p)

    def repro_cmd(self, c, p):
        env = " ".join("%s=%s" % kv for kv in sorted(c.env.items()))
        base = "%s %s" % (self.exe, " ".join(c.opts))
        if p["kind"] == "inject":
            fi = "LD_PRELOAD=%s FI_CALL=%s FI_FDCLASS=%s FI_NTH=%d FI_ERRNO=%d%s%s%s" % (
                self.shim, p["call"], "stdin" if p["call"] == "read" else "stdout", p["nth"], p["errno"],
                " FI_SIGNAL_TOO=1" if p["sig"] else "", " FI_STICKY=1" if p.get("sticky") else "",
                " FI_SHORT=%d" % c.short if c.short else "")
            return "%s %s %s < INPUT > /dev/null   # INPUT = gen_data%r; disposition of SIGPIPE/SIGXFSZ: %s" % (
                env, fi, base, tuple(c.data_spec), p["disp"])
        return "%s %s   # %s; INPUT = gen_data%r" % (env, base, self.plan_str(p), tuple(c.data_spec))

    def judge(self, c, p, res):
        """The clauses of the property on one real run.  Returns list of (kind, text)."""
        bad = []
        if res is None or not res["injected"]:
            return bad
        err = res["err"].decode("latin-1")
        if res["hung"]:
            bad.append(("hang", "still running %.0f s after the fault" % WATCHDOG))
            return bad
        if res["rc"] == 0:
            bad.append(("exit0", "exit status 0 after the failed call"))
        if p["kind"] == "close":
            if res["rc"] != 1 or not err:
                bad.append(("close", "close(stdout) failed but status=%s stderr=%r" % (res["rc"], err[:100])))
            return bad
        eno = p["errno"]
        if res["sig"] is not None:
            ok = p.get("sig") and p.get("disp") == "default" and SIG_OF.get(eno) == res["sig"]
            if not ok:
                bad.append(("signal", "killed by signal %d" % res["sig"]))
        elif res["rc"] not in (0, 1):
            bad.append(("status", "exit status %d" % res["rc"]))
        if eno in SILENT:
            if err:
                bad.append(("stderr", "diagnostic printed for %s: %r" % (p["ename"], err[:120])))
        else:
            call = p.get("call") or ("read" if p["kind"] == "dirstdin" else "write")
            if err != stderr_expect(self.pname, call, eno):
                bad.append(("stderr", "expected diagnostic %r, got %r" % (stderr_expect(self.pname, call, eno), err[:160])))
        if p["kind"] == "inject" and p["call"] == "write" and p.get("prefix") is not None and res["sig"] is None:
            normal = self.enum[c.name][0]["out"]
            if res["out"] != normal[:p["prefix"]]:
                bad.append(("wrote-after-failure", "stdout has %d bytes; the writes before the failed one carry %d bytes "
                            "(fault-free output: %d bytes)" % (len(res["out"]), p["prefix"], len(normal))))
        return bad

    def direct(self):
        if not hasattr(self, "plans"):
            self.prepare()
            self.sweep(full=False)
        viols = []
        seen = set()
        for c, res in getattr(self, "wrong_output", []):
            key = "lost-data:%s:%s" % (c.mode, "short-io" if c.short else "plain")
            if key not in seen:
                seen.add(key)
                viols.append(Violation(key, "%s: exit status 0 but stdout (%d bytes) is not the complete result%s" % (
                    c.name, len(res["out"]), " with reads/writes cut to %d bytes (short writes ignored?)" % c.short if c.short else ""),
                    {"config": c.as_dict(), "how": "LD_PRELOAD=%s %s %s %s < INPUT   # INPUT = gen_data%r" % (
                        self.shim, "FI_SHORT=%d" % c.short if c.short else "", self.exe, " ".join(c.opts), tuple(c.data_spec))}))
        try:
            for (c, p), res in zip(self.plans, self.results):
                for kind, text in self.judge(c, p, res):
                    key = "%s:%s:%s" % (kind, c.mode, p["kind"] if p["kind"] != "inject" else p["call"] + ":" + p["role"])
                    if key in seen:
                        continue
                    seen.add(key)
                    viols.append(Violation(key, "%s [%s]: %s" % (c.name, self.plan_str(p), text),
                                           {"config": c.as_dict(), "plan": p, "observed": self.observed(res),
                                            "stderr": res["err"][:400].decode("latin-1"), "stdout_len": len(res["out"]),
                                            "how": self.repro_cmd(c, p)}))
        finally:
            self.cleanup_tmp()
        self.direct_found = len(viols)
        return viols[:12]

    def search(self):
        # direct() has already evaluated every clause on the sweep of this run; when something is
        # broken and nothing was found, repeat with every position of every configuration
        if getattr(self, "searched", False) or self.tier != "quick" or getattr(self, "direct_found", 0):
            return []
        self.searched = True
        found = []
        try:
            self.exe = None
            self.prepare()
            plans, results = self.sweep(full=True)
            seen = set()
            for (c, p), res in zip(plans, results):
                for kind, text in self.judge(c, p, res):
                    key = "%s:%s:%s" % (kind, c.mode, p["kind"] if p["kind"] != "inject" else p["call"] + ":" + p["role"])
                    if key not in seen:
                        seen.add(key)
                        found.append(Violation(key, "%s [%s]: %s" % (c.name, self.plan_str(p), text),
                                               {"config": c.as_dict(), "plan": p, "observed": self.observed(res),
                                                "stderr": res["err"][:400].decode("latin-1"), "how": self.repro_cmd(c, p)}))
        finally:
            self.cleanup_tmp()
        return found[:12]

    def replay(self, path):
        p = json.load(open(path))
        if "plan" not in p and "config" in p:       # fault-free run with fragmented I/O delivering wrong output
            self.prepare()
            c = Config.from_dict(p["config"])
            try:
                res, reads, writes = self.enumerate_calls(c, 0)
            finally:
                self.cleanup_tmp()
            try:
                good = {"compress": lambda: bz2.decompress(res["out"]) == c.data,
                        "decompress": lambda: res["out"] == bz2.decompress(c.data),
                        "copy": lambda: res["out"] == c.data}[c.mode]()
            except Exception:
                good = False
            print("config:", c.name, " ".join(c.opts), "FI_SHORT=%s" % c.short, "\nhow:", p.get("how"))
            print("observed: rc=%s stdout %d bytes, complete and correct: %s" % (res["rc"], len(res["out"]), good))
            return 0 if (good and res["rc"] == 0) else 1
        if "plan" not in p:
            print("replay file names no fault plan:", json.dumps(p.get("broken"), indent=1)[:2000])
            return 1
        self.prepare()
        c = Config.from_dict(p["config"])
        plan = p["plan"]
        try:
            if plan["kind"] == "inject" and plan["call"] == "write":
                res0, reads, writes = self.enumerate_calls(c, 0)
                self.enum = {c.name: (res0, reads, writes)}
            res = self.run_plan(c, plan, 1)
            bad = self.judge(c, plan, res)
        finally:
            self.cleanup_tmp()
        print("config:", c.name, " ".join(c.opts), "plan:", self.plan_str(plan))
        print("how:", self.repro_cmd(c, plan))
        print("observed:", self.observed(res), "stderr:", res["err"][:300])
        for k, t in bad:
            print("VIOLATED:", k, t)
        return 1 if bad else 0
