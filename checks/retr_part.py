"""C05/C08/C09 helper - the statement-level resumable model of retrieve() (coq/Safe/RetrModel.v).

correspond(check): runs the REAL retrieve() (harness/retr_h.c, which #includes the current /repo/src/decode.c;
dbg build with asserts + an ASan/UBSan build) and the extracted Gallina model (Extract/ml/retr_model.ml, needs the
target Extract/ExtractRetr.vo; harness/retr_driver.ml) on the same (block, chunking) cases and compares CALL BY CALL:
return code, rs->state, the saved bit stream (bs.live, bs.buff, words consumed of the chunk), ds.block_size, rand,
bwt_idx and the retriever fields j, t, g, num_trees, num_selectors, alpha_size, run, runChar, shift, big, small; after
the final OK also tt[0..block_size) and ftab[].

Blocks: harness/bzcraft.py - valid blocks with 2..6 tables, random/skewed/long (20-bit) code lengths, zig-zag delta
codes, surplus selectors, randomised flag, long zero runs, `dense20` blocks (every code 20 bits), >18001 selectors;
every block-layer defect of bzcraft.DEFECTS (BLOCK_DEFECTS below).  The bits behind the 32-bit block CRC go to
retrieve(): the first `live` of them in the bit buffer, the rest as big-endian words.
Chunkings: whole input in one call; one word per call; random small chunks; chunk sizes around the fast-path
threshold of 32 words (the symbol loop switches between NEED_FAST and NEED code mid-block), for the dense blocks
also runs of chunks of exactly 31/32/33 words (every group of fifty 20-bit codes needs 1000 bits); the input cut short
(EOF inside the block, retrieve() is then called with data = limit = NULL, eof = true as attach() does).
"""
import os
from concurrent.futures import ThreadPoolExecutor

import vlib
from runner import Broken

import sys
sys.path.insert(0, os.path.join(vlib.VERIF, "harness"))
import bzcraft  # noqa: E402

BLOCK_DEFECTS = ["start0", "start21", "start31", "exc_low", "exc_high", "exc_low3", "exc_high3", "sel_eq_ntrees", "nsel0",
                 "ntrees0", "ntrees1", "ntrees7", "bitmap_empty", "incomplete_used", "incomplete_unused", "oversub_used",
                 "oversub_unused", "no_eob", "overflow1", "idx_eq_n", "idx_big", "trunc", "flipbit", "runwrap", "runlen4"]

RC_NAMES = {0: "OK", 1: "MORE", 5: "ERR_BITMAP", 6: "ERR_TREES", 7: "ERR_GROUPS", 8: "ERR_SELECTOR", 9: "ERR_DELTA",
            10: "ERR_PREFIX", 11: "ERR_INCOMPLT", 12: "ERR_EMPTY", 13: "ERR_UNTERM", 17: "ERR_OVERFLOW", 18: "ERR_BWTIDX",
            19: "ERR_EOF"}


# ---------------------------------------------------------------------------
# blocks
# ---------------------------------------------------------------------------
def bits_of_bytes(data):
    out = []
    for b in data:
        for i in range(7, -1, -1):
            out.append((b >> i) & 1)
    return out


def body_of_file(data):
    """bits behind the first block's CRC (4-byte stream header, 48-bit magic, 32-bit CRC) up to the end of the file"""
    return bits_of_bytes(data)[112:]


def body_of_blocks(blocks, rng, level=9):
    return bzcraft.stream(blocks, level, rng)[112:]


def many_selectors_block(rng, ns):
    """a small valid block that declares ns selectors (only the first few are used)"""
    b = bzcraft.valid_block(rng, 80)
    b.extra_selectors = 0
    blk = bzcraft.rle1(list(b.data))
    L, _, _ = bzcraft.bwt(blk)
    mv, _, _ = bzcraft.mtfzrle(L)
    ng = (len(mv) + 49) // 50
    b.extra_selector_tokens = [[0]] * max(0, ns - ng)
    return b


def long_run_block(rng, n):
    b = bzcraft.Block()
    b.const_run = (rng.below(256), n)
    return b


def gen_blocks(r, quick):
    """list of (tag, body bits)"""
    out = []
    n_valid = 230 if quick else 1200
    for _ in range(n_valid):
        b = bzcraft.valid_block(r, r.choice([30, 120, 300, 400, 800] if quick else [30, 120, 400, 400, 1500]))
        if len(b.data) > 500:
            b.rand = 0          # valid_block() sizes its tables for the block before randomisation
        tail = [bzcraft.valid_block(r, 60)] if r.chance(1, 3) else []
        out.append(("valid", body_of_blocks([b] + tail, r, r.range(1, 9))))
    for k in BLOCK_DEFECTS:
        for _ in range(6 if quick else 30):
            data, kind, _ = bzcraft.one_defect(r, k, 300)
            body = body_of_file(data)
            if len(body) >= 8:
                out.append((k, body))
    for _ in range(3 if quick else 12):
        data, _ = bzcraft.dense20_file(r, nsyms=r.choice([300, 700] if quick else [400, 900, 2500]))
        bits = bits_of_bytes(data)
        # the dense block is the second one: find its magic
        magic = [int(c) for c in format(bzcraft.MAGIC_BLOCK, "048b")]
        pos = [i for i in range(112, len(bits) - 48) if bits[i:i + 48] == magic]
        if pos:
            out.append(("dense20", bits[pos[0] + 80:]))
    for n in ([1, 2, 255, 4097, 70000, 900000, 900001] if quick else [1, 2, 3, 255, 256, 4097, 70000, 899999, 900000, 900001, 1000000]):
        out.append(("longrun", body_of_blocks([long_run_block(r, n)], r)))
    for ns in ([18002, 32767] if quick else [17999, 18000, 18001, 18002, 20000, 32767]):
        out.append(("manysel", body_of_blocks([many_selectors_block(r, ns)], r)))
    for _ in range(10 if quick else 60):
        # random bits after a plausible start
        n = r.range(64, 4000)
        out.append(("garbage", [r.below(2) for _ in range(n)]))
    return out


# ---------------------------------------------------------------------------
# cases
# ---------------------------------------------------------------------------
def pack(bits, live):
    """(buff hex, word list) for a bit string: the first `live` bits in the buffer, the rest in words (zero padded)"""
    head = bits[:live]
    live = len(head)
    buff = 0
    for b in head:
        buff = (buff << 1) | b
    buff <<= (64 - live)
    rest = bits[live:]
    rest = rest + [0] * ((-len(rest)) % 32)
    words = []
    for i in range(0, len(rest), 32):
        x = 0
        for b in rest[i:i + 32]:
            x = (x << 1) | b
        words.append(x)
    return live, "%016x" % buff, words


def chunkings(r, nwords, quick):
    """list of (tag, sizes)"""
    if nwords == 0:
        return [("whole", [])]
    res = [("whole", [nwords]), ("ones", [1] * nwords)]
    sizes = []
    left = nwords
    while left > 0:
        n = min(left, r.range(1, 6))
        sizes.append(n)
        left -= n
    res.append(("small", sizes))
    for _ in range(1 if quick else 3):
        sizes = []
        left = nwords
        while left > 0:
            n = min(left, r.choice([1, 2, 3, 31, 32, 32, 33, 34, 40, 45, 64, 65, 100, r.range(1, 70)]))
            sizes.append(n)
            left -= n
        res.append(("switch", sizes))
    return res


def edge_chunkings(r, nwords, k):
    """chunks of exactly 31 / 32 / 33 words behind a random first chunk: group heads of the symbol loop meet every
    number of remaining words around the fast-path threshold (a group of 20-bit codes needs 1000 bits = 31.25 words)"""
    res = []
    for _ in range(k):
        first = r.range(1, 40)
        pat = r.choice([[31], [31], [32], [33], [31, 32], [31, 31, 32, 33]])
        sizes = [min(first, nwords)]
        left = nwords - sizes[0]
        i = 0
        while left > 0:
            n = min(left, pat[i % len(pat)])
            sizes.append(n)
            left -= n
            i += 1
        res.append(("edge", sizes))
    return res


def mk_line(live, buff, words, sizes):
    return "%d %s %s %s" % (live, buff, "".join("%08x" % w for w in words) if words else "-",
                            ",".join(str(s) for s in sizes) if sizes else "0")


def gen_cases(r, quick):
    cases, tags = [], []
    for tag, body in gen_blocks(r, quick):
        # extra slack behind the block so that a valid block never hits the end of the input
        body = body + [r.below(2) for _ in range(r.choice([0, 40, 96, 96, 200]))]
        live0 = r.choice([0, 0, 7, 16, 31, r.range(0, 31), r.range(0, 31), r.range(32, 63)])
        live, buff, words = pack(body, live0)
        big = len(words) > 3000 or (quick and tag in ("manysel", "dense20"))
        chs = chunkings(r, len(words), quick)
        if big:
            chs = [c for c in chs if c[0] in ("whole", "switch")][:2]
        if tag == "dense20":
            chs += edge_chunkings(r, len(words), 4 if quick else 8)
        elif tag == "valid" and len(words) > 40 and r.chance(1, 3):
            chs += edge_chunkings(r, len(words), 1)
        for ctag, sizes in chs:
            cases.append(mk_line(live, buff, words, sizes))
            tags.append(tag + "/" + ctag)
        # EOF inside the block
        if len(words) > 2 and not big:
            for _ in range(1 if quick else 2):
                cut = r.range(0, len(words) - 1)
                w2 = words[:cut]
                ctag, sizes = r.choice(chunkings(r, len(w2), True))
                cases.append(mk_line(live, buff, w2, sizes))
                tags.append(tag + "/eof-" + ctag)
    return cases, tags


# ---------------------------------------------------------------------------
# running
# ---------------------------------------------------------------------------
def build(flavor="dbg"):
    return vlib.build_c("retr_h-" + flavor, ["retr_h.c", os.path.join(vlib.REPO, "src", "crctab.c")], flavor=flavor)


def build_model():
    return vlib.build_ocaml("retr_model", os.path.join(vlib.COQ, "Extract", "ml"), ["retr_model"], "retr_driver.ml")


def run_cases(exe, cases, timeout=1500, jobs=None, xcheck=0, bsz=64):
    """run the line protocol in parallel slices; returns (rc, lines, stderr).  xcheck = k: every k-th case carries the flag
    that makes the model driver cross-check its call-by-call result against retr_chunks"""
    if xcheck:
        cases = [c + " x" if i % xcheck == 0 else c for i, c in enumerate(cases)]
    jobs = jobs or max(1, min(vlib.NCPU, 16))
    # small batches handed to a pool of workers, longest cases first (the few heavy cases start at once)
    order = sorted(range(len(cases)), key=lambda i: -len(cases[i]))
    idx = [order[i:i + bsz] for i in range(0, len(order), bsz)]
    slices = [[cases[i] for i in ix] for ix in idx]

    def one(sl):
        rc, out, err = vlib.sh([exe], input=("\n".join(sl) + "\n").encode(), timeout=timeout)
        return rc, out.splitlines(), err
    with ThreadPoolExecutor(max_workers=jobs) as ex:
        res = list(ex.map(one, slices))
    lines = [None] * len(cases)
    rc_all, err_all = 0, ""
    for j, (rc, ls, err) in enumerate(res):
        if rc != 0 or len(ls) != len(slices[j]):
            rc_all = rc or 1
            bad = slices[j][len(ls)] if len(ls) < len(slices[j]) else ""
            if len(err_all) < 6000:
                err_all += "\n[batch %d rc=%s, %d/%d lines, next case `%s`]\n%s" % (j, rc, len(ls), len(slices[j]), bad[:300], err[-1500:])
        for k, ln in enumerate(ls[:len(slices[j])]):
            lines[idx[j][k]] = ln.strip()
    return rc_all, lines, err_all


def parse_calls(line):
    calls = []
    for tok in (line or "").split():
        if tok.startswith("c:"):
            head = tok[2:].split(";")[0].split(",")
            calls.append((int(head[0]), int(head[1])))
    return calls


def correspond(check):
    quick = check.tier == "quick"
    r = check.rng
    cases, tags = gen_cases(r, quick)
    hs = build("dbg")
    hsa = build("asan")
    md = build_model()
    import time
    t0 = time.time()
    rc1, impl, e1 = run_cases(hs, cases)
    t1 = time.time()
    rc3, san, e3 = run_cases(hsa, cases)
    t2 = time.time()
    rc2, model, e2 = run_cases(md, cases, xcheck=4 if quick else 2, bsz=6)
    t3 = time.time()
    if rc1 != 0:
        check.broken.append(Broken("correspondence", "retr_h (dbg build of the real retrieve()) crashed or truncated its output", e1[-2500:]))
    if rc3 != 0:
        check.broken.append(Broken("correspondence", "retr_h under ASan/UBSan failed: memory error or undefined behaviour in retrieve()", e3[-2500:]))
    if rc2 != 0:
        check.broken.append(Broken("correspondence", "extracted retrieve() model driver failed", e2[-2500:]))
    dis = []
    hist = {"tags": {}, "final": {}, "suspended_in_state": {}, "calls": 0, "faults": 0}
    nontriv = set()
    for i, c in enumerate(cases):
        a, s, b = impl[i], san[i], model[i]
        t = tags[i].split("/")[0]
        hist["tags"][tags[i]] = hist["tags"].get(tags[i], 0) + 1
        if b is not None and ("FAULT" in b or "RC_MISMATCH" in b or "BADLINE" in b):
            hist["faults"] += 1
        if a is None or b is None or a != b or (s is not None and s != a) or (s is None and rc3 == 0):
            dis.append({"case": c[:300], "tag": tags[i], "impl": (a or "<none>")[:700], "asan": (s or "<none>")[:200] if s != a else "=",
                        "model": (b or "<none>")[:700]})
            continue
        calls = parse_calls(a)
        hist["calls"] += len(calls)
        for (rv, stt) in calls[:-1]:
            hist["suspended_in_state"][str(stt)] = hist["suspended_in_state"].get(str(stt), 0) + 1
        if calls:
            nm = RC_NAMES.get(calls[-1][0], str(calls[-1][0]))
            hist["final"][nm] = hist["final"].get(nm, 0) + 1
        if len(calls) >= 2:
            nontriv.add(c)
    for dd in dis[:6]:
        check.broken.append(Broken("correspondence", "retrieve(): model and implementation differ (%s) on `%s`" % (dd["tag"], dd["case"][:120]),
                                   "impl=%s\nasan=%s\nmodel=%s" % (dd["impl"][:600], dd["asan"], dd["model"][:600])))
    return {
        "evaluations": len(cases), "distinct_nontrivial": len(nontriv),
        "rule": "block bodies from bzcraft (valid blocks of every feature, every block-layer defect kind, dense 20-bit codes, long "
                "runs, >18001 selectors, random bits) x chunkings (whole, one word per call, random small, sizes around the 32-word "
                "fast-path threshold, input cut short); call-by-call comparison of return code, rs->state, saved bit stream and "
                "retriever fields, final tt[]/ftab[]; non-trivial = retrieve() was suspended at least once",
        "samples": [c[:160] for c in cases[:2]] + [c[:160] for c in cases[-2:]],
        "histogram": hist, "disagreements": dis[:20], "disagreement_count": len(dis),
        "wall_s": {"impl": round(t1 - t0, 1), "asan": round(t2 - t1, 1), "model": round(t3 - t2, 1)},
    }


if __name__ == "__main__":
    # stand-alone run:  python3 checks/retr_part.py [quick|thorough] [seed]
    import json

    class _Chk:
        def __init__(self, tier, seed):
            self.tier, self.rng, self.broken = tier, vlib.SplitMix(seed), []
    tier = sys.argv[1] if len(sys.argv) > 1 else "quick"
    chk = _Chk(tier, int(sys.argv[2]) if len(sys.argv) > 2 else 1)
    res = correspond(chk)
    res.pop("samples")
    agg = {}
    for k, v in res["histogram"].pop("tags").items():
        agg[k.split("/")[0]] = agg.get(k.split("/")[0], 0) + v
        agg["/" + k.split("/")[1]] = agg.get("/" + k.split("/")[1], 0) + v
    res["histogram"]["tags_agg"] = agg
    print(json.dumps(res)[:6000])
    for b in chk.broken:
        print("BROKEN", b.kind, b.what, "\n", b.detail[:1500])
    sys.exit(1 if chk.broken else 0)
