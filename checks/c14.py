"""C14 - block-header scanner matches exactly the header pattern."""
import os
import sys

import vlib
from runner import PropertyCheck, Broken, Violation

MAGIC = 0x314159265359
PBITS = format(MAGIC, "048b")


def oracle(live, datahex, skip):
    """Independent statement of the property on flat bit strings (python)."""
    data = "" if datahex == "-" else "".join(format(int(datahex[i:i + 2], 16), "08b") for i in range(0, len(datahex), 2))
    lv = "" if live == "-" else live
    nwords = len(data) // 32
    if skip > len(lv):
        k = (skip - len(lv) + 31) // 32
        k = min(k, nwords)
        B = data[32 * k:]
    else:
        B = lv + data
    i = B.find(PBITS)
    if i < 0 or i + 48 + 32 > len(B):
        return ("MORE", 0)
    return ("OK", len(B) - (i + 80))


def impl_remaining(out):
    kind, live, nw = out.split()
    return kind, (0 if live == "-" else len(live)) + 32 * int(nw)


class Check(PropertyCheck):
    pid = "C14"
    props_module = "Properties.Properties_C14"
    extra_targets = ["Extract/ExtractScan.vo"]
    gen_files = ["ScanTab.v"]
    trusted_base = [
        "Coq 8.16.1 kernel (coqc); vm_compute for the two finite table sweeps (96 and 49*256 cases); no native_compute",
        "axioms: none (Print Assumptions: closed under the global context)",
        "translator lib/gen_from_source.py (array initialisers of scantab.h -> Gen/ScanTab.v)",
        "model of scan() in Scan/ScanModel.v is hand-written; tied by correspondence harness/h_scan.c vs extracted scan (ExtrOcamlBasic only)",
        "the 64-bit bit buffer is modelled as a list of `live` bits (zero padding below `live` is checked by the harness, not proved)",
    ]
    assumptions = [
        "bytes in the input block are < 256 (word_ok)",
        "scan() is called with live <= 63 as produced by detach()",
    ]

    def gen_cases(self, n):
        r = self.rng
        cases = []

        def mk(bits_total, live_n, skip):
            # bits_total: string of 0/1; split into live + words (pad with random bits to whole words)
            live = bits_total[:live_n]
            rest = bits_total[live_n:]
            pad = (-len(rest)) % 32
            rest += "".join(r.choice("01") for _ in range(pad))
            hexs = "".join(format(int(rest[i:i + 8], 2), "02x") for i in range(0, len(rest), 8))
            return "%s %s %d" % (live or "-", hexs or "-", skip)

        def randbits(k):
            return "".join(r.choice("01") for _ in range(k))

        # corpus: boundary cases first
        corpus = os.path.join(vlib.VERIF, "harness", "corpus", "c14.txt")
        if os.path.exists(corpus):
            cases += [l.strip() for l in open(corpus) if l.strip() and not l.startswith("#")]
        for live_n in (0, 1, 31, 32, 33, 47, 48, 63):
            for off in (0, 1, 7, 16, 31, 33):
                for tail in (0, 31, 32, 33, 64):
                    b = randbits(off) + PBITS + randbits(tail)
                    if len(b) >= live_n:
                        cases.append(mk(b, live_n, 0))
        while len(cases) < n:
            kind = r.below(10)
            live_n = r.below(64)
            total = live_n + 32 * r.below(9) + r.below(2) * r.below(32)
            b = list(randbits(max(total, live_n)))
            if kind <= 5:  # plant 1-2 patterns (possibly overlapping the live/word boundary or the end)
                for _ in range(1 + r.below(2)):
                    if len(b) >= 48:
                        p = r.below(len(b) - 47)
                    else:
                        p = 0
                        b += list(randbits(48))
                    b[p:p + 48] = list(PBITS)
            elif kind == 6:  # near miss: one flipped bit
                if len(b) < 48:
                    b += list(randbits(48))
                p = r.below(len(b) - 47)
                q = list(PBITS)
                k = r.below(48)
                q[k] = "1" if q[k] == "0" else "0"
                b[p:p + 48] = q
            elif kind == 7:  # self-overlap prefixes of the magic followed by the magic
                k = r.below(48)
                b = list(randbits(r.below(40))) + list(PBITS[:k]) + list(PBITS) + list(randbits(r.below(70)))
            elif kind == 8:  # magic right at the end, fewer than 32 bits after
                b = list(randbits(r.below(100))) + list(PBITS) + list(randbits(r.below(32)))
            skip = r.choice([0, 0, 0, r.below(8), r.below(64), r.below(200), r.below(400)])
            bs = "".join(b)
            live_n = min(live_n, len(bs))
            cases.append(mk(bs, live_n, skip))
        return cases

    def run_both(self, cases):
        hs = vlib.build_c("h_scan", ["h_scan.c", os.path.join(vlib.REPO, "src", "parse.c")], flavor="dbg")
        md = vlib.build_ocaml("scan_model", os.path.join(vlib.COQ, "Extract", "ml"), ["scan_model"], "scan_driver.ml")
        inp = ("\n".join(cases) + "\n").encode()
        rc1, o1, e1 = vlib.sh([hs], input=inp, timeout=300)
        rc2, o2, e2 = vlib.sh([md], input=inp, timeout=300)
        return rc1, o1.splitlines(), e1, rc2, o2.splitlines(), e2

    def correspond(self):
        n = 3000 if self.tier == "quick" else 40000
        cases = self.gen_cases(n)
        self.cases = cases
        rc1, impl, e1, rc2, model, e2 = self.run_both(cases)
        self.impl_out = impl
        if rc1 != 0 or len(impl) < len(cases):
            self.broken.append(Broken("correspondence", "h_scan crashed or truncated output (rc=%s)" % rc1, e1[-500:]))
        if rc2 != 0 or len(model) != len(cases):
            self.broken.append(Broken("correspondence", "extracted model driver failed (rc=%s)" % rc2, e2[-500:]))
        dis = []
        nontriv = set()
        hist = {"OK": 0, "MORE": 0, "with_skip": 0, "magic_present": 0}
        for i, c in enumerate(cases):
            a = impl[i] if i < len(impl) else "<none>"
            b = model[i] if i < len(model) else "<none>"
            if a != b:
                dis.append({"case": c, "impl": a, "model": b})
            live, d, sk = c.split()
            kind = a.split()[0] if a else "?"
            hist[kind] = hist.get(kind, 0) + 1
            if int(sk) > 0:
                hist["with_skip"] += 1
            flatbits = ("" if live == "-" else live) + ("" if d == "-" else "".join(format(int(d[k:k + 2], 16), "08b") for k in range(0, len(d), 2)))
            if PBITS in flatbits:
                hist["magic_present"] += 1
                nontriv.add(c)
        self.disagreements = dis
        for dd in dis[:5]:
            self.broken.append(Broken("correspondence", "scan model vs implementation differ on `%s`" % dd["case"][:120],
                                      "impl=%s model=%s" % (dd["impl"], dd["model"])))
        return {
            "evaluations": len(cases), "distinct_nontrivial": len(nontriv),
            "rule": "bit streams with 0..63 buffered bits + 0..9 words, magic planted/near-missed/overlapped/at-end, skip 0..400; "
                    "non-trivial = distinct cases whose flat bits contain the 48-bit magic",
            "samples": cases[:3] + cases[-2:], "histogram": hist,
            "disagreements": len(dis),
        }

    def oracle_check(self, cases, impl):
        out = []
        for c, a in zip(cases, impl):
            live, d, sk = c.split()
            want = oracle(live, d, int(sk))
            try:
                got = impl_remaining(a)
            except Exception:
                got = ("?", -1)
            if got != want or "DIRTY" in a:
                out.append(Violation("scan-mismatch", "scan() on `%s` gives %s, the first-occurrence rule gives %s" % (c[:100], got, want),
                                     {"case": c, "impl": a, "expected": want,
                                      "how": "echo '<case>' | .work/bin/h_scan   (live-bits hex-words skip)"}))
                if len(out) >= 3:
                    break
        return out

    def table_witnesses(self):
        """Shortest bit strings on which the regenerated automaton differs from KMP."""
        import re
        txt = open(os.path.join(vlib.COQ, "Gen", "ScanTab.v")).read()
        import cparse
        src = open(os.path.join(vlib.REPO, "src", "scantab.h")).read()
        try:
            _, mini = cparse.find_array(src, "mini_dfa")
            _, big = cparse.find_array(src, "big_dfa")
        except Exception:
            return []

        def kmp(s, b):
            if s == 48:
                return 48
            w = PBITS[:s] + b
            for k in range(min(48, len(w)), -1, -1):
                if w.endswith(PBITS[:k]):
                    return k
        wit = []
        # bit automaton: BFS to each state through the reference automaton
        path = {0: ""}
        frontier = [0]
        while frontier:
            nf = []
            for s in frontier:
                for b in "01":
                    t = kmp(s, b)
                    if t not in path and t < 48:
                        path[t] = path[s] + b
                        nf.append(t)
            frontier = nf
        for s in range(48):
            for bi, b in enumerate("01"):
                try:
                    v = mini[s][bi]
                except Exception:
                    v = -1
                if v != kmp(s, b) and s in path:
                    # continue so that the difference becomes observable: complete the magic
                    wit.append(path[s] + b + PBITS + "0" * 40)
                    wit.append(path[s] + b + PBITS[kmp(s, b):] + "0" * 40)
        for s in range(49):
            for c in range(256):
                ref = s
                for b in format(c, "08b"):
                    ref = kmp(ref, b)
                try:
                    v = big[s][c]
                except Exception:
                    v = -1
                if v != ref and s in path:
                    pre = path[s]
                    padn = (-len(pre)) % 8
                    # align so that the byte lookup really happens with state s: prefix bits then byte c at a byte boundary
                    wit.append("1" * 0 + pre + format(c, "08b") + PBITS + "0" * 64)
        return wit[:200]

    def search(self):
        cases = list(getattr(self, "cases", []))
        impl = list(getattr(self, "impl_out", []))
        extra = []
        for w in self.table_witnesses():
            for live_n in (0, 5):
                for lead in range(0, 32, 1):
                    bits = "0" * lead + w
                    ln = min(live_n, len(bits))
                    rest = bits[ln:]
                    rest += "0" * ((-len(rest)) % 32)
                    hexs = "".join(format(int(rest[i:i + 8], 2), "02x") for i in range(0, len(rest), 8))
                    extra.append("%s %s 0" % (bits[:ln] or "-", hexs or "-"))
        extra = extra[:6000]
        if extra:
            try:
                rc1, o1, e1, _, _, _ = self.run_both(extra)
                cases += extra
                impl += o1
            except vlib.BuildError:
                pass
        return self.oracle_check(cases, impl)

    def direct(self):
        # the property itself on the implementation, on the cases of this run
        if not hasattr(self, "cases") or not hasattr(self, "impl_out"):
            return []
        return self.oracle_check(self.cases, self.impl_out)

    def replay(self, path):
        import json
        p = json.load(open(path))
        c = p.get("case")
        if not c:
            print("replay file names no input:", json.dumps(p.get("broken"), indent=1)[:2000])
            return 1
        hs = vlib.build_c("h_scan", ["h_scan.c", os.path.join(vlib.REPO, "src", "parse.c")], flavor="dbg")
        rc, out, err = vlib.sh([hs], input=(c + "\n").encode())
        live, d, sk = c.split()
        print("case:", c, "\nimpl:", out.strip(), "\nexpected:", oracle(live, d, int(sk)))
        return 0 if impl_remaining(out.strip()) == oracle(live, d, int(sk)) else 1
