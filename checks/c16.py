"""C16 - Interrupted or failed runs never lose data."""
import json
import os
import shutil
from concurrent.futures import ThreadPoolExecutor

import vlib
import faultlib
import frontlib as fl
from runner import PropertyCheck, Broken, Violation

ERRNOS = [("EIO", 5), ("ENOSPC", 28), ("EACCES", 13)]
SIGS = [("INT", 2), ("TERM", 15), ("KILL", 9)]
T1, T2 = 1_234_567_890_123_456_789, 1_111_111_111_000_000_001


def doc_out_name(dec, name):
    if not dec:
        return name + ".bz2"
    for suf, rep in ((".bz2", ""), (".tbz2", ".tar"), (".tbz", ".tar"), (".tz2", ".tar")):
        if name.endswith(suf):
            return name[:-len(suf)] + rep
    return name + ".out"


def reg(data, mode=0o644, uid=1000, gid=100):
    return {"kind": "r", "mode": mode, "uid": uid, "gid": gid, "atime": T1, "mtime": T2, "data": data}


class Check(PropertyCheck):
    pid = "C16"
    props_module = "Properties.Properties_C16"
    extra_targets = ["Extract/ExtractFront.vo"]
    gen_files = ["FrontTab.v"]
    trusted_base = [
        "Coq 8.16.1 kernel (coqc); no axioms",
        "translator lib/gen_front.py (call orders of main loop / output_regf_uninit / cleanup / halt / bailout / cli / sti, "
        "handled signal list, exit codes) -> Gen/FrontTab.v",
        "hand model Front/MainLoop.v: every system call of the operand loop as a step that can fail or at which a signal is raised; "
        "cli()/sti() masking, handler = cleanup() + re-raise, pending signals taken at halt() or sti(), bailout() = cleanup() + _exit(1); "
        "tied by exhaustive per-scenario fault injection (harness/faultinj.c, LD_PRELOAD) against the real binary",
        "signal asynchrony is modelled at the granularity of counted system calls (a signal arrives immediately before a call of the "
        "main thread, or before a read()/write() of a worker thread while the main thread is in sigsuspend()); arrival between two "
        "instructions and two handled signals arriving together (caught_index keeps the last) are not modelled",
        "a write() failing with EFBIG / EPIPE is modelled with the accompanying SIGXFSZ / SIGPIPE (blocked in every thread, promoted by "
        "the failing worker's bailout(), taken by the main thread after cleanup() because halt() waits with the mask saved by cli() - "
        "regenerated fact fatal_signals_blocked_in_halt); tied by FI_ERRNO+FI_SIGNAL_TOO plans and by genuine RLIMIT_FSIZE runs "
        "(prlimit); inherited SIG_IGN for these signals is not modelled",
        "work() is abstracted to the sequence of read()/write() calls it makes and its final verdict (recorded from a fault-free run)",
        "POSIX semantics of open(O_CREAT|O_EXCL), unlink, close, f*; a failed close() is assumed to have lost data",
    ]
    assumptions = [
        "the unlink() inside cleanup() does not itself fail (otherwise a partial output file can remain; the input is still intact)",
        "no other process modifies the tree during the run",
    ]

    def setup(self):
        if hasattr(self, "exe"):
            return
        self.exe = vlib.build_lbzip2("rel")
        self.so = faultlib.build_faultinj()
        self.codec = fl.Codec(self.exe)
        self.scn_dir = os.path.join(self.work, "scn")
        shutil.rmtree(self.scn_dir, ignore_errors=True)
        os.makedirs(self.scn_dir, exist_ok=True)
        self.traces = {}

    # ---- base scenarios ------------------------------------------------------------------------
    def base_scenarios(self):
        r = self.rng
        text = bytes(r.choice(b"abcde \n") for _ in range(700))
        z = self.codec.get("C", text)[1]
        text2 = b"second operand " * 20
        z2 = self.codec.get("C", text2)[1]
        bad = bytearray(z)
        bad[len(bad) // 2] ^= 0x10
        bad = bytes(bad)
        S = []

        def scn(names, inodes, ops, flags):
            return {"names": names, "inodes": inodes, "ops": ops, "flags": flags, "plan": None}
        S.append(("compress", scn({"a": ("L", 10)}, {10: reg(text)}, ["a"], [])))
        S.append(("compress-k", scn({"a": ("L", 10)}, {10: reg(text)}, ["a"], ["-k"])))
        S.append(("decompress", scn({"a.bz2": ("L", 10)}, {10: reg(z)}, ["a.bz2"], ["-d"])))
        S.append(("decompress-k", scn({"a.bz2": ("L", 10)}, {10: reg(z)}, ["a.bz2"], ["-d", "-k"])))
        S.append(("compress-f-preexisting", scn({"a": ("L", 10), "a.bz2": ("L", 11)}, {10: reg(text), 11: reg(b"old")}, ["a"], ["-f"])))
        S.append(("decompress-corrupt", scn({"a.bz2": ("L", 10)}, {10: reg(bad)}, ["a.bz2"], ["-d"])))
        S.append(("compress-two", scn({"a": ("L", 10), "b": ("L", 11)}, {10: reg(text), 11: reg(text2, 0o600)}, ["a", "b"], [])))
        S.append(("compress-setuid", scn({"a": ("L", 10)}, {10: reg(text, 0o4755)}, ["a"], [])))
        S.append(("compress-stdout", scn({"a": ("L", 10)}, {10: reg(text)}, ["a"], ["-c"])))
        # -f follows a symbolic link operand; here the output name `l` is not on the way to the file, so this is safe with and
        # without the same-file check of the repaired source (the unsafe variant is the force-symlink finding probe below)
        S.append(("decompress-f-symlink", scn({"real.bz2": ("L", 10), "l.bz2": ("S", "real.bz2"), "l": ("L", 11)},
                                              {10: reg(z), 11: reg(b"old output")}, ["l.bz2"], ["-d", "-f"])))
        if self.tier != "quick":
            big = bytes(r.below(256) for _ in range(300000)) + text * 300
            zb = self.codec.get("C", big)[1]
            S.append(("decompress-two-k", scn({"a.bz2": ("L", 10), "b.tbz": ("L", 11)}, {10: reg(z), 11: reg(z2)}, ["a.bz2", "b.tbz"], ["-d", "-k"])))
            S.append(("compress-large", scn({"a": ("L", 10)}, {10: reg(big)}, ["a"], [])))
            S.append(("decompress-large", scn({"a.bz2": ("L", 10)}, {10: reg(zb)}, ["a.bz2"], ["-d"])))
            S.append(("test", scn({"a.bz2": ("L", 10)}, {10: reg(z)}, ["a.bz2"], ["-t"])))
            S.append(("decompress-stdout", scn({"a.bz2": ("L", 10)}, {10: reg(z)}, ["a.bz2"], ["-dc"])))
            S.append(("compress-f-hardlink", scn({"a": ("L", 10), "a.lnk": ("L", 10)}, {10: reg(text)}, ["a"], ["-f"])))
            S.append(("compress-skip-then-file", scn({"x.bz2": ("L", 10), "a": ("L", 11)}, {10: reg(z), 11: reg(text)}, ["x.bz2", "nope", "a"], [])))
            S.append(("decompress-notbz2", scn({"a.bz2": ("L", 10)}, {10: reg(text)}, ["a.bz2"], ["-d"])))
            S.append(("compress-empty", scn({"a": ("L", 10)}, {10: reg(b"")}, ["a"], [])))
        return S

    # ---- the I/O trace of work() for one input (the codec instance of the model) -------------------
    def trace_codec(self, cfg, data):
        """Run the binary on one operand under the logging shim; returns a CODEC line."""
        mode = "C" if not cfg["decompress"] else ("X" if fl.hdr_ok(data) else "P")
        om = cfg["outmode"]
        key = (mode, om, data)
        if key in self.traces:
            return self.traces[key]
        if mode == "P" and not (cfg["force"] and om == "c"):
            return None
        d = os.path.join(self.scn_dir, "trace%d" % len(self.traces))
        nm = "x.bz2" if cfg["decompress"] else "x"
        flags = (["-d"] if cfg["decompress"] else []) + {"r": [], "c": ["-c"], "t": ["-t"]}[om] + (["-f"] if mode == "P" else [])
        scn = {"names": {nm: ("L", 10)}, "inodes": {10: reg(data)}, "ops": [nm], "flags": flags, "plan": None}
        log = os.path.join(d + ".log")
        if os.path.exists(log):
            os.unlink(log)
        real = fl.run_real(self.exe, scn, d, env_extra=faultlib.fi_env(log=log))
        ok = real["outcome"] in ("E0", "E4")
        outdata = real["out"] if om == "c" else b""
        if om == "r" and ok:
            q = doc_out_name(cfg["decompress"], nm)
            for e in real["listing"]:
                if e["path"] == q:
                    outdata = e["data"]
        evs, pos = [], 0
        for e in faultlib.parse_log(log):
            if e["main"]:
                continue
            if e["call"] == "read" and e["cls"] == "file":
                evs.append("R")
            elif e["call"] == "write" and e["cls"] in ("file", "stdout") and (e["ret"] or 0) > 0:
                n = e["ret"]
                chunk = outdata[pos:pos + n]
                if len(chunk) < n:
                    chunk = chunk + b"\0" * (n - len(chunk))
                pos += n
                evs.append("W" + chunk.hex())
        key_data = data[4:] if mode == "P" else data
        line = "CODEC %s %s %d %s" % (mode, fl.hx(key_data), 1 if ok else 0, " ".join(evs))
        self.traces[key] = line
        return line

    def codec_lines(self, scn):
        cfg = fl.cfg_of_flags(scn["flags"])
        lines = []
        for ino, nd in scn["inodes"].items():
            if nd["kind"] == "r":
                ln = self.trace_codec(cfg, nd["data"])
                if ln and ln not in lines:
                    lines.append(ln)
        return lines

    # ---- enumeration of injection points -----------------------------------------------------------
    def enumerate_calls(self, name, scn, idx):
        d = os.path.join(self.scn_dir, "enum%d" % idx)
        log = d + ".log"
        if os.path.exists(log):
            os.unlink(log)
        real = fl.run_real(self.exe, scn, d, env_extra=faultlib.fi_env(log=log))
        pts = []
        for e in faultlib.parse_log(log):
            if e["cls"] in ("file", "stdout") and e["call"] in ("read", "write", "close", "open", "unlink", "fchown", "fchmod", "futimens"):
                pts.append((e["call"], e["cls"], e["n"], not e["main"]))
        return real, pts

    @staticmethod
    def split_chunk(lines, k, limit):
        """CODEC lines with the k-th written chunk cut at the file-size limit; returns (lines, index of the failing write)."""
        out, n_fail = [], k
        for ln in lines:
            w = ln.split(" ")
            head, evs = w[:4], w[4:]
            cum, idx, new = 0, 0, []
            for ev in evs:
                if ev.startswith("W"):
                    idx += 1
                    data = ev[1:]
                    sz = len(data) // 2
                    if idx == k and cum < limit < cum + sz:
                        part = limit - cum
                        new += ["W" + data[:2 * part], "W" + data[2 * part:]]
                        n_fail = k + 1
                    else:
                        new.append(ev)
                    cum += sz
                else:
                    new.append(ev)
            out.append(" ".join(head + new))
        return out, n_fail

    @staticmethod
    def model_kind(call, cls):
        return call + "-stdout" if cls == "stdout" else call

    def run_plan(self, scn, call, cls, n, act, val, d):
        if act == "L":
            # a genuine file-size limit: the kernel cuts the write that crosses it short and fails the next one with
            # EFBIG + SIGXFSZ for the writing thread
            return fl.run_real(self.exe, scn, d, wrapper=["prlimit", "--fsize=%d" % val])
        if act == "FS":
            env = faultlib.fi_env(call=call, fdclass=cls, nth=n, err=val, signal_too=True)
        elif act == "F":
            env = faultlib.fi_env(call=call, fdclass=cls, nth=n, err=val)
        elif val == "KILL":
            env = faultlib.fi_env(call=call, fdclass=cls, nth=n, kill=True)
        else:
            env = faultlib.fi_env(call=call, fdclass=cls, nth=n, raise_sig=dict(SIGS)[val])
        return fl.run_real(self.exe, scn, d, env_extra=env)

    # ---- tie 2 -----------------------------------------------------------------------------------------
    def correspond(self):
        self.setup()
        bases = self.base_scenarios()
        jobs = []           # (name, scn, call, cls, n, act, val)
        self.sub_points = set()
        clean_model = {}
        hist = {"scenarios": {}, "calls": {}, "actions": {}}
        clean = []
        for bi, (name, scn) in enumerate(bases):
            real, pts = self.enumerate_calls(name, scn, bi)
            clean.append((name, scn, real))
            hist["scenarios"][name] = len(pts)
            for (call, cls, n, sub) in pts:
                hist["calls"][call] = hist["calls"].get(call, 0) + 1
                for en, ev in ERRNOS:
                    jobs.append((name, scn, call, cls, n, "F", ev))
                for sn, _ in SIGS:
                    jobs.append((name, scn, call, cls, n, "R", sn))
                    if sub:
                        self.sub_points.add((name, call, cls, n))
                if call == "write" and cls == "file":
                    # the errno comes with its signal, as from the kernel: EFBIG + SIGXFSZ, EPIPE + SIGPIPE
                    jobs.append((name, scn, call, cls, n, "FS", 27))
                    jobs.append((name, scn, call, cls, n, "FS", 32))
        # model: fault-free cases + one case per plan
        texts = []
        lines = {name: self.codec_lines(scn) for name, scn, _ in clean}
        # genuine RLIMIT_FSIZE runs: a limit inside the k-th chunk work() writes (single file operand scenarios)
        nlimit = 0
        for name, scn, real in clean:
            if name not in ("compress", "compress-k", "decompress", "decompress-k", "compress-large", "decompress-large"):
                continue
            sizes = []
            for ln in lines[name]:
                sizes = [len(ev) // 2 for ev in ln.split(" ")[4:] if ev.startswith("W")]
            cum = 0
            for k, sz in enumerate(sizes, 1):
                if k <= 6 or k == len(sizes):
                    jobs.append((name, scn, "write", "file", k, "L", cum + (sz // 2 if sz > 1 else 0)))
                    nlimit += 1
                cum += sz
        hist["rlimit_fsize_runs"] = nlimit
        for bi, (name, scn, real) in enumerate(clean):
            texts.append(fl.case_text("clean%d" % bi, scn, lines[name]))
        for ji, (name, scn, call, cls, n, act, val) in enumerate(jobs):
            s2 = dict(scn)
            jl = lines[name]
            if act == "L":
                # the kernel completes the part of the crossing write that fits (short count); xwrite() then issues the rest,
                # which fails with EFBIG: in the model the chunk is split in two and the second part fails
                jl, n_fail = self.split_chunk(lines[name], n, val)
                s2["plan"] = ("write", n_fail, "F", 27)
            else:
                s2["plan"] = (self.model_kind(call, cls), n, "R" if act == "R" else "F", val)
            texts.append(fl.case_text("j%d" % ji, s2, jl))
        model = fl.run_model("".join(texts))

        def one(ji):
            name, scn, call, cls, n, act, val = jobs[ji]
            return self.run_plan(scn, call, cls, n, act, val, os.path.join(self.scn_dir, "j%d" % ji))
        with ThreadPoolExecutor(max_workers=min(12, vlib.NCPU)) as ex:
            reals = list(ex.map(one, range(len(jobs))))
        self.jobs, self.reals = jobs, reals
        self.models = [model["j%d" % ji] for ji in range(len(jobs))]
        dis = []
        nontriv = set()
        outcomes = {}
        for bi, (name, scn, real) in enumerate(clean):
            d = fl.compare(scn, real, model["clean%d" % bi], check_stdout=True)
            if d:
                dis.append({"scenario": fl.scn_brief(scn), "argv": fl.argv_of(scn), "plan": None, "name": name, "diffs": d[:8]})
        flaky = 0
        lost_term = 0
        for bi, (name, scn, real) in enumerate(clean):
            clean_model[name] = model["clean%d" % bi]
        for ji, (job, real) in enumerate(zip(jobs, reals)):
            name, scn, call, cls, n, act, val = job
            m = self.models[ji]
            d = fl.compare(scn, real, m, check_stdout=False)
            if act == "R":
                # while the main thread handles a signal, a worker may still print the diagnostic of a failure it ran into
                d = [x for x in d if not x.startswith("diagnostics")]
            if d:
                # a signal raised by a worker thread races with the completion signal of the run: retry
                again = self.run_plan(scn, call, cls, n, act, val, os.path.join(self.scn_dir, "j%d" % ji))
                d2 = fl.compare(scn, again, m, check_stdout=False)
                if act == "R":
                    d2 = [x for x in d2 if not x.startswith("diagnostics")]
                if not d2:
                    flaky += 1
                    self.reals[ji] = again
                    d = []
            if d and val == "TERM" and (name, call, cls, n) in self.sub_points:
                # SIGTERM raised by a worker thread can coincide with the completion signal SIGUSR2 of the same run;
                # signal_handler() keeps only the last one (caught_index), so the SIGTERM is swallowed and the run goes on as
                # if it had not been sent (declared partiality of the model; reported as a finding, counted here)
                if not fl.compare(scn, self.reals[ji], clean_model[name], check_stdout=False):
                    lost_term += 1
                    if not hasattr(self, "lost_term_example"):
                        self.lost_term_example = (name, scn, call, cls, n, self.reals[ji]["outcome"])
                    d = []
            if d:
                dis.append({"scenario": fl.scn_brief(scn), "argv": fl.argv_of(scn), "name": name,
                            "plan": [call, cls, n, act, val], "diffs": d[:8]})
            outcomes[m["outcome"]] = outcomes.get(m["outcome"], 0) + 1
            hist["actions"][str(val)] = hist["actions"].get(str(val), 0) + 1
            if m["outcome"] not in ("E0",):
                nontriv.add((name, call, cls, n, act, val))
        # reproduction of the finding behind C16_force_symlink_refuted (model and binary agree: the data is lost)
        fscn = {"names": {"x": ("L", 10), "x.bz2": ("S", "x")}, "inodes": {10: reg(b"precious data, not bzip2\n")},
                "ops": ["x.bz2"], "flags": ["-d", "-f"], "plan": None}
        freal = fl.run_real(self.exe, fscn, os.path.join(self.scn_dir, "finding_symlink"))
        fmodel = fl.run_model(fl.case_text("fs", fscn, self.codec_lines(fscn)))["fs"]
        fd = fl.compare(fscn, freal, fmodel)
        if fd:
            dis.append({"scenario": fl.scn_brief(fscn), "argv": fl.argv_of(fscn), "name": "force-symlink", "plan": None, "diffs": fd[:8]})
        lost = freal["outcome"] == "E1" and not any(e.get("data") == fscn["inodes"][10]["data"] for e in freal["listing"])
        self.notes.append("finding force-symlink (`echo data > x; ln -s x x.bz2; lbzip2 -df x.bz2`): exit %s, data %s" % (
            freal["outcome"], "LOST (no file holds it any more)" if lost else "still present"))
        self.finding_symlink = (fscn, freal, lost)
        self.clean_runs = {name: (scn, real) for name, scn, real in clean}
        self.disagreements = dis
        for dd in dis[:6]:
            self.broken.append(Broken("correspondence", "fault model vs lbzip2 differ: scenario %s, `lbzip2 %s`, plan %s" % (
                dd["name"], " ".join(dd["argv"]), dd["plan"]), "; ".join(dd["diffs"])[:1500]))
        hist["model_outcomes"] = outcomes
        hist["retried_and_agreed"] = flaky
        hist["sigterm_swallowed_by_completion_signal"] = lost_term
        self.lost_term = lost_term
        return {
            "evaluations": len(jobs) + len(clean), "distinct_nontrivial": len(nontriv),
            "rule": "(plus: every write() on a FILE output failing with EFBIG+SIGXFSZ and EPIPE+SIGPIPE as the kernel does it, and "
                    "genuine runs under RLIMIT_FSIZE (prlimit) with the limit inside each of the first chunks written) for each base scenario (compress/decompress of a FILE operand with and without -k, -f over an existing output, "
                    "corrupt input, two operands, setuid mode, -c) EVERY occurrence of read/write/close/open/unlink/fchown/fchmod/"
                    "futimens on the operand files (and write/close on stdout) logged in a fault-free run is hit once with each of "
                    "EIO, ENOSPC, EACCES (call fails) and SIGINT, SIGTERM, SIGKILL (raised at the call); final listing, exit "
                    "status / terminating signal and diagnostics class are compared with MainLoop.run under the same plan; "
                    "non-trivial = distinct plans whose outcome is not a clean exit 0",
            "samples": [{"scenario": j[0], "plan": list(j[2:])} for j in jobs[:3]],
            "histogram": hist, "disagreements": len(dis),
        }

    # ---- the property itself on the real before/after state ---------------------------------------------
    def two_state(self, scn, real, plan):
        """Clauses of C16 evaluated on the real result.  Returns list of problems."""
        cfg = fl.cfg_of_flags(scn["flags"])
        if cfg["outmode"] != "r":
            # nothing may change at all
            after = {e["path"]: e for e in real["listing"]}
            bad = []
            for p, e in scn["names"].items():
                nd = scn["inodes"][e[1]] if e[0] == "L" else None
                a = after.get(p)
                if nd and nd["kind"] == "r" and (a is None or a.get("data") != nd["data"]):
                    bad.append("input %r changed or lost although output goes to stdout" % p)
            return bad
        after = {e["path"]: e for e in real["listing"]}
        problems = []
        unlink_failed = plan is not None and plan[0] == "unlink" and plan[3] == "F"
        for op in scn["ops"]:
            e = scn["names"].get(op)
            if e is None or e[0] != "L" or scn["inodes"][e[1]]["kind"] != "r":
                continue
            nd = scn["inodes"][e[1]]
            q = doc_out_name(cfg["decompress"], op)
            a_in, a_out = after.get(op), after.get(q)
            intact = a_in is not None and a_in["kind"] == "r" and a_in["data"] == nd["data"] and a_in["mode"] == nd["mode"]
            pre = scn["names"].get(q)
            out_absent = a_out is None or (pre is not None and pre[0] == "L" and a_out.get("kind") == "r" and
                                           a_out.get("data") == scn["inodes"][pre[1]]["data"] and
                                           a_out.get("mtime") == scn["inodes"][pre[1]]["mtime"])
            mode = "C" if not cfg["decompress"] else "X"
            ok, want = self.codec.get(mode, nd["data"]) if (mode == "C" or fl.hdr_ok(nd["data"])) else (False, b"")
            complete = ok and a_out is not None and a_out["kind"] == "r" and a_out["data"] == want
            first = intact and out_absent
            second = complete and (a_in is None or cfg["keep"] or unlink_failed)
            killed = real["outcome"] == "KKILL"
            if killed:
                if not (intact or complete):
                    problems.append("after SIGKILL operand %r is neither intact nor completely converted (input %s, output %s)" % (
                        op, fl.short(a_in) if a_in else "absent", fl.short(a_out) if a_out else "absent"))
            elif not (first or second):
                problems.append("operand %r ends in neither state: input %s, output %r %s, exit %s" % (
                    op, "intact" if intact else (fl.short(a_in) if a_in else "absent"), q,
                    "complete" if complete else (fl.short(a_out) if a_out else "absent"), real["outcome"]))
        return problems

    def direct(self):
        if not hasattr(self, "jobs"):
            return []
        viols = []
        pairing = {"exit1_or_signal_with_second_state": 0}
        pairing_example = None
        for job, real, m in zip(self.jobs, self.reals, self.models):
            name, scn, call, cls, n, act, val = job
            plan = (call, n, cls, act, val)
            if any(h["cleanfail"] for h in m["hist"]):
                continue        # declared assumption: the unlink inside cleanup() failed (double fault)
            probs = self.two_state(scn, real, plan)
            if real["outcome"] in ("E1", "KINT", "KTERM") and not probs:
                cfg = fl.cfg_of_flags(scn["flags"])
                after = {e["path"] for e in real["listing"]}
                if cfg["outmode"] == "r" and scn["ops"] and doc_out_name(cfg["decompress"], scn["ops"][-1]) in after \
                        and scn["ops"][-1] not in after:
                    pairing["exit1_or_signal_with_second_state"] += 1
                    if pairing_example is None:
                        pairing_example = (name, scn, [call, cls, n, act, val], real)
            for pb in probs[:2]:
                viols.append(Violation("c16:data-loss:%s" % ("rlimit-fsize" if act == "L" else call), "scenario %s, `lbzip2 %s`, %s #%d %s %s: %s" % (
                    name, " ".join(fl.argv_of(scn)), call, n,
                    {"F": "fails with errno", "FS": "fails, with its signal, with errno", "R": "raises SIG",
                     "L": "hits RLIMIT_FSIZE ="}[act], val, pb),
                    {"scenario": fl.scn_brief(scn), "argv": fl.argv_of(scn), "plan": [call, cls, n, act, val], "name": name,
                     "exit": real["outcome"], "after": [fl.short(e) for e in real["listing"]]}))
        self.notes.append("status/state pairing: %d injected runs ended with exit 1 or death by INT/TERM although the last operand was "
                          "already completely converted (close(input) failing, or a signal taken at/after sti()) -- no data lost; "
                          "see C16_status_pairing_refuted" % pairing["exit1_or_signal_with_second_state"])
        self.notes.append("observation sigterm-swallowed (not a C16 violation: the signal does not stop the run): in %d injected runs a SIGTERM raised by a worker thread at one of its last write() calls "
                          "was overwritten by the completion signal SIGUSR2 (signal_handler keeps only the last signal in caught_index); "
                          "lbzip2 then finished normally with status 0 instead of terminating" % getattr(self, "lost_term", 0))
        viols += self.findings(pairing, pairing_example)
        seen, out = set(), []
        for v in viols:
            if v.key not in seen:
                seen.add(v.key)
                out.append(v)
        return out

    def findings(self, pairing, pairing_example):
        """Confirmed deviations of the implementation from the property text, reported with fixed keys whenever this run
        reproduced them on the real binary (they are meant to be listed in known_findings.json)."""
        out = []
        # (1) data loss with -f when the operand is a symbolic link to the file that has the output's name
        if hasattr(self, "finding_symlink"):
            fscn, freal, lost = self.finding_symlink
            if lost:
                out.append(Violation("c16:force-symlink",
                                     "`echo data > x; ln -s x x.bz2; lbzip2 -df x.bz2`: the run fails (exit %s) and the data is gone: -f unlinks "
                                     "the output name `x`, which is the file the operand links to, before work(); cleanup() then removes the new "
                                     "file (C16_force_symlink_refuted)" % freal["outcome"],
                                     {"scenario": fl.scn_brief(fscn), "argv": fl.argv_of(fscn), "plan": None, "exit": freal["outcome"],
                                      "after": [fl.short(e) for e in freal["listing"]]}))
        # (2) exit status 1 / death by signal although the operand is already in the second state
        if pairing_example is not None:
            name, scn, plan, real = pairing_example
            out.append(Violation("c16:status-pairing",
                                 "scenario %s, `lbzip2 %s`, plan %s: ends with %s although the output is complete and the input removed "
                                 "(close(input) failing, or a signal taken at/after sti()); %d such plans in this run; nothing is lost "
                                 "(C16_status_pairing_refuted)" % (name, " ".join(fl.argv_of(scn)), plan, real["outcome"],
                                                                    pairing["exit1_or_signal_with_second_state"]),
                                 {"scenario": fl.scn_brief(scn), "argv": fl.argv_of(scn), "plan": plan, "name": name, "exit": real["outcome"],
                                  "after": [fl.short(e) for e in real["listing"]]}))
        # (3) SIGTERM swallowed by the completion signal: the signal does not stop lbzip2 and the run ends complete with status 0,
        # so this is outside what C16 claims ("whenever SIGINT or SIGTERM stops lbzip2"); kept as an observation in the notes
        ex = getattr(self, "lost_term_example", None)
        if ex is not None:
            name, scn, call, cls, n, outcome = ex
            self.notes.append("observation sigterm-swallowed: first instance: scenario %s, `lbzip2 %s`, SIGTERM raised at %s #%d of a worker "
                              "thread -> %s" % (name, " ".join(fl.argv_of(scn)), call, n, outcome))
        return out

    def search(self):
        # direct() already evaluates the predicate on every enumerated plan of this run; nothing concrete beyond that
        return []

    def replay(self, path):
        self.setup()
        p = json.load(open(path))
        if "scenario" not in p:
            print("replay file names no scenario:", json.dumps(p.get("broken"), indent=1)[:3000])
            return 1
        scn = fl.scn_from_brief(p["scenario"])
        pl = p.get("plan")
        d = os.path.join(self.scn_dir, "replay")
        if pl:
            call, cls, n, act, val = pl
            real = self.run_plan(scn, call, cls, n, act, val, d)
            plan = (call, n, cls, act, val)
        else:
            real = fl.run_real(self.exe, scn, d)
            plan = None
        print("lbzip2", " ".join(fl.argv_of(scn)), "plan", pl, "->", real["outcome"])
        print(real["err"].decode("latin-1"))
        for e in real["listing"]:
            print("  ", fl.short(e))
        probs = self.two_state(scn, real, plan)
        for x in probs:
            print("VIOLATION:", x)
        return 1 if probs else 0
