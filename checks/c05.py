"""C05 - decompression never accepts malformed data or emits wrong bytes."""
import os

import vlib
import declib
from runner import PropertyCheck, Broken, Violation


class Check(PropertyCheck):
    pid = "C05"
    props_module = "Properties.Properties_C05"
    extra_targets = ["Extract/ExtractDec.vo"]
    gen_files = declib.DEC_GEN + ["ParseTab.v"]
    extra_props = ["Properties.Properties_C15parse", "Properties.Properties_C09retr"]
    trusted_base = declib.PARSE_TRUSTED + declib.DEC_TRUSTED
    assumptions = ["files are byte strings; the process-level glue (work(), scheduler) is covered by C07/C09/C10"]

    def corpus(self):
        d = os.path.join(vlib.VERIF, "harness", "corpus", "c05")
        out = []
        if os.path.isdir(d):
            for n in sorted(os.listdir(d)):
                out.append((open(os.path.join(d, n), "rb").read(), "corpus:" + n))
        return out

    def correspond(self):
        quick = self.tier == "quick"
        files, hist = declib.gen_files(self.rng, 120 if quick else 1500, 155 if quick else 1550, 150 if quick else 2000,
                                       maxlen=220 if quick else 400)
        files = self.corpus() + files
        self.files = [f for f, t in files]
        self.tags = [t for f, t in files]
        self.model, self.impl = declib.model_vs_impl(self, self.files, self.tags)
        self.ref = declib.run_model("ref", self.files)
        self.lib = declib.run_libbz2(self.files)
        spec_mis = {"ref_ok_lib_err": 0, "ref_err_lib_ok": 0}
        for f, t, r, l in zip(self.files, self.tags, self.ref, self.lib):
            if declib.verdict(r) == "OK" and r != l:
                spec_mis["ref_ok_lib_err"] += 1
                if spec_mis["ref_ok_lib_err"] <= 3:
                    self.broken.append(Broken("spec-validation", "ref_decode accepts a %s file that libbz2 rejects/decodes differently" % t,
                                              "ref=%s libbz2=%s file_hex=%s" % (r, l, f.hex()[:400])))
            elif declib.verdict(r) != "OK" and declib.verdict(l) == "OK":
                spec_mis["ref_err_lib_ok"] += 1
        verd = {}
        for a in self.model:
            k = a if a.startswith("ERR") else "OK"
            verd[k] = verd.get(k, 0) + 1
        nontriv = set(f for f, a in zip(self.files, self.model) if not a.startswith("ERR NotBzip2") and a != "ERR Header")
        return {
            "evaluations": len(self.files), "distinct_nontrivial": len(nontriv),
            "rule": "crafted valid multi-block/multi-stream files, one planted defect from a 31-entry catalogue (delta start values and "
                    "excursions, selectors, tables, EOB, overflow, primary index, CRCs, truncation, magic), and bit/byte/truncation/append "
                    "mutations; non-trivial = distinct files that get past the stream and first block header in the model",
            "samples": [{"tag": t, "file_hex": f.hex()[:160], "model": a, "impl": b[0]}
                        for f, t, a, b in list(zip(self.files, self.tags, self.model, self.impl))[:2] +
                        list(zip(self.files, self.tags, self.model, self.impl))[-2:]],
            "histogram": hist, "model_verdicts": verd, "disagreements": self.dec_disagreements,
            "spec_validation_vs_libbz2": spec_mis,
        }

    def direct(self):
        return declib.property_c05(self.files, self.tags, self.impl, self.ref, self.lib)

    def search(self):
        # aim at the delta-code reader: every alignment of an excursion inside the 6-bit windows
        rng = self.rng
        files, tags = [], []
        for k in range(400 if self.tier == "quick" else 4000):
            kind = ["start0", "start21", "start31", "exc_low", "exc_high", "exc_low3", "exc_high3"][k % 7]
            f, kind, _ = declib.bzcraft.one_defect(rng, kind, 120)
            files.append(f)
            tags.append("defect:" + kind)
        impl = declib.run_impl(files)
        ref = declib.run_model("ref", files)
        lib = declib.run_libbz2(files)
        return declib.property_c05(files, tags, impl, ref, lib)

    def replay(self, path):
        import json
        p = json.load(open(path))
        if "file_hex" not in p:
            print(json.dumps(p.get("broken"), indent=1)[:3000])
            return 1
        f = bytes.fromhex(p["file_hex"])
        impl = declib.run_impl([f])[0]
        ref = declib.run_model("ref", [f])[0]
        print("impl:", impl[0], "\nref :", ref, "\nlibbz2:", declib.run_libbz2([f])[0])
        return 0 if (declib.verdict(impl[0]) != "OK" or impl[0] == ref) else 1
