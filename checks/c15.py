"""C15 - stored CRC fields are enforced."""
import os

import vlib
import declib
from runner import PropertyCheck, Broken, Violation


def flip(f, i):
    b = bytearray(f)
    b[i // 8] ^= 0x80 >> (i % 8)
    return bytes(b)


class Check(PropertyCheck):
    pid = "C15"
    props_module = "Properties.Properties_C15"
    extra_targets = ["Extract/ExtractDec.vo"]
    gen_files = declib.DEC_GEN + ["ParseTab.v"]
    extra_props = ["Properties.Properties_C15parse"]
    trusted_base = declib.PARSE_TRUSTED + declib.DEC_TRUSTED
    assumptions = ["the pairing of a decoded block with the header CRC it is compared with, at process level, is property C10"]

    def gen(self, n):
        rng = self.rng
        files = []
        while len(files) < n:
            f, plain = declib.bzcraft.valid_file(rng, 200)
            if len(f) < 1500:
                files.append(f)
        # stored CRCs with special values (0, one bit set, all ones): a flipped bit then gives 0 / a power of two / ...
        bc = declib.bzcraft
        for tgt in [0, 0xFFFFFFFF, 1 << rng.below(32), 1 << rng.below(32), 0x80000000, 1] + ([1 << k for k in range(32)] if self.tier != "quick" else []):
            d = bc.random_plain(rng, 60)
            d = bytes(d) + bc.forge_crc_suffix(bytes(d), tgt)
            blk = bc.Block(d)
            mid = bc.to_bytes(bc.stream([blk], rng.range(1, 9), rng))
            if rng.chance(1, 2):       # place it between other streams
                mid = bc.valid_file(rng, 60)[0][:0] + bc.to_bytes(bc.stream([bc.valid_block(rng, 60)], 3, rng)) + mid + bc.to_bytes(bc.stream([bc.valid_block(rng, 60)], 7, rng))
            files.append(mid)
        return files

    def positions(self, files):
        info = declib.run_model("info", files)
        out = []
        for l in info:
            if l.startswith("OK"):
                parts = l.split()
                out.append([int(x) for x in parts[3].split(",")] if len(parts) > 3 and parts[3] else [])
            else:
                out.append(None)
        return out

    def correspond(self):
        quick = self.tier == "quick"
        base = self.gen(14 if quick else 120)
        pos = self.positions(base)
        flipped, origin = [], []
        nfields = 0
        kinds = {"first": 0, "middle": 0, "last": 0, "stream": 0}
        for f, ps in zip(base, pos):
            if ps is None:
                self.broken.append(Broken("correspondence", "model rejects a generated valid file", f.hex()[:300]))
                continue
            nfields += len(ps)
            for p in ps:
                for j in range(32):
                    flipped.append(flip(f, p + j))
                    origin.append((f, p, j))
        self.flipped, self.origin = flipped, origin
        model = declib.run_model("lbz", flipped)
        impl = declib.run_impl(flipped, nworkers=(1, 4))
        self.impl = impl
        nd = 0
        for (f, p, j), a, (b, rc, err) in zip(origin, model, impl):
            if declib.verdict(a) != declib.verdict(b):
                nd += 1
                if nd <= 5:
                    self.broken.append(Broken("correspondence", "model and lbzip2 -d differ after flipping CRC bit %d+%d" % (p, j),
                                              "model=%s impl=%s file_hex=%s" % (a, b, flip(f, p + j).hex()[:400])))
            if declib.verdict(a) == "OK":
                self.broken.append(Broken("model", "extracted model accepts a file with a flipped CRC bit (contradicts C15_crc_enforced)", ""))
        return {
            "evaluations": len(flipped), "distinct_nontrivial": len(set(flipped)),
            "rule": "every bit of every stored block/stream CRC field (positions computed by the extracted decode_file_info) of crafted "
                    "multi-block multi-stream files, flipped one at a time, worker counts 1 and 4; exhaustive per file",
            "samples": [{"file_hex": f.hex()[:120], "crc_field_bit_offset": p, "bit": j, "impl": b[0]}
                        for (f, p, j), b in list(zip(origin, impl))[:3]],
            "files": len(base), "crc_fields": nfields, "disagreements": nd, "exhaustive": False,
        }

    def direct(self):
        out = []
        for (f, p, j), (b, rc, err) in zip(self.origin, self.impl):
            if rc != 1:
                out.append(Violation("crc-not-enforced", "flipping bit %d of the CRC field at bit offset %d: lbzip2 -d gives %s instead of exit 1" % (j, p, b),
                                     declib.hexfile_payload(flip(f, p + j), {"original_hex": f.hex(), "field_offset": p, "bit": j, "impl": b})))
                if len(out) >= 3:
                    break
        return out

    def search(self):
        return self.direct()

    def replay(self, path):
        import json
        p = json.load(open(path))
        if "file_hex" not in p:
            print(json.dumps(p.get("broken"), indent=1)[:3000])
            return 1
        impl = declib.run_impl([bytes.fromhex(p["file_hex"])])[0]
        print("impl:", impl[0])
        return 0 if impl[1] == 1 else 1
