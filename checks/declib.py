"""Shared helpers for the decoder properties (C05, C06, C07, C15): running the
extracted models, the real binary, libbz2 and minbzcat on the same files."""
import bz2
import hashlib
import os
import subprocess
import sys
from concurrent.futures import ThreadPoolExecutor

import vlib

sys.path.insert(0, os.path.join(vlib.VERIF, "harness"))
import bzcraft  # noqa: E402

DEC_GEN = ["DecTabs.v", "CrcTab.v", "Consts.v"]
PARSE_TRUSTED = [
    "stream layer: lib/gen_parse.py transcribes the switch of parse() (src/parse.c) statement by statement into Gen/ParseTab.v (typed C "
    "expressions with explicit 32-bit wrap; refuses goto/loops/unknown calls/changed bits_* macros); Properties_C15parse proves that the "
    "regenerated machine, driven as expand.c drives it, refines the stream layer of Dec/Format.v (verdicts, (level, CRC) sequence, "
    "combined stream CRC compared in all 32 bits, concatenated streams, trailing garbage 0/16/32 bits) for every bit string, block "
    "handler and chunking; hand-written there: the list-plus-eof model of the bit buffer (32-bit word granularity, zero padding of the "
    "last word and expand.c's eof_missing are not modelled) and the driver pdrive",
]
DEC_TRUSTED = [
    "Coq 8.16.1 kernel (coqc); vm_compute for finite sweeps over regenerated tables (64-entry delta/selector tables, "
    "304 window/strict state pairs, 256-entry CRC table); no native_compute",
    "axioms: none",
    "translator lib/gen_from_source.py: decode.c tables L,R,(Rmin,Rmax),table,rand_table, range-check constants, selector clamp; crctab.c; common.h constants",
    "hand model Dec/Format.v (generic format decoder as bit-reader programs) with policy Dec/Policies.v lbz_policy = model of "
    "decode.c/parse.c/expand.c checks; tied by correspondence of the extracted model (ExtrOcamlBasic only) with the real `lbzip2 -d` "
    "binary on crafted/mutated/truncated streams; prefix decoding is modelled canonically (start-table/base[] walk of decode.c "
    "is covered by correspondence only); the 32-bit look-ahead of NEED() and the zero padding + eof_missing test are modelled by "
    "their net effect (reading past the real end of file is an error)",
    "reference (strict format) decoder ref_policy is validated against libbz2 (python bz2) and tests/minbzcat.c on generated streams",
]


def model_driver():
    return vlib.build_ocaml("dec_model", os.path.join(vlib.COQ, "Extract", "ml"), ["dec_model"], "dec_driver.ml")


def run_model(mode, files, timeout=1200):
    """mode in lbz/ref/noexc/info; returns list of output lines (one per file)"""
    exe = model_driver()
    # shard for parallelism
    n = len(files)
    if n == 0:
        return []
    shards = max(1, min(vlib.NCPU, n // 20 + 1))
    parts = [files[i::shards] for i in range(shards)]

    def work(part):
        inp = "".join("%s %s\n" % (mode, f.hex() if f else "-") for f in part).encode()
        p = subprocess.run([exe], input=inp, stdout=subprocess.PIPE, stderr=subprocess.PIPE, timeout=timeout)
        lines = p.stdout.decode().splitlines()
        if len(lines) != len(part):
            lines += ["CRASH rc=%s %s" % (p.returncode, p.stderr.decode()[-200:])] * (len(part) - len(lines))
        return lines
    with ThreadPoolExecutor(shards) as ex:
        res = list(ex.map(work, parts))
    out = [None] * n
    for s, lines in enumerate(res):
        for k, l in enumerate(lines):
            out[s + k * shards] = l
    return out


def fmt_out(data):
    return "OK %d %s" % (len(data), hashlib.md5(data).hexdigest())


GRANULES = [None, None, ("4", "1"), ("8", "3"), ("64", "2"), ("12", "7"), ("4096", "5"), ("4", "4"), ("16", "1000")]


def run_impl(files, flavor="rel", args=("-d",), nworkers=(1, 4), env=None, timeout=20, vary_granules=True):
    """Run the real binary as a filter on each file; returns list of (line, rc, stderr).
    line is 'OK len md5' for exit 0, 'ERR <first line of stderr>' for exit 1,
    'SIG <n>' / 'HANG' / 'RC <n>' otherwise."""
    exe = vlib.build_lbzip2(flavor)

    def work(iv):
        i, f = iv
        nw = nworkers[i % len(nworkers)]
        e = dict(os.environ)
        if env:
            e.update(env)
        # hook H2: move the input-block and output-buffer boundaries through the bit stream / the run-length emitter
        g = GRANULES[(i // 2) % len(GRANULES)] if (vary_granules and len(f) < 20000) else None
        if g:
            e["LBZIP2_VERIF_IN_GRANUL"], e["LBZIP2_VERIF_OUT_GRANUL"] = g
        try:
            p = subprocess.run([exe, "-n%d" % nw] + list(args), input=f, stdout=subprocess.PIPE,
                               stderr=subprocess.PIPE, timeout=timeout, env=e)
        except subprocess.TimeoutExpired:
            return ("HANG", -1, "")
        err = p.stderr.decode("latin-1")
        if p.returncode == 0:
            return (fmt_out(p.stdout), 0, err)
        if p.returncode == 1:
            return ("ERR " + (err.strip().splitlines()[-1][:100] if err.strip() else "<no message>"), 1, err)
        if p.returncode < 0:
            return ("SIG %d" % -p.returncode, p.returncode, err)
        return ("RC %d" % p.returncode, p.returncode, err)
    with ThreadPoolExecutor(vlib.NCPU) as ex:
        return list(ex.map(work, list(enumerate(files))))


def libbz2_decode(f):
    """libbz2 stream by stream, with the trailing-data rule of the property: data after a
    complete stream is ignored unless it begins with a full BZh1..BZh9 header."""
    out = b""
    first = True
    while True:
        if not first:
            if not (len(f) >= 4 and f[:3] == b"BZh" and 0x31 <= f[3] <= 0x39):
                return out
        d = bz2.BZ2Decompressor()
        out += d.decompress(f)
        if not d.eof:
            raise EOFError("truncated stream")
        f = d.unused_data
        first = False


def run_libbz2(files):
    out = []
    for f in files:
        try:
            out.append(fmt_out(libbz2_decode(f)))
        except Exception as e:  # OSError / ValueError / EOFError
            out.append("ERR " + type(e).__name__)
    return out


def minbzcat_exe():
    return vlib.build_c("minbzcat", [os.path.join(vlib.REPO, "tests", "minbzcat.c")], flavor="rel")


def run_minbzcat(files, timeout=20):
    exe = minbzcat_exe()

    def work(f):
        try:
            p = subprocess.run([exe], input=f, stdout=subprocess.PIPE, stderr=subprocess.PIPE, timeout=timeout)
        except subprocess.TimeoutExpired:
            return "HANG"
        return fmt_out(p.stdout) if p.returncode == 0 else "ERR"
    with ThreadPoolExecutor(vlib.NCPU) as ex:
        return list(ex.map(work, files))


def verdict(line):
    return "OK" if line.startswith("OK") else ("ERR" if line.startswith("ERR") else line.split()[0])


def gen_files(rng, n_valid, n_defect, n_mut, maxlen=300):
    """Returns list of (bytes, tag) — structured mostly-valid inputs plus a malformed stream."""
    files = []
    hist = {}

    def add(f, tag):
        files.append((f, tag))
        hist[tag] = hist.get(tag, 0) + 1
    for _ in range(n_valid):
        f, plain = bzcraft.valid_file(rng, maxlen)
        add(f, "valid")
    for k in range(n_defect):
        kind = bzcraft.DEFECTS[k % len(bzcraft.DEFECTS)]
        if kind == "overflow1" and k >= len(bzcraft.DEFECTS):
            kind = "exc_low"
        try:
            f, kind, exp = bzcraft.one_defect(rng, kind, maxlen)
        except RecursionError:
            continue
        add(f, "defect:" + kind)
    base = [f for f, t in files if t == "valid"][:max(1, n_mut // 8)]
    for k in range(n_mut):
        f = bytearray(rng.choice(base))
        how = rng.below(4)
        if how == 0 and len(f):
            i = rng.below(len(f) * 8)
            f[i // 8] ^= 0x80 >> (i % 8)
            add(bytes(f), "mut:bitflip")
        elif how == 1 and len(f):
            f[rng.below(len(f))] = rng.below(256)
            add(bytes(f), "mut:byte")
        elif how == 2:
            add(bytes(f[:rng.below(len(f) + 1)]), "mut:trunc")
        else:
            add(bytes(f) + rng.bytes(rng.range(1, 12)), "mut:append")
    return files, hist


# ---------------------------------------------------------------------------------------------
# shared check logic
# ---------------------------------------------------------------------------------------------
from runner import Broken, Violation  # noqa: E402


def hexfile_payload(f, extra=None):
    d = {"file_hex": f.hex(), "how": "python3 -c \"import sys;sys.stdout.buffer.write(bytes.fromhex(open('/dev/stdin').read()))\" "
         "<<< <file_hex> | .work/bin/lbzip2-rel -d ; echo $?"}
    if extra:
        d.update(extra)
    return d


def model_vs_impl(check, files, tags, flavor="rel"):
    """lbz model against the real binary.  Appends Broken on disagreement; returns (model, impl) lines."""
    fs = files
    model = run_model("lbz", fs)
    impl = run_impl(fs, flavor=flavor)
    ndis = 0
    for f, t, a, (b, rc, err) in zip(fs, tags, model, impl):
        va, vb = verdict(a), verdict(b)
        same = (a == b) if (va == "OK" and vb == "OK") else (va == vb)
        if not same:
            ndis += 1
            if ndis <= 5:
                check.broken.append(Broken("correspondence", "lbz_decode model vs `lbzip2 -d` differ on a %s file (%d bytes)" % (t, len(f)),
                                           "model=%s impl=%s file_hex=%s" % (a, b, f.hex()[:400])))
    check.dec_disagreements = ndis
    return model, impl


def property_c05(files, tags, impl, ref, lib):
    """impl accepts => strict reference accepts with the same bytes"""
    out = []
    for f, t, (b, rc, err), r, l in zip(files, tags, impl, ref, lib):
        if verdict(b) == "OK":
            if r != b:
                out.append(Violation("accepts-invalid:" + t.split(":")[-1],
                                     "lbzip2 -d exits 0 on a %s file (%d bytes) that the strict format %s (libbz2: %s); lbzip2 output %s" %
                                     (t, len(f), "rejects" if verdict(r) != "OK" else "decodes differently: " + r, l, b),
                                     hexfile_payload(f, {"impl": b, "ref_model": r, "libbz2": l, "tag": t})))
        elif verdict(b) not in ("ERR",):
            out.append(Violation("abnormal-exit:" + verdict(b), "lbzip2 -d ended with %s on a %s file" % (b, t),
                                 hexfile_payload(f, {"impl": b, "tag": t})))
        if len(out) >= 3:
            break
    return out
