"""C11 - Schedulers are deadlock-free, bounded and order-preserving.

Compression part (area SchedC).  The decompression part is provided by
checks/schedx_part.py (area SchedX); if that module is absent this check covers
compression only and says so in its evidence."""
import bz2
import json
import os

import vlib
import schedc_lib as L
from runner import PropertyCheck, Broken, Violation

try:
    import schedx_part
except Exception:
    schedx_part = None
if schedx_part is not None and not all(hasattr(schedx_part, f) for f in ("correspond_x", "direct_x", "search_x")):
    schedx_part = None          # the decompression part is still under construction


class Check(PropertyCheck):
    pid = "C11"
    props_module = "Properties.Properties_C11"
    extra_targets = ["Extract/ExtractSchedC.vo", "Extract/ExtractPool.vo"] + (list(getattr(schedx_part, "extra_targets", [])) if schedx_part else [])
    gen_files = ["SchedCTab.v", "PoolTab.v", "ParseTab.v", "ScanTab.v", "DecTabs.v", "CrcTab.v", "Consts.v"] + (list(getattr(schedx_part, "gen_files", [])) if schedx_part else [])
    extra_props = (list(getattr(schedx_part, "extra_props_c11", [])) if schedx_part else []) + ["Properties.Properties_C11pool", "Properties.Properties_C11labels"]
    trusted_base = [
        "Coq 8.16.1 kernel (coqc); no axioms (Print Assumptions: closed under the global context)",
        "translator lib/gen_schedc.py: guards can_*, TRANSM_THRESH, task_list order, pqueue_init capacities, "
        "primary_thread resets, sched_unlock signalling condition, set_memory_constraints formulas are transcribed "
        "from compress.c/process.c into Gen/SchedCTab.v on every run; the shapes of worker_thread_proc/select_task are "
        "checked textually",
        "hand model SchedC/SchedC.v of the do_* bodies, reader, writer and worker loop; tied by replaying hook-H3 traces of "
        "the real binary through the extracted step function (harness/schedc_replay.ml, ExtrOcamlBasic only)",
        "pthread semantics: mutual exclusion, condition variables with spurious wake-ups and no lost signal while a "
        "waiter is registered",
        "queues: the scheduler models use lists (deque) and position-sorted lists (pqueue); Properties_C11pool proves that the "
        "array-level models of the process.h macros and of up_heap()/down_heap() (index arithmetic regenerated structurally by "
        "lib/gen_pool.py into Gen/PoolTab.v, 32-bit unsigned) refine exactly those lists for every capacity <= 2^31 with no "
        "out-of-bounds index, uninitialised read or failed assert; tied to the C by harness/pool_h.c vs the extracted model on "
        "random operation sequences (checks/pool_part.py).  For EQUAL keys the heap returns some minimal element: SchedC has "
        "strictly sorted keys (proved); SchedX's model takes the first minimal element in list order, which is faithful only "
        "for distinct keys (not proved there)",
    ]
    assumptions = [
        "num_worker >= 1",
        "collect() is a function of (encoder contents, input bytes) - arbitrary otherwise (Section parameter)",
    ]

    # ------------------------------------------------------------------
    def jobs(self, count):
        r = self.rng
        js = []
        # boundary shapes first: empty input, one byte, exactly one chunk, chunk +- 1
        fixed = [(1, 1, False, 0, 0, "noise"), (2, 1, True, 0, 0, "noise"), (1, 1, False, 0, 1, "noise"),
                 (3, 1, True, 0, 1, "noise"), (2, 1, False, 1, 0, "expand"), (2, 1, True, 1, 0, "expand"),
                 (1, 1, False, 1, 1, "expand"), (4, 2, False, 2, 199999, "expand"), (8, 1, False, 12, 0, "expand"),
                 (8, 1, True, 12, 5, "expand"), (1, 1, True, 6, 0, "mixed"), (1, 2, False, 5, 0, "expand")]
        for f in fixed:
            js.append(f + (r.below(100000),))
        while len(js) < count:
            n = r.range(1, 8)
            level = r.choice([1, 1, 2])
            ultra = r.chance(1, 2)
            nch = r.choice([0, 1, 2, 3, 4, 5, 6, 8, 10, 12])
            tail = r.choice([0, 0, 1, 4, 777, level * 100000 - 1])
            kind = r.choice(["expand", "expand", "mixed", "noise"])
            js.append((n, level, ultra, nch, tail, kind, r.below(100000)))
        return js

    def run_jobs(self, js, label):
        exe = {"dbg": vlib.build_lbzip2("dbg"), "rel": vlib.build_lbzip2("rel")}
        datas = {}
        drng = vlib.SplitMix(self.seed * 7919 + 13)
        for (n, level, ultra, nch, tail, kind, seed) in js:
            key = (level, nch, tail, kind)
            if key not in datas:
                datas[key] = L.make_input(drng, level, nch, tail, kind)

        def one(ix):
            n, level, ultra, nch, tail, kind, seed = js[ix]
            flavor = "dbg" if ix % 3 != 2 else "rel"
            res = L.traced_run(exe[flavor], datas[(level, nch, tail, kind)], n, level, ultra, seed, self.work,
                               "%s%d" % (label, ix))
            res["flavor"] = flavor
            res["job"] = js[ix]
            res["input_key"] = (level, nch, tail, kind)
            return res
        results = L.pmap(one, list(range(len(js))))
        for r in results:
            r["data"] = datas[r["input_key"]]
        return results

    def replay_all(self, results):
        rp = L.build_replayer()
        text = []
        unparsable = []
        for r in results:
            if r["timeout"] or r["rc"] != 0:
                continue
            try:
                text.append(L.replay_input(r["tag"], r["n"], r["ultra"], r["level"], r["trace"]))
            except ValueError as e:
                unparsable.append((r, str(e)))
        rc, out, err = L.run_replayer(rp, "".join(text))
        return rc, out, err, unparsable

    def failures(self, results):
        """Property-level failures visible on the implementation itself."""
        v = []
        for r in results:
            desc = "n=%d level=%d %s chunks=%d tail=%d kind=%s sched_seed=%d build=%s" % (
                r["n"], r["level"], "--sequential" if r["ultra"] else "default", r["job"][3], r["job"][4], r["job"][5],
                r["seed"], r["flavor"])
            payload = {"job": list(r["job"]), "flavor": r["flavor"], "trace_tail": r["trace"][-40:], "stderr": r["err"],
                       "how": "lbzip2 -n N -L [--sequential] < input with LBZIP2_VERIF_SCHED=seed, see checks/c11.py replay()"}
            if r["timeout"]:
                v.append(Violation("compress-hang", "compression does not terminate (watchdog): " + desc, payload))
            elif r["rc"] != 0:
                v.append(Violation("compress-abort:rc%d" % r["rc"], "compression aborts (rc=%d, %s): %s" % (
                    r["rc"], r["err"].strip()[-120:], desc), payload))
            else:
                try:
                    ok = bz2.decompress(r["out"]) == r["data"]
                except Exception:
                    ok = False
                if not ok:
                    v.append(Violation("compress-order", "blocks reach the writer out of order or are lost "
                                       "(output does not decompress to the input): " + desc, payload))
        return v

    # ------------------------------------------------------------------
    def correspond(self):
        count = 110 if self.tier == "quick" else 700
        js = self.jobs(count)
        results = self.run_jobs(js, "c")
        self.results = results
        rc, out, err, unparsable = self.replay_all(results)
        nontrivial = set()
        hist = {"n": {}, "mode": {"default": 0, "sequential": 0}, "chunks": {}, "maxrun": {}, "records": 0,
                "traces_replayed": 0, "build": {"dbg": 0, "rel": 0}}
        fails = 0
        for r, e in unparsable:
            self.broken.append(Broken("correspondence", "trace of %s is not parsable" % r["tag"], e))
        if rc != 0:
            self.broken.append(Broken("correspondence", "trace replayer crashed (rc=%s)" % rc, err[-800:]))
        for r in results:
            hist["n"][r["n"]] = hist["n"].get(r["n"], 0) + 1
            hist["mode"]["sequential" if r["ultra"] else "default"] += 1
            hist["chunks"][r["job"][3]] = hist["chunks"].get(r["job"][3], 0) + 1
            hist["build"][r["flavor"]] += 1
            hist["records"] += len(r["trace"])
            if r["timeout"] or r["rc"] != 0:
                continue
            st = out.get(r["tag"])
            c = L.concurrency(r["trace"])
            hist["maxrun"][c] = hist["maxrun"].get(c, 0) + 1
            if st is None:
                self.broken.append(Broken("correspondence", "no replay verdict for trace %s" % r["tag"], ""))
                continue
            hist["traces_replayed"] += 1
            if st[0] != "OK":
                fails += 1
                if fails <= 5:
                    self.broken.append(Broken("correspondence", "trace of the implementation is not a run of the model "
                                              "(n=%d %s level=%d seed=%d)" % (r["n"], "seq" if r["ultra"] else "default",
                                                                             r["level"], r["seed"]), st[1][:1500]))
            elif c >= 2:
                nontrivial.add((r["job"], tuple(r["trace"][:400])))
        cov = {
            "evaluations": len(results), "distinct_nontrivial": len(nontrivial),
            "rule": "one evaluation = one traced compression run of the real binary (hooks H1+H3) replayed record by record "
                    "through the extracted SchedC.step (every record must be a model step, final state must return all "
                    "resources and the written blocks must be the stream chain); non-trivial = distinct traces that replay and "
                    "had at least two task bodies running concurrently" +
                    ("" if schedx_part else "; decompression scheduler (area SchedX, checks/schedx_part.py) not present: "
                                             "this run covers the compression scheduler only"),
            "samples": [{"job": list(r["job"]), "records": len(r["trace"]), "first": r["trace"][:2]} for r in results[:3]],
            "histogram": hist, "replay_failures": fails,
        }
        try:
            import pool_part
            pc = pool_part.correspond(self) or {}
            cov["evaluations"] += int(pc.get("evaluations", 0))
            cov["distinct_nontrivial"] += int(pc.get("distinct_nontrivial", 0))
            cov["queue_primitives"] = {k: v for k, v in pc.items() if k != "samples"}
        except vlib.BuildError:
            raise
        except Exception as e:
            self.broken.append(Broken("correspondence", "pool_part.correspond crashed", repr(e)[:500]))
        if schedx_part:
            try:
                cx = schedx_part.correspond_x(self) or {}
                cov["evaluations"] += cx.get("evaluations", 0)
                cov["distinct_nontrivial"] += cx.get("distinct_nontrivial", 0)
                cov["decompression"] = cx
            except Exception as e:           # the other area's failure must not hide ours
                self.broken.append(Broken("correspondence", "schedx_part.correspond_x crashed", repr(e)[:500]))
        return cov

    def direct(self):
        v = self.failures(getattr(self, "results", []))
        if schedx_part:
            v += schedx_part.direct_x(self) or []
        import f9_part
        v += f9_part.hunt(self)
        v += f9_part.ring_wrap_hunt(self)
        import pool_part
        v += pool_part.direct(self) or []
        return v[:6]

    def search(self):
        """Something is broken: hunt for a hang / abort / mis-ordered output with many
        perturbation seeds on the shapes that stress the slot and unit reserves."""
        r = self.rng
        js = []
        rounds = 160 if self.tier == "quick" else 600
        for k in range(rounds):
            n = r.choice([1, 1, 2, 2, 3, 4, 8])
            level = 1
            ultra = r.chance(1, 3)
            nch = r.choice([3, 6, 9, 12])
            kind = r.choice(["expand", "expand", "mixed"])
            js.append((n, level, ultra, nch, r.choice([0, 5]), kind, r.below(1000000)))
        found = []
        for off in range(0, len(js), 40):
            res = self.run_jobs(js[off:off + 40], "s%d_" % off)
            found += self.failures(res)
            if not found:
                rc, out, err, unp = self.replay_all(res)
                for x in res:
                    st = out.get(x["tag"])
                    if st and st[0] != "OK" and ("capacity" in st[1] or "undefined-behaviour" in st[1]):
                        found.append(Violation("compress-model-ub", "implementation trace reaches a state the model flags "
                                               "as queue overrun / counter underflow: " + st[1][:300],
                                               {"job": list(x["job"]), "trace_tail": x["trace"][-40:]}))
            if found:
                break
        if schedx_part and not found:
            found += schedx_part.search_x(self) or []
        return found[:3]

    def replay(self, path):
        p = json.load(open(path))
        job = p.get("job")
        if not job:
            print("replay file names no input:", json.dumps(p.get("broken"), indent=1)[:3000])
            return 1
        n, level, ultra, nch, tail, kind, seed = job
        self.results = self.run_jobs([tuple(job)] * 20, "r")
        v = self.failures(self.results)
        for x in v[:3]:
            print(x.summary)
        print("replayed 20 runs of job %s: %d failing" % (job, len(v)))
        return 1 if v else 0
