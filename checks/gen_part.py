"""Helper - generate_prefix_code() of src/encode.c (tree-count choice, initial trees, EM iterations with
find_best_tree / make_code_lengths, removal + renumbering of unused trees, dummy second tree, assign_codes).

correspond(check): runs the REAL function (harness/gen_h.c, which #includes the current /repo/src/encode.c; built
with ASan+UBSan and asserts; the whole union u.s is poisoned before every call) and the extracted Gallina model
(coq/Enc/GenModel.v -> Extract/ml/gen_model.ml, driver harness/gen_driver.ml) on the same inputs and compares the
complete output lines:
  G <cluster_factor> <mtf symbols..., EOB>  ->  nm, as, num_trees, returned cost, selector[] in the old tree numbering,
                                                tmap_old2new[selector[]], tmap_new2old[0..nt-1] and the full length
                                                table length[tmap_new2old[i]][0..as-1] of every transmitted tree;
  M <frequencies>                           ->  length[0..as-1] left by make_code_lengths() alone (depth up to 30).
The C side runs in one process (restarted after the crashing line when it aborts); the model side is sharded over
vlib.NCPU processes (its cost is proportional to cluster_factor * nm).
"""
import hashlib
import heapq
import os
import sys
from concurrent.futures import ThreadPoolExecutor

try:
    import vlib
except ImportError:      # stand-alone use: python3 checks/gen_part.py
    sys.path.insert(0, os.path.join(os.path.dirname(os.path.abspath(__file__)), "..", "lib"))
    import vlib
from runner import Broken

GROUP_SIZE = 50
MAX_ALPHA = 258
MIN_ALPHA = 3
MAX_BLOCK = 900000
THRESH = (150, 300, 600, 1200, 2400)
FREQ_LIMIT = 900000          # M lines: sum of max(f,1) <= 900000 keeps the Huffman depth <= 30 (MAX_HUFF_CODE_LENGTH)
CLUSTER_FACTOR = 8           # the value lbzip2 itself uses (src/encode.h)


def build_harness(flavor="asan"):
    src = [os.path.join(vlib.REPO, "src", f) for f in ("crctab.c", "divbwt.c")]
    return vlib.build_c("gen_h-" + flavor, ["gen_h.c"] + src, flavor=flavor)


def build_model():
    return vlib.build_ocaml("gen_model", os.path.join(vlib.COQ, "Extract", "ml"), ["gen_model"], "gen_driver.ml")


def nt_of_nm(nm):
    """Number of trees generate_prefix_code() starts with (before the bound by distinct symbols / removal)."""
    return 6 if nm > 2400 else 5 if nm > 1200 else 4 if nm > 600 else 3 if nm > 300 else 2 if nm > 150 else 1


# ---------------------------------------------------------------------------
# random material (only from the SplitMix r)
# ---------------------------------------------------------------------------
def _rbytes(r, n):
    """n values 0..255, eight per step of the generator."""
    out = []
    while len(out) < n:
        out.extend(r.below(1 << 64).to_bytes(8, "little"))
    del out[n:]
    return out


def _r16(r, n):
    """n values 0..65535, four per step of the generator."""
    out = []
    while len(out) < n:
        z = r.below(1 << 64)
        out.extend((z & 0xFFFF, (z >> 16) & 0xFFFF, (z >> 32) & 0xFFFF, z >> 48))
    del out[n:]
    return out


def _table(pairs):
    """pairs: [(symbol, weight > 0)] -> 256-entry lookup table approximating that distribution."""
    tot = sum(w for _, w in pairs)
    tab, cum, idx = [], 0, 0
    for j in range(256):
        p = (2 * j + 1) * tot
        while 512 * (cum + pairs[idx][1]) <= p:
            cum += pairs[idx][1]
            idx += 1
        tab.append(pairs[idx][0])
    return tab


def _draw(r, tab, n):
    return [tab[b] for b in _rbytes(r, n)]


def _fib(n):
    f = [1, 1]
    while len(f) < n:
        f.append(f[-1] + f[-2])
    return f[:n]


def _pick_distinct(r, m, k):
    """k distinct symbols of 0..m-1 (k <= m)."""
    k = min(k, m)
    seen = []
    while len(seen) < k:
        s = r.below(m)
        if s not in seen:
            seen.append(s)
    return seen


def dist_uniform(r, m):
    return [x % m for x in _r16(r, 256)]


def dist_geo(r, m, perm=None):
    """Skewed: weight of the i-th symbol falls geometrically (typical MTF output: many zeros and small values)."""
    num, den = r.choice([(1, 2), (1, 2), (2, 3), (4, 5), (9, 10), (19, 20), (1, 4)])
    floor = r.choice([0, 0, (1 << 48) // 400])
    ws, w = [], 1 << 48
    for _ in range(m):
        if w + floor == 0:
            break
        ws.append(w + floor)
        w = w * num // den
    if perm is None:
        perm = r.chance(1, 4)
    syms = r.shuffle(range(m))[:len(ws)] if perm else list(range(len(ws)))
    return _table(list(zip(syms, ws)))


def dist_subset(r, m, k):
    syms = _pick_distinct(r, m, k)
    if r.chance(1, 2):
        return _table([(s, r.range(1, 16)) for s in syms])
    return _table([(s, 1 << (2 * i)) for i, s in enumerate(syms)])


def dist_any(r, m):
    c = r.below(6)
    if c == 0:
        return dist_uniform(r, m)
    if c <= 2:
        return dist_geo(r, m)
    return dist_subset(r, m, r.range(1, 6))


def fib_counts(r, k, n):
    """k counts summing to n (k <= n), proportional to Fibonacci numbers, none zero."""
    k = max(1, min(k, n))
    f = _fib(k)
    s = sum(f)
    c = [max(1, x * n // s) for x in f] if s > n else list(f)
    d = n - sum(c)
    i = k - 1
    while d < 0:                       # take from the largest ones
        t = min(-d, c[i] - 1)
        c[i] -= t
        d += t
        i -= 1
    c[k - 1] += d
    assert sum(c) == n and min(c) >= 1
    return c


# ---------------------------------------------------------------------------
# G bodies: n symbols, each in 0..m-1 where m = as - 1 >= 2
# ---------------------------------------------------------------------------
BODY_KINDS = ["uniform", "uniform", "geo", "geo", "geo", "few", "few", "piecewise", "piecewise", "piecewise",
              "lonely", "lonely", "alternating", "alternating", "fib", "fib", "same", "runs", "eobmid"]
LONG_KINDS = ["deep", "deep", "deep", "fib", "fib", "piecewise", "piecewise", "geo", "uniform", "lonely", "alternating",
              "few", "runs"]


def gen_body(r, m, n, kind, deep=False):
    if n <= 0:
        return []
    if kind == "uniform":
        return [x % m for x in _r16(r, n)]
    if kind == "geo":
        return _draw(r, dist_geo(r, m), n)
    if kind == "few":                   # 1..3 distinct symbols: fewer classes than trees
        return _draw(r, dist_subset(r, m, r.range(1, 3)), n)
    if kind == "piecewise":             # concatenation of stationary segments: EM uses several trees
        segs = r.range(2, 8)
        cuts = sorted(r.below(n + 1) for _ in range(segs - 1))
        if r.chance(1, 2):
            cuts = [c // GROUP_SIZE * GROUP_SIZE for c in cuts]
        out, prev = [], 0
        for c in cuts + [n]:
            out.extend(_draw(r, dist_any(r, m), c - prev))
            prev = c
        return out
    if kind == "lonely":                # one distribution appears in a single group only
        out = _draw(r, dist_geo(r, m) if r.chance(1, 2) else dist_subset(r, m, r.range(1, 4)), n)
        for _ in range(r.range(1, 3)):
            g = r.below(n // GROUP_SIZE + 1) * GROUP_SIZE
            ln = min(GROUP_SIZE, n - g)
            if ln > 0:
                out[g:g + ln] = _draw(r, dist_subset(r, m, r.range(1, 3)), ln)
        return out
    if kind == "alternating":
        ds = [dist_any(r, m) for _ in range(r.range(2, 3))]
        period = r.range(1, 3) * GROUP_SIZE + r.choice([0, 0, 0, 1, 25])
        out = []
        i = 0
        while len(out) < n:
            out.extend(_draw(r, ds[i % len(ds)], min(period, n - len(out))))
            i += 1
        return out
    if kind == "fib":                   # Fibonacci-like counts: long code lengths, Huffman depth > 20 when n is large
        k = min(m, r.range(20, 27) if deep else r.range(3, 27), n)
        c = fib_counts(r, k, n)
        syms = r.shuffle(range(m))[:k] if r.chance(1, 2) else list(range(k))
        out = []
        for s, cnt in zip(syms, c):
            out.extend([s] * cnt)
        mode = r.below(4)
        if mode <= 1:
            return r.shuffle(out)
        if mode == 2:                    # sorted: homogeneous groups
            return out
        cut = r.below(n + 1)             # half shuffled
        return r.shuffle(out[:cut]) + out[cut:]
    if kind == "same":
        return [r.below(m)] * n
    if kind == "runs":
        tab = dist_geo(r, m) if r.chance(1, 2) else dist_uniform(r, m)
        hi = r.choice([4, 60, 300])
        out = []
        while len(out) < n:
            out.extend([tab[r.below(256)]] * r.range(1, hi))
        return out[:n]
    if kind == "eobmid":                # the EOB value also occurs inside the vector
        out = gen_body(r, m, n, r.choice(["uniform", "geo", "few", "piecewise", "same"]))
        for _ in range(r.choice([1, 1, 2, 5, max(1, n // 10)])):
            out[r.below(n)] = m
        return out
    raise ValueError(kind)


def _spread(pairs):
    """[(symbol, count)] -> sequence in which every symbol is spread as evenly as possible (all groups alike)."""
    keys = []
    for s, c in pairs:
        keys.extend([(((2 * j + 1) << 40) // (2 * c), s) for j in range(c)])
    keys.sort()
    return [s for _, s in keys]


def init_classes(cnt, nm, nt):
    """Python port of generate_initial_trees(): the symbol ranges [a,b) of the initial equivalence classes.
    Only used to DESIGN inputs (gen_overflow); nothing is compared against it."""
    as_ = sum(1 for c in cnt if c > 0)
    nt = min(nt, as_)
    a, out = 0, []
    while nt > 0:
        freq = cnt[a]
        cum = freq
        as_ -= min(freq, 1)
        b = a + 1
        while as_ > nt - 1 and cum * nt < nm:
            freq = cnt[b]
            cum += freq
            as_ -= min(freq, 1)
            b += 1
        if cum > freq and (2 * cum - freq) * nt > 2 * nm:
            cum -= freq
            as_ += min(freq, 1)
            b -= 1
        out.append((a, b))
        a = b
        nm -= cum
        nt -= 1
    return out


def gen_deep(r):
    """as = 22 symbols with exact Fibonacci counts (EOB is one of the two 1s; sum Fib(1..22) = 46367), evenly spread:
    the most frequent symbol has the plurality in every group, so the first E step puts ALL groups into one tree, whose
    frequencies are then exactly Fibonacci: make_code_lengths gives depth 21 > MAX_CODE_LENGTH, the later iterations
    run on those lengths and assign_codes has to limit the final table to 20."""
    k = 22
    f = _fib(k)
    extra = r.below(50000 - sum(f))
    for _ in range(r.range(1, 3)):          # extra weight on the top symbols does not reduce the depth
        part = r.below(extra + 1)
        f[k - 1 - r.below(2)] += part
        extra -= part
    cf = r.choice([8, 8, 8, 2])
    if r.chance(1, 3):                       # counts descending in symbol order (cheap to transmit) and two iterations:
        order = list(range(k - 1, 0, -1)) + [0]      # assign_codes then really uses the maximal length 20
        cf = 2
    else:
        order = r.shuffle(range(1, k)) + [0]  # rank 0 = EOB = last symbol
    idx = {rank: pos for pos, rank in enumerate(order)}
    body = _spread([(idx[i], f[i]) for i in range(1, k)])
    for _ in range(r.choice([0, 0, 1, 5])):  # a little disorder
        i, j = r.below(len(body)), r.below(len(body))
        body[i], body[j] = body[j], body[i]
    return ("G", "long-deep", cf, body + [k - 1])


def gen_overflow(r, k, cf):
    """Makes a 10-bit field of the packed group cost in find_best_tree() overflow (needs nm >= Fib(28)-1 = 317810):
    as = k >= 26 symbols with exact Fibonacci counts, laid out in symbol order so that the initial class of the most
    frequent symbol S also holds the 7 rarest symbols (counts 1,2,3,5,8,13,21); everything is evenly spread except that
    the last group consists of 33 occurrences of the 6 rarest symbols + 17 of the next + EOB.  The first E step puts all
    groups into the tree of S, make_code_lengths on the exact Fibonacci frequencies gives lengths up to k-1, and in the
    next E step the last group costs 50*k - 272 >= 1024 bits under that tree."""
    f = _fib(k)
    f[k - 1] += (-sum(f)) % GROUP_SIZE
    rare, top, mid = list(range(1, 8)), k - 1, list(range(8, k - 1))
    order = None
    for _ in range(4000):
        m = r.shuffle(mid)
        ntail = r.range(1, 3)
        o = m[ntail:] + r.shuffle(rare) + [top] + m[:ntail] + [0]
        cl = init_classes([f[i] for i in o], sum(f), 6)
        p0 = len(mid) - ntail
        if len(cl) == 6 and (p0, p0 + len(rare) + 1) in cl:
            order = o
            break
    if order is None:                        # still a legal input, just without the intended effect
        order = r.shuffle(range(1, k)) + [0]
    idx = {rank: pos for pos, rank in enumerate(order)}
    last = []
    for rank, c in ((1, 1), (2, 2), (3, 3), (4, 5), (5, 8), (6, 13), (7, 17)):
        last.extend([idx[rank]] * c)
    body = _spread([(idx[7], f[7] - 17)] + [(idx[i], f[i]) for i in range(8, k)])
    assert len(body) % GROUP_SIZE == 0 and idx[0] == k - 1
    return ("G", "overflow-fib", cf, body + r.shuffle(last) + [k - 1])


def gen_as(r):
    return r.choice([r.range(3, 8), r.range(3, 8), r.range(9, 40), r.range(9, 40), r.range(41, 257), 258, 258,
                     r.range(3, 258)])


def gen_nm(r):
    c = r.below(10)
    if c < 3:
        return r.choice(THRESH) + r.range(-2, 2)
    if c < 5:
        return max(2, GROUP_SIZE * r.range(1, 60) + r.range(-1, 1))
    if c < 6:
        return r.range(2, 160)
    return r.range(2, 3000)


def gen_g(r, long=False):
    """Returns ("G", kind, cluster_factor, vector)."""
    if long:
        kind = r.choice(LONG_KINDS)
        if kind == "deep":
            return gen_deep(r)
        cf = r.choice([8, 8, 8, 1])
        if kind == "fib":
            nm = r.range(28000, 50000)
            a = r.choice([28, 29, 258, r.range(22, 258)])
        else:
            nm = r.range(5000, 50000)
            a = gen_as(r)
        return ("G", "long-" + kind, cf, gen_body(r, a - 1, nm - 1, kind, deep=True) + [a - 1])
    a = gen_as(r)
    nm = gen_nm(r)
    kind = r.choice(BODY_KINDS)
    cf = r.choice([8, 8, 8, 8, 8, 8, 1, 2, 3, 20])
    return ("G", kind, cf, gen_body(r, a - 1, nm - 1, kind) + [a - 1])


# ---------------------------------------------------------------------------
# M lines: frequency vectors for make_code_lengths()
# ---------------------------------------------------------------------------
def _cap(f):
    """Scale down until sum(max(f,1)) <= FREQ_LIMIT."""
    while sum(max(x, 1) for x in f) > FREQ_LIMIT:
        s = sum(f)
        k = s // (FREQ_LIMIT - len(f) - 1) + 1
        f = [x // max(k, 2) for x in f]
    return f


def gen_m(r):
    n = r.choice([3, 3, 4, 5, 8, 16, 17, 22, 23, 27, 28, 29, 30, 31, 32, 33, 64, 100, 256, 257, 258, 258,
                  r.range(3, 258), r.range(3, 258), r.range(3, 40), r.range(3, 40)])
    kind = r.choice(["rand", "rand", "randz", "fib", "fib", "fib", "fibish", "geo", "geo", "equal", "zero", "ties",
                     "full", "onebig"])
    if kind == "rand":
        hi = r.choice([1, 2, 3, 10, 100, 1000, 50000])
        f = [r.range(0, hi) for _ in range(n)]
    elif kind == "randz":
        hi = r.choice([1, 5, 1000, 100000])
        f = [r.range(1, hi) if r.chance(1, 4) else 0 for _ in range(n)]
    elif kind == "fib":                 # Huffman depth up to 27 (sum Fib(1..28) = 832039)
        k = min(n, r.choice([20, 21, 22, 23, 24, 25, 26, 27, 28, 28, 30, 40]))
        f = _fib(k) + [r.choice([0, 0, 1]) for _ in range(n - k)]
        f = r.shuffle(f) if r.chance(2, 3) else (f if r.chance(1, 2) else f[::-1])
    elif kind == "fibish":
        k = min(n, 28)
        f = [max(0, x + r.range(-1, 1)) for x in _fib(k)] + [r.range(0, 3) for _ in range(n - k)]
        f = r.shuffle(f)
    elif kind == "geo":
        num, den = r.choice([(2, 1), (3, 1), (3, 2), (5, 4), (11, 10), (4, 1)])
        f, x = [], 1
        for _ in range(n):
            f.append(x)
            x = min(x * num // den + r.below(2), 1 << 30)
        f = r.shuffle(_cap(f)) if r.chance(1, 2) else f
    elif kind == "equal":
        f = [r.choice([0, 1, 1, 2, 3, 7, 1000, FREQ_LIMIT // n])] * n
    elif kind == "zero":
        f = [0] * n
        if r.chance(1, 2):
            f[r.below(n)] = r.choice([1, 2, 800000])
    elif kind == "ties":
        base = r.choice([1, 1, 2, 3])
        f = [base << r.below(r.choice([2, 4, 8, 19])) for _ in range(n)]
    elif kind == "full":                # sum of max(f,1) exactly at the limit
        w = [r.range(0, 1 << 20) ** r.choice([1, 1, 2, 3]) for _ in range(n)]
        s = sum(w) or 1
        f = [max(1, x * (FREQ_LIMIT - n) // s) for x in w]
        f[r.below(n)] += FREQ_LIMIT - sum(f)
    else:
        f = [r.range(0, 3) for _ in range(n)]
        f[r.below(n)] = r.choice([100, 30000, 890000])
    f = _cap(f)
    assert MIN_ALPHA <= len(f) <= MAX_ALPHA and min(f) >= 0 and sum(max(x, 1) for x in f) <= FREQ_LIMIT, (kind, sum(f))
    return ("M", "M-" + kind, 0, f)


# ---------------------------------------------------------------------------
# fixed corpus (no randomness)
# ---------------------------------------------------------------------------
def _ruler(i):
    i += 1
    return (i & -i).bit_length() - 1


def _pat(a, n, k):
    """n deterministic symbols in 0..a-2: k even -> skewed (ruler sequence), k odd -> spread."""
    m = a - 1
    if k % 2 == 0:
        return [min(m - 1, _ruler(i + k)) for i in range(n)]
    return [(i * (2 * k + 1) + (i >> 3)) % m for i in range(n)]


def fixed_cases():
    cs = []
    k = 0
    for t in THRESH:
        for nm in (t - 1, t, t + 1, t + 2):
            for a in (3, 17, 258):
                cs.append(("G", "fixed-threshold", CLUSTER_FACTOR, _pat(a, nm - 1, k) + [a - 1]))
                k += 1
    for nm in (2, 3, 49, 50, 51, 99, 100, 101):
        for a in (3, 17, 258):
            cs.append(("G", "fixed-small", CLUSTER_FACTOR, _pat(a, nm - 1, k) + [a - 1]))
            k += 1
    for g in range(1, 9):
        for nm in (GROUP_SIZE * g - 1, GROUP_SIZE * g, GROUP_SIZE * g + 1):
            a = (3, 258, 9)[k % 3]
            cs.append(("G", "fixed-group-boundary", (CLUSTER_FACTOR, 1, 2)[g % 3], _pat(a, nm - 1, k) + [a - 1]))
            k += 1
    # nm <= 150: one tree, the dummy second tree is always created: sweeps the cl0 trick over every alphabet size
    for a in range(MIN_ALPHA, MAX_ALPHA + 1):
        nm = min(150, max(2, 2 + (a * 7) % 149))
        cs.append(("G", "fixed-single", CLUSTER_FACTOR, _pat(a, nm - 1, a) + [a - 1]))
    # nm > 150 but every group alike (one symbol repeated; the last group is mostly that symbol too):
    # EM puts all groups into one tree although it started with nt > 1
    for a in (3, 4, 5, 8, 15, 16, 17, 31, 32, 33, 63, 64, 100, 128, 255, 256, 257, 258):
        for nm in (175, 325, 625, 1225, 2425):
            s = (a * 5 + nm) % (a - 1)
            cs.append(("G", "fixed-repeated", CLUSTER_FACTOR, [s] * (nm - 1) + [a - 1]))
    # exact Fibonacci counts of 22 symbols, descending, evenly spread, two iterations: transmitted length 20
    fb = _fib(22)
    cs.append(("G", "fixed-deep", 2, _spread([(21 - i, fb[i]) for i in range(1, 22)]) + [21]))
    cs.append(("G", "fixed-eobmid", CLUSTER_FACTOR, [0, 2, 1, 2, 0, 0, 2] * 30 + [2]))
    cs.append(("G", "fixed-eobmid", CLUSTER_FACTOR, [257] * 700 + [257]))
    cs.append(("M", "M-fixed", 0, [0, 0, 0]))
    cs.append(("M", "M-fixed", 0, [1] * 258))
    cs.append(("M", "M-fixed", 0, [0] * 258))
    cs.append(("M", "M-fixed", 0, _fib(28)))
    cs.append(("M", "M-fixed", 0, _fib(28)[::-1] + [0] * 230))
    cs.append(("M", "M-fixed", 0, _fib(22)))
    cs.append(("M", "M-fixed", 0, _fib(21)))
    cs.append(("M", "M-fixed", 0, [1 << i for i in range(19)]))
    cs.append(("M", "M-fixed", 0, [FREQ_LIMIT // 258] * 258))
    cs.append(("M", "M-fixed", 0, [FREQ_LIMIT - 2, 0, 0]))
    return cs


def giant_cases(r):
    """Thorough tier only: the largest blocks."""
    cs = [gen_overflow(r, 26, CLUSTER_FACTOR), gen_overflow(r, 27, 3)]
    a = MAX_ALPHA
    n = MAX_BLOCK - 1
    cs.append(("G", "giant-piecewise", CLUSTER_FACTOR, gen_body(r, a - 1, n, "piecewise") + [a - 1]))
    n = MAX_BLOCK - 49 - 1
    c = fib_counts(r, 28, n)             # sum Fib(1..28) = 832039 <= n: exact Fibonacci counts, depth 27
    syms = r.shuffle(range(a - 1))[:28]
    body = []
    for s, cnt in zip(syms, c):
        body.extend([s] * cnt)
    cs.append(("G", "giant-fib", CLUSTER_FACTOR, r.shuffle(body) + [a - 1]))
    for n in (r.range(200000, 400000), r.range(200000, 400000)):
        k = r.range(24, 26)
        c = fib_counts(r, k, n)
        syms = r.shuffle(range(a - 1))[:k]
        body = []
        for s, cnt in zip(syms, c):
            body.extend([s] * cnt)
        cs.append(("G", "giant-fib", r.choice([8, 1]), r.shuffle(body) + [a - 1]))
    return cs


def gen_cases(r, n_cases, tier="quick"):
    cases = fixed_cases()
    cases.append(gen_overflow(r, 26, 2))     # nm = 317850: the smallest block in which a packed cost field overflows
    if tier == "thorough":
        cases += giant_cases(r)
    i = 0
    while len(cases) < n_cases:
        i += 1
        if i % 7 == 0:
            cases.append(gen_m(r))
        elif i % 64 == 1:
            cases.append(gen_g(r, long=True))
        else:
            cases.append(gen_g(r))
    for (typ, kind, cf, v) in cases:       # legality of OUR inputs
        if typ == "G":
            a = v[-1] + 1
            assert MIN_ALPHA <= a <= MAX_ALPHA and 2 <= len(v) <= MAX_BLOCK and max(v) <= a - 1 and min(v) >= 0, (kind, a, len(v))
        else:
            assert MIN_ALPHA <= len(v) <= MAX_ALPHA and sum(max(x, 1) for x in v) <= FREQ_LIMIT, (kind, len(v))
    return cases


# ---------------------------------------------------------------------------
# running both sides
# ---------------------------------------------------------------------------
def run_impl(exe, lines, timeout=1800, max_restarts=40):
    """One process; after a crash the run resumes behind the line it died on.
    Returns (CONST line or None, outputs (None = not run), crashes [(index, rc, stderr tail)])."""
    outs = [None] * len(lines)
    crashes = []
    const = None
    start = 0
    while start < len(lines):
        inp = ("\n".join(lines[start:]) + "\n").encode()
        rc, o, e = vlib.sh([exe], input=inp, timeout=timeout)
        got = o.splitlines()
        if got and got[0].startswith("CONST"):
            const = const or got[0]
            got = got[1:]
        complete = [g for g in got if g.startswith(("OK ", "LEN ", "BADLINE"))]
        if len(complete) < len(got):       # a partial last line of a dying process
            got = got[:len(complete)]
        for k, g in enumerate(got[:len(lines) - start]):
            outs[start + k] = g
        if rc == 0 and len(got) >= len(lines) - start:
            break
        died = start + len(got)
        if died >= len(lines):
            crashes.append((len(lines) - 1, rc, e[-1500:]))
            break
        outs[died] = "CRASH"
        crashes.append((died, rc, e[-1500:]))
        start = died + 1
        if len(crashes) >= max_restarts:
            break
    return const, outs, crashes


def run_model(exe, lines, costs, timeout=3000):
    """Sharded by estimated cost.  Returns (set of CONST lines, outputs (None = missing), failures [(index, rc, stderr)])."""
    shards = max(1, min(vlib.NCPU, len(lines)))
    order = sorted(range(len(lines)), key=lambda i: -costs[i])
    heap = [(0, s) for s in range(shards)]
    parts = [[] for _ in range(shards)]
    for i in order:                        # longest first onto the least loaded shard
        load, s = heapq.heappop(heap)
        parts[s].append(i)
        heapq.heappush(heap, (load + costs[i], s))

    def work(part):
        if not part:
            return (0, [], "")
        inp = ("\n".join(lines[i] for i in part) + "\n").encode()
        rc, o, e = vlib.sh([exe], input=inp, timeout=timeout)
        return (rc, o.splitlines(), e)
    with ThreadPoolExecutor(shards) as ex:
        res = list(ex.map(work, parts))
    outs = [None] * len(lines)
    consts = set()
    fails = []
    for part, (rc, got, e) in zip(parts, res):
        if got and got[0].startswith("CONST"):
            consts.add(got[0])
            got = got[1:]
        elif part:
            consts.add("<no CONST line>")
        for i, g in zip(part, got):
            outs[i] = g
        if part and (rc != 0 or len(got) < len(part)):
            fails.append((part[min(len(got), len(part) - 1)], rc, e[-1500:]))
    return consts, outs, fails


# ---------------------------------------------------------------------------
# correspondence
# ---------------------------------------------------------------------------
def _fields(line):
    d = {}
    for tok in line.split(" "):
        if "=" in tok:
            k, v = tok.split("=", 1)
            d[k] = v
    return d


RULE = ("distinct G symbol vectors with nm >= 51 (more than one group) plus distinct M frequency vectors; "
        "G: fixed corpus (nm at every tree-count threshold -1/0/+1/+2, group-size multiples +-1, nm = 2,3, single-tree blocks "
        "for every alphabet size 3..258 (cl0 dummy tree), repeated-symbol blocks with nm > 150) then random vectors (uniform, "
        "geometric/MTF-like, 1-3 distinct symbols, piecewise stationary, a distribution confined to one group, alternating "
        "groups, Fibonacci counts (Huffman depth > 20 in make_code_lengths), one symbol, runs, EOB value inside the vector; "
        "cluster_factor 8 mostly, also 1,2,3,20; nm up to 50000, thorough tier up to 900000); M: make_code_lengths alone "
        "(Fibonacci up to depth 27, zeros, equal, random, geometric, ties, sum = 900000); "
        "compared (whole output line): num_trees, returned cost, selector[] in old and transmitted numbering, "
        "tmap_new2old[], every transmitted length table [0..as-1]; LEN line of make_code_lengths; CONST line "
        "(MAX_TREES, GROUP_SIZE, MAX_HUFF_CODE_LENGTH, MIN/MAX_ALPHA_SIZE, sizeof selector); harness built with "
        "ASan+UBSan and asserts, u.s poisoned before each call")


def correspond(check, n_cases=None, flavor="asan"):
    """Conventions of PropertyCheck.correspond: uses check.rng, appends Broken(...) to check.broken,
    returns the coverage dict."""
    r = check.rng
    tier = getattr(check, "tier", "quick")
    if n_cases is None:
        n_cases = 3200 if tier == "quick" else 12000
    try:
        hs = build_harness(flavor)
        md = build_model()
    except vlib.BuildError as ex:
        check.broken.append(Broken("correspondence", "gen_part: harness or model driver does not build", str(ex)[-1500:]))
        return {"evaluations": 0, "distinct_nontrivial": 0, "rule": "build failed", "samples": [], "histogram": {},
                "disagreements": 0}
    cases = gen_cases(r, n_cases, tier)
    lines = []
    costs = []
    for (typ, kind, cf, v) in cases:
        if typ == "G":
            lines.append("G %d %s" % (cf, ",".join(map(str, v))))
            costs.append(max(cf, 1) * len(v) + 500)
        else:
            lines.append("M " + ",".join(map(str, v)))
            costs.append(500)
    with ThreadPoolExecutor(1) as ex:        # the C side runs while the model shards do
        fut = ex.submit(run_impl, hs, lines)
        mconsts, model, mfails = run_model(md, lines, costs)
        iconst, impl, crashes = fut.result()

    for (idx, rc, err) in crashes[:3]:
        check.broken.append(Broken("correspondence",
                                   "gen_h (real generate_prefix_code / make_code_lengths) crashed or truncated its output "
                                   "(rc=%s, %d crash(es), %d of %d lines not run after the last one) on kind=%s input: %s"
                                   % (rc, len(crashes), impl.count(None), len(lines), cases[idx][1], lines[idx][:300]), err))
    for (idx, rc, err) in mfails[:3]:
        check.broken.append(Broken("correspondence", "gen model driver failed (rc=%s) at or before kind=%s input: %s"
                                   % (rc, cases[idx][1], lines[idx][:300]), err))
    if iconst is None or mconsts != {iconst}:
        check.broken.append(Broken("correspondence", "constants differ between encode.c/common.h and the model",
                                   "impl=%s model=%s" % (iconst, sorted(mconsts))))

    hist = {"G": 0, "M": 0, "kinds": {}, "nt": {}, "cluster_factor": {}, "single_tree": 0, "single_tree_nm>150": 0,
            "unused_removed": 0, "classes_lt_nt": 0, "nm_at_threshold+-1": 0, "nm_multiple_of_50": 0, "as=3": 0,
            "as=258": 0, "eob_inside": 0, "maxlen=20": 0, "nm>=5000": 0, "max_nm": 0, "M_maxlen>20": 0, "M_maxlen": 0,
            "model_err": 0, "impl_crashes": len(crashes), "impl_not_run": impl.count(None)}
    distinct = set()
    ndiff = 0
    nreported = 0
    for i, (typ, kind, cf, v) in enumerate(cases):
        a, b = impl[i], model[i]
        hist[typ] += 1
        hist["kinds"][kind] = hist["kinds"].get(kind, 0) + 1
        fb = _fields(b) if b else {}
        if typ == "G":
            nm, asz = len(v), v[-1] + 1
            nt0 = nt_of_nm(nm)
            hist["cluster_factor"][cf] = hist["cluster_factor"].get(cf, 0) + 1
            hist["nm_at_threshold+-1"] += any(abs(nm - t) <= 1 for t in THRESH)
            hist["nm_multiple_of_50"] += nm % GROUP_SIZE == 0
            hist["as=3"] += asz == 3
            hist["as=258"] += asz == 258
            hist["nm>=5000"] += nm >= 5000
            hist["max_nm"] = max(hist["max_nm"], nm)
            hist["eob_inside"] += (asz - 1) in v[:-1]
            hist["classes_lt_nt"] += len(set(v)) < nt0
            if nm >= GROUP_SIZE + 1:
                distinct.add(hashlib.sha1(lines[i].split(" ", 2)[2].encode()).digest())
            if b and b.startswith("OK ") and "nt" in fb:
                nt = int(fb["nt"])
                hist["nt"][nt] = hist["nt"].get(nt, 0) + 1
                single = len(fb.get("n2o", "").split(",")) == 2 and len(set(fb.get("old", "").split(","))) == 1
                hist["single_tree"] += single
                hist["single_tree_nm>150"] += single and nm > 150
                hist["unused_removed"] += (not single) and nt < nt0
                ml = max(max(map(int, fb[k].split(","))) for k in fb if k.startswith("len"))
                hist["maxlen=20"] += ml == 20
        else:
            distinct.add(("M", tuple(v)))
            if b and b.startswith("LEN "):
                ml = max(map(int, b[4:].split(",")))
                hist["M_maxlen>20"] += ml > 20
                hist["M_maxlen"] = max(hist["M_maxlen"], ml)
        desc = ("kind=%s nm=%d as=%d cluster_factor=%d vec=%s" % (kind, len(v), v[-1] + 1, cf, ",".join(map(str, v[:160]))[:300])
                if typ == "G" else "kind=%s as=%d freq=%s" % (kind, len(v), ",".join(map(str, v))[:300]))
        if b is not None and b.startswith("ERR"):
            hist["model_err"] += 1
            if hist["model_err"] <= 3:
                check.broken.append(Broken("correspondence",
                                           "the model returns an error value (%s) on a legal input, which the safety theorems "
                                           "exclude (extraction or model changed?); implementation: %s; %s"
                                           % (b[:80], (a or "<not run>")[:60], desc), "model=%s" % b[:200]))
        if a is None or b is None:
            continue            # not run / missing: already reported as crash or driver failure
        if a == "CRASH":
            ndiff += 1          # reported above, with the input it happened on
            continue
        if a != b:
            ndiff += 1
            if nreported < 5:
                nreported += 1
                fa = _fields(a)
                if typ == "G":
                    keys = ["nm", "as", "nt", "cost", "old", "sels", "n2o"] + sorted(
                        {k for k in list(fa) + list(fb) if k.startswith("len")}, key=lambda k: int(k[3:] or 0))
                    where = [k for k in keys if fa.get(k) != fb.get(k)]
                    det = ["%s: impl=%s model=%s" % (k, fa.get(k, "<missing>")[:200], fb.get(k, "<missing>")[:200])
                           for k in where[:3]]
                else:
                    where = ["LEN"]
                    det = ["impl=%s model=%s" % (a[:300], b[:300])]
                if not where or b.startswith("ERR") or not a.startswith(("OK ", "LEN ")):
                    where = where or ["shape"]
                    det = ["impl=%s model=%s" % (a[:200], b[:200])]
                check.broken.append(Broken("correspondence",
                                           "%s model vs implementation differ (%s) on %s"
                                           % ("generate_prefix_code" if typ == "G" else "make_code_lengths",
                                              "/".join(where), desc), "; ".join(det)))
    special = ("fixed", "M-fixed", "overflow", "giant", "long")
    samples = [lines[i][:300] for i in range(len(cases)) if not cases[i][1].startswith(special)][:3]
    return {
        "evaluations": len(cases),
        "distinct_nontrivial": len(distinct),
        "rule": RULE,
        "samples": samples,
        "histogram": hist,
        "disagreements": ndiff,
    }


def cluster_factor_of_repo():
    """CLUSTER_FACTOR of the source tree under test (src/encode.h), what compress.c passes to encoder_init()."""
    import re
    try:
        m = re.search(r"#\s*define\s+CLUSTER_FACTOR\s+(\d+)", open(os.path.join(vlib.REPO, "src", "encode.h")).read())
        return int(m.group(1)) if m else CLUSTER_FACTOR
    except OSError:
        return CLUSTER_FACTOR


def check_blocks(check, hres, limit=None):
    """Tie of Properties_C02gen to WHOLE blocks: hres = results of enclib.run_harness() (status, kv, raw) of the real
    collect()/encode()/transmit() on real inputs.  For every OK block the extracted model of generate_prefix_code() is
    run on the block's real MTF symbol vector (kv['mtfv'], produced by the real divbwt + do_mtf) with the tree's
    CLUSTER_FACTOR, and must reproduce the number of tables, the selectors (transmitted numbering) and every
    transmitted table that the real encode() left in the encoder state (kv['nt'], kv['sels'], kv['lenK']).  This also
    covers what gen_h.c assumes (code[0][v] = number of v in mtfv, as do_mtf leaves it).  Appends Broken(...) to
    check.broken; returns a small stats dict."""
    stats = {"blocks": 0, "compared": 0, "mismatch": 0, "model_err": 0, "nt": {}}
    try:
        md = build_model()
    except vlib.BuildError as ex:
        check.broken.append(Broken("correspondence", "gen_part.check_blocks: model driver does not build", str(ex)[-1500:]))
        return stats
    cf = cluster_factor_of_repo()
    idx = [i for i, r in enumerate(hres) if r and r[0] == "OK" and "mtfv" in r[1] and "nt" in r[1]]
    if limit is not None:
        idx = idx[:limit]
    stats["blocks"] = len(idx)
    if not idx:
        return stats
    lines = ["G %d %s" % (cf, hres[i][1]["mtfv"]) for i in idx]
    costs = [cf * (l.count(",") + 1) + 500 for l in lines]
    consts, outs, fails = run_model(md, lines, costs)
    for (k, rc, err) in fails[:2]:
        check.broken.append(Broken("correspondence", "gen model driver failed on a real block (rc=%s): %s" % (rc, lines[k][:200]), err))
    nrep = 0
    for k, i in enumerate(idx):
        kv, b = hres[i][1], outs[k]
        if b is None:
            continue
        fb = _fields(b)
        stats["compared"] += 1
        bad = []
        if not b.startswith("OK "):
            stats["model_err"] += 1
            bad = ["model: " + b[:80]]
        else:
            stats["nt"][fb.get("nt")] = stats["nt"].get(fb.get("nt"), 0) + 1
            if fb.get("nt") != kv.get("nt"):
                bad.append("nt impl=%s model=%s" % (kv.get("nt"), fb.get("nt")))
            if fb.get("sels") != kv.get("sels"):
                bad.append("sels impl=%s model=%s" % (str(kv.get("sels"))[:120], str(fb.get("sels"))[:120]))
            for t in range(int(kv.get("nt", "0") or 0)):
                key = "len%d" % t
                if fb.get(key) != kv.get(key):
                    bad.append("%s impl=%s model=%s" % (key, str(kv.get(key))[:160], str(fb.get(key))[:160]))
        if bad:
            stats["mismatch"] += 1
            nrep += 1
            if nrep <= 3:
                check.broken.append(Broken("correspondence",
                                           "tables/selectors of a real block (encode() state) differ from the model of "
                                           "generate_prefix_code() run on the block's MTF symbols (cluster_factor=%d, nmtf=%s, as=%s)"
                                           % (cf, kv.get("nmtf"), kv.get("as")),
                                           "; ".join(bad[:4]) + " mtfv=" + str(kv.get("mtfv"))[:300]))
    return stats


if __name__ == "__main__":     # stand-alone run: python3 checks/gen_part.py [n_cases] [seed] [quick|thorough]
    class _C:
        pass
    c = _C()
    c.rng = vlib.SplitMix(int(sys.argv[2]) if len(sys.argv) > 2 else 7)
    c.broken = []
    c.tier = sys.argv[3] if len(sys.argv) > 3 else "quick"
    import json
    import time
    t0 = time.time()
    res = correspond(c, int(sys.argv[1]) if len(sys.argv) > 1 and int(sys.argv[1]) > 0 else None)
    res["samples"] = [s[:80] for s in res["samples"]]
    print(json.dumps(res, indent=1)[:5000])
    print("seconds: %.1f" % (time.time() - t0))
    for b in c.broken[:10]:
        print("BROKEN", b.kind, b.what[:600], "|", b.detail[:400])
    sys.exit(1 if c.broken else 0)
