"""Helper - encode() of src/encode.c from the MTF stage on (cost arithmetic, packed selector MTF, tree_pad / surplus
selector, out_expect_len) together with transmit(): tie of Properties_C02enc to the C.

check_blocks(check, hres, cases): hres = results of enclib.run_harness() (status, kv, raw) of the REAL
collect()/encode()/transmit() (harness/enc_h_block.c, which #includes the current /repo/src/encode.c) on real inputs.
For every OK block the extracted model (coq/Enc/EncodeModel.v + EncModel.write_block -> Extract/ml/encode_model.ml,
driver harness/encode_driver.ml) is run on the block bytes after the initial RLE (kv['blk']), the REAL BWT primary index
(kv['idx'] - the only remaining witness), the stored CRC and the tree's CLUSTER_FACTOR.  Nothing else of the real
encoder state is given to the model; it must reproduce
   tree_pad (kv['pad']), num_selectors after the padding (kv['nsel']), selectorMTF[] (kv['selmtf']),
   out_expect_len = the value encode() returned (kv['size']), the number of tables, the selectors, every table,
   and the COMPLETE BYTES transmit() wrote (kv['out']),
and its own outputs must satisfy what the theorems say (bits = 8 * size = length of write_block, witness_ok, every
value of `a` of every table walk within 1..20).  Appends Broken(...) to check.broken; returns a stats dict.

Stand-alone: python3 checks/encode_part.py [n_cases] [seed] [dbg|rel]   (uses VERIF_REPO like every check; the third
argument is the flavor of the C harness: dbg = asserts on (default), rel = -DNDEBUG like the shipped build)."""
import os
import subprocess
import sys
from concurrent.futures import ThreadPoolExecutor

try:
    import vlib
except ImportError:
    sys.path.insert(0, os.path.join(os.path.dirname(os.path.abspath(__file__)), "..", "lib"))
    import vlib
from runner import Broken

MAX_BLOCK = 900000


def build_model():
    return vlib.build_ocaml("encode_model", os.path.join(vlib.COQ, "Extract", "ml"), ["encode_model"], "encode_driver.ml")


def cluster_factor_of_repo():
    import re
    try:
        m = re.search(r"#\s*define\s+CLUSTER_FACTOR\s+(\d+)", open(os.path.join(vlib.REPO, "src", "encode.h")).read())
        return int(m.group(1)) if m else 8
    except OSError:
        return 8


def _fields(line):
    return dict(t.split("=", 1) for t in line.split() if "=" in t)


def run_model(exe, lines, costs, timeout=3000):
    """lines -> output lines (None where the driver died); sharded by cost over vlib.NCPU processes."""
    n = len(lines)
    shards = max(1, min(vlib.NCPU, n // 3 + 1))
    order = sorted(range(n), key=lambda i: -costs[i])
    parts = [[] for _ in range(shards)]
    load = [0] * shards
    for i in order:
        k = load.index(min(load))
        parts[k].append(i)
        load[k] += costs[i]
    fails = []

    def work(part):
        if not part:
            return []
        inp = "".join(lines[i] + "\n" for i in part).encode()
        try:
            p = subprocess.run([exe], input=inp, stdout=subprocess.PIPE, stderr=subprocess.PIPE, timeout=timeout)
        except subprocess.TimeoutExpired:
            fails.append((part[0], "timeout", ""))
            return [None] * len(part)
        out = p.stdout.decode().splitlines()
        if len(out) < len(part):
            fails.append((part[len(out)], p.returncode, p.stderr.decode()[-300:]))
        return out + [None] * (len(part) - len(out))
    with ThreadPoolExecutor(shards) as ex:
        res = list(ex.map(work, parts))
    outs = [None] * n
    for part, o in zip(parts, res):
        for i, l in zip(part, o):
            outs[i] = l
    return outs, fails


def check_blocks(check, hres, cases=None, limit=None):
    stats = {"blocks": 0, "compared": 0, "mismatch": 0, "model_err": 0, "pad": {}, "surplus_selector": {}, "nt": {},
             "bytes_compared": 0}
    try:
        md = build_model()
    except vlib.BuildError as ex:
        check.broken.append(Broken("correspondence", "encode_part.check_blocks: model driver does not build", str(ex)[-1500:]))
        return stats
    cf = cluster_factor_of_repo()
    need = ("blk", "idx", "crc", "pad", "nsel", "size", "out")
    idx = [i for i, r in enumerate(hres) if r and r[0] == "OK" and all(k in r[1] for k in need)]
    if limit is not None:
        idx = idx[:limit]
    stats["blocks"] = len(idx)
    if not idx:
        return stats
    lines, costs = [], []
    for i in idx:
        kv = hres[i][1]
        m = cases[i][0] if cases is not None else max(1, int(kv.get("nblock", "1")))
        lines.append("E %d %d blk=%s idx=%s crc=%s" % (cf, min(m, MAX_BLOCK), kv["blk"], kv["idx"], kv["crc"]))
        n = len(kv["blk"]) // 2
        costs.append(cf * n + n * 40 + 500)
    outs, fails = run_model(md, lines, costs)
    for (k, rc, err) in fails[:2]:
        check.broken.append(Broken("correspondence", "encode model driver failed on a real block (rc=%s): %s" % (rc, lines[k][:200]), err))
    nrep = 0
    for k, i in enumerate(idx):
        kv, b = hres[i][1], outs[k]
        if b is None:
            continue
        stats["compared"] += 1
        bad = []
        if not b.startswith("OK "):
            stats["model_err"] += 1
            bad = ["the model of encode() returns an error value: " + b[:100]]
        else:
            fb = _fields(b)
            stats["pad"][fb.get("pad")] = stats["pad"].get(fb.get("pad"), 0) + 1
            stats["surplus_selector"][fb.get("extra")] = stats["surplus_selector"].get(fb.get("extra"), 0) + 1
            stats["nt"][fb.get("nt")] = stats["nt"].get(fb.get("nt"), 0) + 1
            for key, what in (("pad", "tree_pad"), ("nsel", "num_selectors"), ("size", "out_expect_len"), ("selmtf", "selectorMTF[]"),
                              ("nt", "num_trees"), ("sels", "selectors")):
                if key in kv and fb.get(key) != kv.get(key):
                    bad.append("%s impl=%s model=%s" % (what, str(kv.get(key))[:100], str(fb.get(key))[:100]))
            for t in range(int(kv.get("nt", "0") or 0)):
                key = "len%d" % t
                if fb.get(key) != kv.get(key):
                    bad.append("%s impl=%s model=%s" % (key, str(kv.get(key))[:120], str(fb.get(key))[:120]))
            if fb.get("out") != kv.get("out"):
                bad.append("block BYTES differ: impl=%s.. model=%s.." % (str(kv.get("out"))[:80], str(fb.get("out"))[:80]))
            else:
                stats["bytes_compared"] += len(kv["out"]) // 2
            # what the theorems say about the model's own output
            try:
                if not (int(fb["bits"]) == 8 * int(fb["size"]) == int(fb["outbits"])):
                    bad.append("model: bits=%s, 8*size=%d, length of write_block=%s are not equal (C02enc_byte_aligned)"
                               % (fb["bits"], 8 * int(fb["size"]), fb["outbits"]))
            except (KeyError, ValueError):
                bad.append("model: malformed output " + b[:80])
            if fb.get("ok") != "true":
                bad.append("model: witness_ok is false on the computed witness (C02enc_witness_ok)")
            if fb.get("walk") != "true":
                bad.append("model: a table walk leaves 1..20 (C02enc_block_walks)")
        if bad:
            stats["mismatch"] += 1
            nrep += 1
            if nrep <= 3:
                check.broken.append(Broken("correspondence",
                                           "encode()/transmit() on a real block differ from the model of encode() (Enc/EncodeModel.v) + "
                                           "write_block given only the block and the real BWT index (cluster_factor=%d, nblock=%s, nmtf=%s)"
                                           % (cf, kv.get("nblock"), kv.get("nmtf")),
                                           "; ".join(bad[:5]) + " blk=" + str(kv.get("blk"))[:200]))
    return stats


if __name__ == "__main__":
    sys.path.insert(0, os.path.dirname(os.path.abspath(__file__)))
    import json
    import time
    import enclib

    class _C:
        pass
    c = _C()
    c.rng = vlib.SplitMix(int(sys.argv[2]) if len(sys.argv) > 2 else 7)
    c.broken = []
    n = int(sys.argv[1]) if len(sys.argv) > 1 else 300
    if len(sys.argv) > 3:
        enclib.HARNESS_FLAVOR[0] = sys.argv[3]
    t0 = time.time()
    cases = enclib.block_cases(c.rng, n)
    hres = enclib.run_harness(cases)
    st = {}
    for r in hres:
        st[r[0]] = st.get(r[0], 0) + 1
    print("harness:", st)
    res = check_blocks(c, hres, cases)
    print(json.dumps(res, indent=1))
    print("seconds: %.1f" % (time.time() - t0))
    for b in c.broken[:10]:
        print("BROKEN", b.kind, b.what[:600], "|", b.detail[:600])
    sys.exit(1 if c.broken or any(k not in ("OK", "EMPTY") for k in st) else 0)
