"""C08 helper - sliding-list inverse MTF (src/decode.c: mtf_one): correspondence between the
extracted array-level model (coq/Safe/SlideModel.v) and the real mtf_one() (harness/safe_h_slide.c).

Use from a check:   import safe_slide;  cov = safe_slide.correspond(self)
The Coq targets needed: Safe/SlideProofs.vo, Extract/ExtractSafeSlide.vo.
"""
import os
import re
import sys
from concurrent.futures import ThreadPoolExecutor

import vlib
from runner import Broken

BOUNDARY = (1, 15, 16, 17, 31, 32, 33, 47, 48, 239, 240, 241, 254, 255)
SLIDE_LENGTH = 8192          # only used to size the generators (the harness uses the source's value)
CMAP_BASE = SLIDE_LENGTH - 256


def _seq(xs):
    return ",".join(str(x) for x in xs) if xs else "-"


def gen_cases(rng, tier):
    """Returns list of (kind, line)."""
    cases = []
    quick = tier == "quick"

    def add(kind, ninuse, ps):
        cases.append((kind, "%d %s" % (ninuse, _seq(ps))))

    # 1. boundaries of the case split: fast path / general case, first/last slot of a row,
    #    smallest and largest alphabets, every single position on a fresh state
    for ninuse in (1, 2, 3, 16, 17, 18, 32, 33, 34, 128, 255, 256):
        add("boundary", ninuse, [])
        valid = [p for p in BOUNDARY if p < ninuse]
        if valid:
            add("boundary", ninuse, valid)
            add("boundary", ninuse, list(reversed(valid)) * 3)
            add("boundary", ninuse, [valid[-1]] * 40 + valid)
    for p in range(1, 256):
        add("single", 256, [p])
        add("single", 256, [p, p, 1, p])
    for p in (1, 15, 16, 17, 31, 32, 255):     # pairs across the row boundaries
        for q in (1, 15, 16, 17, 31, 32, 255):
            add("pair", 256, [p, q, p, q, 255, 16])
    # 2. rebuilds: the slide has room for CMAP_BASE general-case calls before imtf_row[0]
    #    reaches imtf_slide; go past that point (several times for the cheap position 16)
    n_long = 3 if quick else 12
    add("rebuild", 256, [16] * (2 * CMAP_BASE + 300))
    add("rebuild", 17, [16] * (CMAP_BASE + 40))
    add("rebuild", 256, [255] * (CMAP_BASE + 40))
    add("rebuild", 256, ([16] * (CMAP_BASE - 3)) + [15, 16, 17, 31, 32, 255, 16, 1, 16, 16, 240, 255, 16, 17])
    add("rebuild", 256, ([16] * (CMAP_BASE - 1)) + [255, 255, 255])
    add("rebuild", 256, ([16] * CMAP_BASE) + [1, 15, 2, 16, 3])   # fast-path calls at row[0] == slide
    for _ in range(n_long):
        ninuse = rng.choice([256, 256, 255, 200, 100, 40, 17 + rng.below(239)])
        n = CMAP_BASE + 50 + rng.below(600)
        style = rng.below(4)
        if style == 0:      # uniformly random general-case positions
            ps = [16 + rng.below(ninuse - 16) for _ in range(n)]
        elif style == 1:    # boundary positions only
            b = [p for p in BOUNDARY if 16 <= p < ninuse]
            ps = [rng.choice(b) for _ in range(n)]
        elif style == 2:    # mostly cheap, bursts of random ones, fast-path calls interleaved
            ps = []
            while len([p for p in ps if p >= 16]) < n:
                if rng.chance(1, 20):
                    ps += [1 + rng.below(ninuse - 1) for _ in range(1 + rng.below(30))]
                else:
                    ps += [16] * (1 + rng.below(200))
        else:               # walk down through all rows
            ps = [(16 * (1 + (i % ((ninuse - 1) // 16))) + rng.below(16)) for i in range(n)]
            ps = [min(p, ninuse - 1) for p in ps]
        add("rebuild", ninuse, ps)
    # 3. random mixes (skewed towards small positions as in real data)
    n_mix = 150 if quick else 1500
    for _ in range(n_mix):
        ninuse = rng.choice([256, 2 + rng.below(255), 2 + rng.below(40), 17, 33])
        n = rng.choice([5, 20, 100, 400, 1500 if quick else 4000])
        n = 1 + rng.below(n)
        ps = []
        for _ in range(n):
            k = rng.below(10)
            if k < 4:
                p = 1 + rng.below(min(ninuse - 1, 15))
            elif k < 6:
                p = rng.choice(BOUNDARY)
            else:
                p = 1 + rng.below(ninuse - 1)
            ps.append(min(p, ninuse - 1) if ninuse > 1 else 1)
        if ninuse == 1:
            ps = []
        add("mix", ninuse, ps)
    # 4. outside the decoder's precondition (never requested by retrieve(): positions >= ninuse reach
    #    the stale bytes above the cmap; position 0 reaches `default: abort()`): the model must still
    #    agree, and must never report OOB
    for _ in range(20 if quick else 200):
        ninuse = 1 + rng.below(256)
        ps = [rng.below(256) if rng.chance(1, 50) else 1 + rng.below(255) for _ in range(1 + rng.below(300))]
        add("beyond", ninuse, ps)
    add("beyond", 5, [0])
    add("beyond", 256, [255, 16, 0, 3])
    return cases


def _run_model(md, lines, jobs):
    """Run the extracted model on the lines, spread over `jobs` processes (longest first)."""
    order = sorted(range(len(lines)), key=lambda i: -len(lines[i]))
    buckets = [[] for _ in range(jobs)]
    load = [0] * jobs
    for i in order:
        k = load.index(min(load))
        buckets[k].append(i)
        load[k] += len(lines[i]) + 50
    out = [None] * len(lines)
    errs = []

    def work(b):
        if not b:
            return
        inp = ("\n".join(lines[i] for i in b) + "\n").encode()
        rc, o, e = vlib.sh([md], input=inp, timeout=3000)
        ol = o.splitlines()
        if rc != 0 or len(ol) != len(b):
            errs.append("rc=%s lines=%d/%d %s" % (rc, len(ol), len(b), e[-300:]))
        for i, l in zip(b, ol):
            out[i] = l

    with ThreadPoolExecutor(max_workers=jobs) as ex:
        list(ex.map(work, buckets))
    return out, errs


_R0 = re.compile(r"@(\d+),")


def correspond(check, flavors=("asan", "rel")):
    """Model vs implementation on generated call sequences.  Appends Broken('correspondence', ...) to
    check.broken on any difference; returns the coverage dictionary."""
    cases = gen_cases(check.rng, check.tier)
    lines = [c[1] for c in cases]
    crc = os.path.join(vlib.REPO, "src", "crctab.c")
    md = vlib.build_ocaml("safe_slide_model", os.path.join(vlib.COQ, "Extract", "ml"),
                          ["safe_slide_model"], "safe_slide_driver.ml")
    jobs = max(1, min(16, (os.cpu_count() or 2)))
    model, errs = _run_model(md, lines, jobs)
    for e in errs[:3]:
        check.broken.append(Broken("correspondence", "extracted slide model driver failed", e))
    inp = ("\n".join(lines) + "\n").encode()
    hist = {"cases": len(cases), "calls": 0, "general_calls": 0, "boundary_calls": 0, "rebuilds": 0,
            "aborts": 0, "calls_beyond_inuse": 0, "kinds": {}}
    nontriv = set()
    ndis = 0
    for fi, fl in enumerate(flavors):
        hs = vlib.build_c("safe_h_slide_" + fl, ["safe_h_slide.c", crc], flavor=fl)
        rc, o, e = vlib.sh([hs], input=inp, timeout=3000)
        impl = o.splitlines()
        if rc != 0 or len(impl) != len(lines):
            check.broken.append(Broken("correspondence",
                                       "safe_h_slide (%s) crashed or truncated output (rc=%s, %d/%d lines)"
                                       % (fl, rc, len(impl), len(lines)), e[-1500:]))
        for i, (kind, line) in enumerate(cases):
            a = impl[i] if i < len(impl) else "<none>"
            b = model[i] if model[i] is not None else "<none>"
            if a != b:
                ndis += 1
                if ndis <= 5:
                    ta, tb = a.split(" "), b.split(" ")
                    k = next((j for j in range(min(len(ta), len(tb))) if ta[j] != tb[j]), min(len(ta), len(tb)))
                    check.broken.append(Broken(
                        "correspondence",
                        "mtf_one model vs implementation (%s) differ on `%s` at token %d" % (fl, line[:100], k),
                        "impl=%s model=%s" % (" ".join(ta[max(0, k - 1):k + 2])[:300], " ".join(tb[max(0, k - 1):k + 2])[:300])))
            if fi == 0:
                ninuse, ps = line.split(" ")
                ninuse = int(ninuse)
                pl = [] if ps == "-" else [int(x) for x in ps.split(",")]
                hist["kinds"][kind] = hist["kinds"].get(kind, 0) + 1
                hist["calls"] += len(pl)
                g = sum(1 for p in pl if p >= 16)
                hist["general_calls"] += g
                hist["boundary_calls"] += sum(1 for p in pl if p in (15, 16, 17, 31, 32, 255))
                hist["calls_beyond_inuse"] += sum(1 for p in pl if p >= ninuse)
                hist["aborts"] += 1 if " ABORT" in a else 0
                r0 = [int(x) for x in _R0.findall(a)]
                hist["rebuilds"] += sum(1 for x, y in zip(r0, r0[1:]) if y > x)
                if g > 0:
                    nontriv.add(line)
    if " OOB" in "".join(m for m in model if m):
        check.broken.append(Broken("correspondence", "the slide model reports an out-of-bounds access", ""))
    samples = [c[1][:160] for c in cases[:2]] + [c[1][:160] for c in cases if c[0] == "mix"][:3]
    return {
        "evaluations": len(cases) * len(flavors), "distinct_nontrivial": len(nontriv),
        "rule": "call sequences of mtf_one from retrieve()'s initial state (cmap 0..ninuse-1, stale slide "
                "bytes i*7+3): returned byte and all 16 row offsets after every call + final 256 row cells "
                "compared; non-trivial = at least one general-case call (position >= 16); "
                "generators: every single position, row-boundary positions 15/16/17/31/32/255, sequences "
                "with more than CMAP_BASE general-case calls (rebuild), random mixes, positions outside "
                "the decoder's precondition (0 -> abort(), >= ninuse -> stale bytes); "
                "implementation built as " + "+".join(flavors),
        "samples": samples, "histogram": hist,
    }


if __name__ == "__main__":
    class _C:
        pass
    c = _C()
    c.rng = vlib.SplitMix(int(os.environ.get("VERIF_SEED", "1")))
    c.tier = sys.argv[1] if len(sys.argv) > 1 else "quick"
    c.broken = []
    import json
    import time
    t = time.time()
    cov = correspond(c)
    print(json.dumps(cov, indent=1)[:3000])
    print("broken:", [b.as_dict() for b in c.broken])
    print("time %.1fs" % (time.time() - t))
