"""C08 helper - prefix-code decoding tables (make_tree() and the decode sequence of retrieve()).

correspond(check): runs the real make_tree()/decode sequence (harness/safe_h_tree.c, built from the
current /repo/src/decode.c; the decode sequence is cut out of the source text) and the extracted
array-level model (coq/Safe/TreeModel.v -> Extract/ml/safe_tree_model.ml, needs the target
Extract/ExtractSafeTree.vo) on the same length vectors and buffer values and compares verdict,
all four arrays (including entries left untouched) and every (s, k, v') triple.
"""
import os
import re

import vlib
from runner import Broken

MAXLEN = 20
HSW = 10
SEQ_FIRST = "x = T->start[PEEK(HUFF_START_WIDTH)];"
SEQ_LAST = "DUMP(k);"


# ---------------------------------------------------------------------------
# the decode sequence, cut out of decode.c
# ---------------------------------------------------------------------------
def _strip_comments(s):
    return re.sub(r"/\*.*?\*/", " ", s, flags=re.S)


def extract_decode_seq(repo):
    """Returns (snippet, problems).  Both occurrences in retrieve() must be the same text
    (modulo comments/white space); that text is compiled into the harness."""
    src = open(os.path.join(repo, "src", "decode.c")).read()
    body = _strip_comments(src)
    occ = []
    pos = 0
    while True:
        i = body.find(SEQ_FIRST, pos)
        if i < 0:
            break
        j = body.find(SEQ_LAST, i)
        if j < 0:
            break
        occ.append(" ".join(body[i:j + len(SEQ_LAST)].split()))
        pos = j + len(SEQ_LAST)
    problems = []
    if len(occ) != 2:
        problems.append("expected 2 occurrences of the decode sequence in retrieve(), found %d" % len(occ))
    elif occ[0] != occ[1]:
        problems.append("the two decode sequences of retrieve() differ: %r vs %r" % (occ[0], occ[1]))
    return (occ[0] if occ else None), problems


def build_harness(flavor="dbg"):
    snippet, problems = extract_decode_seq(vlib.REPO)
    if snippet is None:
        raise vlib.BuildError("decode sequence not found in decode.c")
    inc_dir = os.path.join(vlib.WORK, "safe_tree")
    os.makedirs(inc_dir, exist_ok=True)
    inc = os.path.join(inc_dir, "safe_tree_seq.inc")
    text = "/* cut from src/decode.c by checks/safe_tree.py */\n" + snippet + "\n"
    if not os.path.exists(inc) or open(inc).read() != text:
        tmp = inc + ".tmp%d" % os.getpid()
        with open(tmp, "w") as f:
            f.write(text)
        os.replace(tmp, inc)
    exe = vlib.build_c("safe_h_tree-" + flavor, ["safe_h_tree.c", os.path.join(vlib.REPO, "src", "crctab.c")],
                       extra_flags=["-I", inc_dir], flavor=flavor)
    return exe, problems


def build_model():
    return vlib.build_ocaml("safe_tree_model", os.path.join(vlib.COQ, "Extract", "ml"), ["safe_tree_model"],
                            "safe_tree_driver.ml")


# ---------------------------------------------------------------------------
# generators
# ---------------------------------------------------------------------------
def kraft(lens):
    return sum(1 << (MAXLEN - l) for l in lens)


def complete_depths(r, n, style):
    """n leaf depths (1..20) of a full binary tree."""
    leaves = [0]
    while len(leaves) < n:
        cand = [i for i, d in enumerate(leaves) if d < MAXLEN]
        if style == "skew":          # always split a deepest splittable leaf
            m = max(leaves[i] for i in cand)
            i = r.choice([i for i in cand if leaves[i] == m])
        elif style == "flat":        # always split a shallowest leaf
            m = min(leaves[i] for i in cand)
            i = r.choice([i for i in cand if leaves[i] == m])
        elif style == "deepish":     # prefer deep leaves
            cand.sort(key=lambda i: -leaves[i])
            i = cand[r.below(max(1, len(cand) // 3))]
        else:
            i = r.choice(cand)
        d = leaves.pop(i)
        leaves += [d + 1, d + 1]
    return leaves


def canonical_codes(lens):
    """symbol -> (code value, length) under the canonical assignment (complete or not)."""
    code = 0
    out = {}
    for l in range(1, MAXLEN + 1):
        for s, ls in enumerate(lens):
            if ls == l:
                out[s] = (code, l)
                code += 1
        code <<= 1
    return out


def gen_case(r, kind_hint=None):
    n = r.choice([3, 3, 4, 5, 8, 17, 21, 22, 64, 100, 200, 257, 258, r.range(3, 258), r.range(3, 258), r.range(3, 40)])
    style = r.choice(["skew", "flat", "deepish", "rand", "rand", "skew"])
    lens = complete_depths(r, n, style)
    kind = kind_hint or r.choice(["complete"] * 6 + ["incomplete", "incomplete", "over", "over", "random"])
    if kind == "incomplete":
        for _ in range(1 + r.below(3)):
            idx = [i for i, l in enumerate(lens) if l < MAXLEN]
            if idx:
                i = r.choice(idx)
                lens[i] += 1 + r.below(MAXLEN - lens[i])
        if kraft(lens) >= 1 << MAXLEN:
            kind = "complete"
    elif kind == "over":
        for _ in range(1 + r.below(3)):
            idx = [i for i, l in enumerate(lens) if l > 1]
            if idx:
                i = r.choice(idx)
                lens[i] -= 1 + r.below(lens[i] - 1)
    elif kind == "random":
        lo = r.range(1, MAXLEN)
        hi = r.range(lo, MAXLEN)
        lens = [r.range(lo, hi) for _ in range(n)]
    lens = r.shuffle(lens)
    k = kraft(lens)
    kind = "complete" if k == 1 << MAXLEN else ("incomplete" if k < 1 << MAXLEN else "over")
    vs = []
    if kind == "complete":
        codes = canonical_codes(lens)
        maxl = max(lens)
        syms = list(range(n))
        if n > 40:
            # every length class, first/last code of each class, and a random sample
            keep = set()
            for l in set(lens):
                cl = [s for s in syms if lens[s] == l]
                keep.update([cl[0], cl[-1], r.choice(cl)])
            keep.update(r.choice(syms) for _ in range(24))
            syms = sorted(keep)
        for s in syms:
            c, l = codes[s]
            lj = c << (64 - l)
            rest = 64 - l
            vs.append(lj)                                        # code followed by zeros
            ones = lj | (((1 << rest) - 1) & ~1)                 # code followed by ones, 63 valid bits
            vs.append(ones)
            vs.append(lj | (r.next() & ((1 << rest) - 1) & ~1))  # code followed by random bits
            if lj > 0:
                vs.append((lj - 1) & ~1)                         # just below the code
        vs += [0, (1 << 64) - 2, (1 << 63), (1 << 63) - 2, (1 << 54), (1 << 54) - 2, ((1 << 64) - 1) & ~((1 << 44) - 1)]
        vs += [r.next() & ~1 for _ in range(8)]
        vs += [r.next() & ~((1 << 32) - 1) for _ in range(4)]   # exactly 32 valid bits
        if maxl <= HSW:
            vs.append((1 << 64) - 1)   # defined only when no code is longer than the start table (see report)
    return n, lens, kind, vs


def case_line(n, lens, vs):
    return "%d %s%s" % (n, ",".join(map(str, lens)), "".join(" %x" % v for v in vs))


FIXED = [
    (3, [1, 2, 2]), (3, [2, 2, 2]), (3, [1, 1, 2]), (3, [1, 1, 1]), (3, [20, 20, 20]), (4, [2, 2, 2, 2]),
    (21, list(range(1, 21)) + [20]), (21, [20] + list(range(1, 21))),
    (12, list(range(1, 12)) + [11]), (11, list(range(1, 11)) + [10]), (12, [11, 11] + list(range(1, 11))),
    (258, [8] * 254 + [9, 9, 9, 9]), (258, [9] * 4 + [8] * 254), (258, [1] * 258), (258, [20] * 258),
    (256, [8] * 256), (258, [7] + [8] * 250 + [10] * 4 + [11] * 2 + [12] * 1),
]


def gen_cases(r, n_cases):
    cases = []
    for n, lens in FIXED:
        k = kraft(lens)
        vs = []
        if k == 1 << MAXLEN:
            codes = canonical_codes(lens)
            for s in range(n):
                c, l = codes[s]
                lj = c << (64 - l)
                vs += [lj, lj | (((1 << (64 - l)) - 1) & ~1)]
            vs += [0, (1 << 64) - 2]
        cases.append((n, lens, "complete" if k == 1 << MAXLEN else ("incomplete" if k < 1 << MAXLEN else "over"), vs))
    while len(cases) < n_cases:
        cases.append(gen_case(r))
    return cases


# ---------------------------------------------------------------------------
# correspondence
# ---------------------------------------------------------------------------
def correspond(check, n_cases=None, flavor="asan"):
    """Conventions of PropertyCheck.correspond: uses check.rng, appends Broken(...) to check.broken,
    returns the coverage dict.  The harness is built with ASan+UBSan (flavor 'asan': -fsanitize=address,
    undefined, asserts compiled in) so an out-of-bounds index or bad shift in the real code aborts it."""
    r = check.rng
    if n_cases is None:
        n_cases = 400 if getattr(check, "tier", "quick") == "quick" else 4000
    try:
        hs, problems = build_harness(flavor)
        md = build_model()
    except vlib.BuildError as ex:
        check.broken.append(Broken("correspondence", "safe_tree: harness or model driver does not build", str(ex)[-1500:]))
        return {"evaluations": 0, "distinct_nontrivial": 0, "rule": "build failed", "samples": []}
    for p in problems:
        check.broken.append(Broken("translator", "safe_tree: " + p, ""))
    cases = gen_cases(r, n_cases)
    lines = [case_line(n, lens, vs) for (n, lens, kind, vs) in cases]
    inp = ("\n".join(lines) + "\n").encode()
    rc1, o1, e1 = vlib.sh([hs], input=inp, timeout=1200)
    rc2, o2, e2 = vlib.sh([md], input=inp, timeout=1200)
    impl, model = o1.splitlines(), o2.splitlines()
    if rc1 != 0 or len(impl) != len(cases) + 1:
        check.broken.append(Broken("correspondence", "safe_h_tree crashed or truncated output (rc=%s, %d/%d lines)"
                                   % (rc1, len(impl), len(cases) + 1), e1[-1500:]))
    if rc2 != 0 or len(model) != len(cases) + 1:
        check.broken.append(Broken("correspondence", "safe_tree model driver failed (rc=%s)" % rc2, e2[-1500:]))
    if impl[:1] != model[:1]:
        check.broken.append(Broken("correspondence", "declared array sizes / constants differ between decode.c and the model",
                                   "impl=%s model=%s" % (impl[:1], model[:1])))
    hist = {"complete": 0, "incomplete": 0, "over": 0, "maxlen>10": 0, "maxlen=20": 0, "alpha=258": 0, "alpha=3": 0,
            "decodes": 0, "decodes_slow_path": 0, "model_ub": 0}
    distinct = set()
    ndiff = 0
    for i, (n, lens, kind, vs) in enumerate(cases):
        a = impl[i + 1] if i + 1 < len(impl) else "<none>"
        b = model[i + 1] if i + 1 < len(model) else "<none>"
        hist[kind] += 1
        hist["maxlen>10"] += max(lens) > HSW
        hist["maxlen=20"] += max(lens) == MAXLEN
        hist["alpha=258"] += n == 258
        hist["alpha=3"] += n == 3
        hist["decodes"] += len(vs)
        if "UB" in b:
            hist["model_ub"] += 1
        d = b.split(" D", 1)
        if len(d) == 2:
            hist["decodes_slow_path"] += sum(1 for t in d[1].split() if t.count(":") == 2 and int(t.split(":")[1]) > HSW)
        distinct.add((n, tuple(lens)))
        if a != b:
            ndiff += 1
            if ndiff <= 5:
                fa, fb = a.split(" "), b.split(" ")
                where = next((j for j in range(min(len(fa), len(fb))) if fa[j] != fb[j]), min(len(fa), len(fb)))
                tag = fa[where - 1] if 0 < where <= len(fa) else "?"
                if where < len(fa) and ":" in fa[where]:
                    tag = "D#%d(v=%x)" % (where - 10, vs[where - 10]) if 0 <= where - 10 < len(vs) else "D"
                ea = fa[where].split(",") if where < len(fa) else []
                eb = fb[where].split(",") if where < len(fb) else []
                idx = next((j for j in range(min(len(ea), len(eb))) if ea[j] != eb[j]), min(len(ea), len(eb)))
                check.broken.append(Broken("correspondence",
                                           "make_tree/decode model vs implementation differ on alpha=%d lens=%s" % (n, ",".join(map(str, lens))[:200]),
                                           "field %s element %d: impl=%s model=%s" % (tag, idx, ",".join(ea[idx:idx + 3]), ",".join(eb[idx:idx + 3]))))
        want = {"complete": "V 2 ", "incomplete": "V 11 ", "over": "V 10 "}[kind]
        if not a.startswith(want) and ndiff <= 5:
            check.broken.append(Broken("correspondence", "verdict of make_tree() is not the Kraft verdict on alpha=%d lens=%s"
                                       % (n, ",".join(map(str, lens))[:200]), "impl=%s expected=%s" % (a[:8], want)))
    return {
        "evaluations": len(cases) + hist["decodes"],
        "distinct_nontrivial": len(distinct),
        "rule": "distinct code-length vectors (alpha 3..258, lengths 1..20: complete incl. max-skew/20-bit, incomplete, "
                "over-subscribed, random); for complete ones every code (or every length class) followed by zeros / ones / "
                "random bits, the value just below each code, all-ones below bit 63, 32-valid-bit buffers; compared: verdict, "
                "start/base/count/perm in full, (s, k, v') of every decode; harness built with ASan+UBSan and asserts",
        "samples": [l[:300] for l in (lines[len(FIXED):len(FIXED) + 3] if len(lines) > len(FIXED) else lines[:3])],
        "histogram": hist,
        "disagreements": ndiff,
    }
