"""C04 - block boundaries follow the greedy run-length packing rule.

Tie of the Coq model (coq/Rle/RleModel.v) to /repo/src:
  * Gen/Consts.v (MAX_RUN_LENGTH) and Gen/RleGen.v (capacity / buffer units, start values,
    qMax offset, flush constants, shape of do_collect_seq) are regenerated; RleProofs.v pins them.
  * correspondence: harness/rle_h_collect.c (real collect(), encoder_init(), final flush) against
    the extracted model (harness/rle_driver.ml), call by call.
Direct tests of the property itself (independent python oracle, literal 259):
  * real collect() driven like do_collect / do_collect_seq  vs  the greedy rule;
  * the real binary (levels 1, 2; default and --sequential): the blocks of its output are
    decoded one by one and their input lengths compared with the greedy rule.
"""
import bz2
import itertools
import json
import os
import re
import threading

import vlib
from runner import PropertyCheck, Broken, Violation

SPEC_MAX_RUN = 259          # the property text, not the source

# ---------------------------------------------------------------------------
# independent oracle
# ---------------------------------------------------------------------------
_CRC = []
for _i in range(256):
    _c = _i << 24
    for _ in range(8):
        _c = ((_c << 1) ^ 0x04C11DB7) & 0xFFFFFFFF if _c & 0x80000000 else (_c << 1) & 0xFFFFFFFF
    _CRC.append(_c)


def crc_raw(data):
    crc = 0xFFFFFFFF
    for b in data:
        crc = ((crc << 8) & 0xFFFFFFFF) ^ _CRC[(crc >> 24) ^ b]
    return crc


def rle1(x):
    out = bytearray()
    i = 0
    while i < len(x):
        j = i
        while j < len(x) and x[j] == x[i] and j - i < SPEC_MAX_RUN:
            j += 1
        n = j - i
        out += bytes([x[i]]) * 4 + bytes([n - 4]) if n >= 4 else bytes([x[i]]) * n
        i = j
    return bytes(out)


def greedy(M, x):
    """Blocks of input: repeatedly the longest prefix p with len(rle1(p)) <= M (byte-wise)."""
    blocks = []
    i, n = 0, len(x)
    while i < n:
        L, j, rc, rn = 0, i, -1, 0
        while j < n:
            c = x[j]
            if c == rc and rn < SPEC_MAX_RUN:
                cost = 1 if rn < 3 else (2 if rn == 3 else 0)
                nn = rn + 1
            else:
                cost, nn = 1, 1
            if L + cost > M:
                break
            L += cost
            rc, rn = c, nn
            j += 1
        if j == i:
            raise ValueError("capacity 0")
        blocks.append(x[i:j])
        i = j
    return blocks


def run_lengths(x):
    """Lengths of the maximal runs of x (linear time also for megabytes of one byte)."""
    n = len(x)
    if n < 2:
        return [1] * n
    d = (int.from_bytes(x[1:], "big") ^ int.from_bytes(x[:-1], "big")).to_bytes(n - 1, "big")
    out, last = [], 0
    for m in re.finditer(rb"[^\x00]", d):
        out.append(m.start() + 1 - last)
        last = m.start() + 1
    out.append(n - last)
    return out


def greedy_lengths_runwise(M, x):
    """Same rule computed over maximal runs (fast on multi-megabyte inputs); returns block input lengths."""
    lens = []
    cur, L = 0, 0
    for n in run_lengths(x):
        while n > 0:
            sub = min(n, SPEC_MAX_RUN)
            cost = sub if sub < 4 else 5
            room = M - L
            if cost <= room:
                L += cost
                cur += sub
                n -= sub
                continue
            j = min(sub, room, 3)           # a fourth byte needs room for its count as well
            cur += j
            n -= j
            lens.append(cur)
            cur, L = 0, 0
    if cur:
        lens.append(cur)
    return lens


def expected_blocks(mode, M, bufs):
    if mode == "S":
        return greedy(M, b"".join(bufs))
    out = []
    for b in bufs:
        if b:
            out += greedy(M, b)
    return out


def block_token(g):
    r = rle1(g)
    return "b:%d,%08x,%s" % (len(g), crc_raw(g), r.hex() if r else "-")


def parse_case(c):
    t = c.split()
    return t[0], int(t[1]), [b"" if h == "-" else bytes.fromhex(h) for h in t[2:]]


def fmt_case(mode, M, bufs):
    return "%s %d %s" % (mode, M, " ".join(b.hex() if b else "-" for b in bufs))


def oracle_verdict(case, out):
    """None if the harness output for this case obeys the greedy rule, else a reason."""
    mode, M, bufs = parse_case(case)
    toks = out.split()
    if "STUCK" in toks:
        return "driver made no progress"
    got = [t for t in toks if t.startswith("b:")]
    if any(t == "m:0" for t in toks):
        return "cmap differs from the set of bytes in the block"
    if mode in "SD":
        want = [block_token(g) for g in expected_blocks(mode, M, bufs)]
        if got != want:
            return "blocks %s, greedy rule gives %s" % (got[:4], want[:4])
        return None
    # raw: one encoder; consumed prefix must be rle1-encoded, and the longest that fits if `full' was reported
    x = b"".join(bufs)
    calls = [t for t in toks if t.startswith("c:")]
    if len(got) != 1:
        return "no block reported"
    w = int(got[0][2:].split(",")[0])
    full = any(t.startswith("c:1,") for t in calls)
    first = greedy(M, x)[0] if x else b""
    if full and w != len(first):
        return "block reported full after %d input bytes, longest fitting prefix has %d" % (w, len(first))
    if not full and (len(rle1(x[:w])) > M):
        return "block holds more than its capacity"
    if got[0] != block_token(x[:w]):
        return "block %s is not rle1 of the consumed prefix (%s)" % (got[0], block_token(x[:w]))
    return None


# ---------------------------------------------------------------------------
# process level: decode the blocks of a .bz2 stream one at a time
# ---------------------------------------------------------------------------
BM = format(0x314159265359, "048b")
EM = format(0x177245385090, "048b")


def split_blocks(z):
    if z[:3] != b"BZh":
        raise ValueError("no bzip2 header")
    bits = bin(int.from_bytes(z, "big"))[2:].zfill(len(z) * 8)
    pos = []
    i = bits.find(BM, 32)
    while i >= 0:
        pos.append(i)
        i = bits.find(BM, i + 48)
    e = bits.rfind(EM)
    out = []
    for k, p in enumerate(pos):
        q = pos[k + 1] if k + 1 < len(pos) else e
        blk = bits[p:q]
        s = format(int.from_bytes(z[:4], "big"), "032b") + blk + EM + blk[48:80]
        s += "0" * ((-len(s)) % 8)
        out.append(bz2.decompress(int(s, 2).to_bytes(len(s) // 8, "big")))
    return out


def cyc(n, off=0):
    """n bytes without two equal neighbours and without the byte 'a' (0x61)."""
    base = bytes(b for b in range(251) if b != 0x61)
    reps = (n + off) // len(base) + 2
    return (base * reps)[off:off + n]


def recipe_bytes(rec, M):
    kind = rec["kind"]
    if kind == "norun":
        return cyc(rec["k"] * M + rec["d"])
    if kind == "run":
        # a run of r x 'a' starting t bytes before the M-th RLE byte, then 50 more bytes
        return cyc(M - rec["t"]) + b"a" * rec["r"] + cyc(50, 7)
    if kind == "tailrun":
        # a run of r x 'a' that is still pending when the input (k = 0) or the M-byte input piece (k = 1) ends
        return cyc(M - rec["r"] + 10 * (1 - rec["k"]), 3) + b"a" * (rec["r"] * (1 + rec["k"]))
    if kind == "aaaab":
        return b"aaaab" * (2 * M // 5 + 3)
    if kind == "alla":
        return b"a" * (M // 5 * 259 * rec["k"] + rec["d"])
    if kind == "runs":
        r = vlib.SplitMix(rec["seed"])
        out = bytearray()
        while len(out) < rec["n"]:
            out += bytes([0x30 + r.below(4)]) * r.choice([1, 1, 1, 2, 3, 4, 5, 6, 9, 258, 259, 260, 700])
        return bytes(out[:rec["n"]])
    raise ValueError(kind)


def expected_process_lengths(seq, M, x):
    if seq:
        return greedy_lengths_runwise(M, x)
    out = []
    for i in range(0, len(x), M):
        out += greedy_lengths_runwise(M, x[i:i + M])
    return out


# ---------------------------------------------------------------------------
class Check(PropertyCheck):
    pid = "C04"
    props_module = "Properties.Properties_C04"
    extra_targets = ["Extract/ExtractRle.vo"]
    gen_files = ["Consts.v", "CrcTab.v", "RleGen.v"]
    trusted_base = [
        "Coq 8.16.1 kernel (coqc); no vm_compute/native_compute in the general proofs (vm_compute only in the Examples)",
        "axioms: none (Print Assumptions: closed under the global context)",
        "translator lib/gen_from_source.py + lib/gen_rle.py (MAX_RUN_LENGTH, crc_table, capacity/buffer units, start values, qMax offset, flush constants, shape of do_collect_seq)",
        "the model of collect()/encoder_init()/final flush and of the do_collect/do_collect_seq loops in Rle/RleModel.v is hand-written; "
        "collect() is tied by correspondence (harness/rle_h_collect.c vs extracted model, ExtrOcamlBasic only); the two driver loops are "
        "re-implemented in the harness and tied to compress.c by the regenerated facts of Gen/RleGen.v and by the process-level block-boundary test",
        "process level: blocks are located by their 48-bit magic and decoded with python's bz2 (libbz2)",
        "the C integer types of nblock / rle_state / pointers are modelled as unbounded N/Z (capacity <= 900000 in the program)",
    ]
    assumptions = [
        "input bytes are < 256 (only needed for the byte-size theorem)",
        "the source thread never hands an empty buffer to the collectors (process.c:380); collect() itself is modelled and proved for empty buffers too",
        "default mode: every input buffer except the last holds exactly level*100000 bytes (xread fills the buffer; regenerated IN_GRANUL_UNIT)",
    ]

    # ---- harness plumbing --------------------------------------------------------
    def build_all(self, flavors=("rel", "dbg")):
        srcs = ["rle_h_collect.c", os.path.join(vlib.REPO, "src", "crctab.c"), os.path.join(vlib.REPO, "src", "divbwt.c")]
        hs = {}
        for fl in flavors:
            hs[fl] = vlib.build_c("rle_h_collect_" + fl, srcs, flavor=fl)
        return hs

    def build_model(self):
        return vlib.build_ocaml("rle_model", os.path.join(vlib.COQ, "Extract", "ml"), ["rle_model"], "rle_driver.ml")

    def run_cases(self, exe, cases, nproc=None, timeout=400, soft_timeout=False):
        """Run a line-protocol executable over the cases in parallel chunks.
        Returns a list of output lines (stripped); a crash on a case gives '<crash rc=..>'."""
        nproc = nproc or min(vlib.NCPU, 12)
        n = len(cases)
        res = [None] * n
        if n == 0:
            return res
        size = max(1, (n + nproc - 1) // nproc)

        def work(lo, hi):
            i = lo
            restarts = 0
            while i < hi:
                inp = ("\n".join(cases[i:hi]) + "\n").encode()
                rc, o, e = vlib.sh([exe], input=inp, timeout=timeout)
                lines = o.splitlines()
                if rc == 124 and soft_timeout:      # slow build ran out of time: the rest is not evaluated
                    for k, l in enumerate(lines[:hi - i]):
                        res[i + k] = l.strip()
                    self.notes.append("%s: time limit reached, %d cases of a chunk not evaluated" % (os.path.basename(exe), hi - i - len(lines)))
                    return
                for k, l in enumerate(lines[:hi - i]):
                    res[i + k] = l.strip()
                i += min(len(lines), hi - i)
                if i < hi:
                    res[i] = "<crash rc=%s %s>" % (rc, e.strip().splitlines()[-1][:200] if e.strip() else "")
                    i += 1
                    restarts += 1
                    if restarts > 25:
                        for k in range(i, hi):
                            res[k] = "<skipped after repeated crashes>"
                        return
        ths = [threading.Thread(target=work, args=(lo, min(n, lo + size))) for lo in range(0, n, size)]
        for t in ths:
            t.start()
        for t in ths:
            t.join()
        return res

    # ---- generators ------------------------------------------------------------------
    @staticmethod
    def compositions(x, mask):
        out, cur = [], bytearray()
        for i, b in enumerate(x):
            cur.append(b)
            if i + 1 < len(x) and (mask >> i) & 1:
                out.append(bytes(cur))
                cur = bytearray()
        out.append(bytes(cur))
        return out

    def rsplit(self, x, maxpiece, empties=True):
        r = self.rng
        out, i = [], 0
        while i < len(x):
            k = r.below(maxpiece + 1) if empties else 1 + r.below(maxpiece)
            out.append(x[i:i + k])
            i += k
        if empties and r.chance(1, 6):
            out.append(b"")
        return out or [b""]

    def gen_small(self, exhaustive, count):
        """capacities 1..n+2 (and up to 40), every splitting of every input over 2-3 letters."""
        cases = []
        if exhaustive:
            for alpha, maxn in ((2, 8), (3, 6)):
                for n in range(1, maxn + 1):
                    for x in itertools.product(range(alpha), repeat=n):
                        xb = bytes(x)
                        for mask in range(1 << (n - 1)):
                            bufs = self.compositions(xb, mask)
                            for M in range(1, n + 3):
                                for mode in "SD":
                                    cases.append(fmt_case(mode, M, bufs))
            return cases
        r = self.rng
        seen = set()
        while len(cases) < count:
            alpha = r.choice([2, 2, 3])
            n = 1 + r.below(8 if alpha == 2 else 6)
            xb = bytes(r.below(alpha) for _ in range(n))
            mask = r.below(1 << (n - 1))
            M = 1 + r.below(n + 2)
            c = fmt_case(r.choice("SD"), M, self.compositions(xb, mask))
            if c not in seen:
                seen.add(c)
                cases.append(c)
        return cases

    def gen_mid(self, count):
        """inputs of length 9..16 over 2-3 letters, capacities 1..40, random splittings (with empty buffers)."""
        r = self.rng
        cases = []
        for _ in range(count):
            alpha = r.choice([2, 2, 3])
            n = r.range(9, 16)
            x = bytearray()
            while len(x) < n:
                x += bytes([r.below(alpha)]) * r.choice([1, 1, 2, 3, 4, 5, 6, 7])
            x = bytes(x[:n])
            M = r.range(1, 40) if r.chance(1, 2) else r.range(1, 12)
            cases.append(fmt_case(r.choice("SSDDR"), M, self.rsplit(x, 5)))
        return cases

    def gen_fill(self, frac_den):
        """fill-level probes: f bytes without runs, then k equal bytes pending, then a continuation;
        capacity so that the block stands at M-2..M+1 when the k bytes are in; every splitting of the tail."""
        r = self.rng
        cases = []
        for f in (0, 1, 2, 5, 37):
            pre = cyc(f)
            for k in range(0, 6):
                for cont in (b"", b"b", b"ab", b"aab", b"aaab", b"aaaaab"):
                    tail = b"a" * k + cont
                    base = f + (k if k < 4 else 5)
                    for delta in (-2, -1, 0, 1):
                        M = base - delta
                        if M < 1 or not tail:
                            continue
                        for mask in range(1 << (len(tail) - 1)):
                            if frac_den > 1 and not r.chance(1, frac_den):
                                continue
                            tb = self.compositions(tail, mask)
                            how = r.below(3)
                            if how == 0 or not pre:
                                bufs = ([pre] if pre else []) + tb
                            elif how == 1:
                                bufs = [pre + tb[0]] + tb[1:]
                            else:
                                bufs = self.rsplit(pre, 4) + tb
                            cases.append(fmt_case(r.choice("SSDR"), M, bufs))
        return cases

    def gen_runs(self, reps):
        """runs of exactly 3/4/5/255/256/258/259/260/261/518/519 in noise, capacities around the
        places where the run starts / gets its count / is split at 259."""
        r = self.rng
        cases = []
        for L in (3, 4, 5, 255, 256, 258, 259, 260, 261, 518, 519):
            for _ in range(reps):
                f = r.below(7)
                pre = cyc(f, r.below(50))
                suf = r.choice([b"", b"b", b"bc", b"ba", b"bbbb", b"baaaa"])
                x = pre + b"a" * L + suf
                e = len(rle1(pre + b"a" * L))
                M = r.choice([f + 1 + r.below(7), max(1, e + r.range(-2, 2)), max(1, e + r.range(-2, 2)),
                              max(1, len(rle1(x)) + r.range(-1, 1)), 1 + r.below(12), 5000])
                pts = sorted(set(p for p in (f + 3, f + 4, f + 5, f + 258, f + 259, f + 260, f + L - 1, f + L, f)
                                 if 0 < p < len(x) and r.chance(1, 2)))
                bufs, last = [], 0
                for p in pts:
                    bufs.append(x[last:p])
                    last = p
                bufs.append(x[last:])
                if r.chance(1, 3):
                    bufs = self.rsplit(x, r.choice([3, 50, 300]))
                cases.append(fmt_case(r.choice("SSDR"), M, bufs))
        return cases

    def gen_long(self, count, maxlen):
        r = self.rng
        cases = []
        for _ in range(count):
            M = r.choice([r.range(1, 50), r.range(50, 600), r.range(600, 5000)])
            alpha = r.choice([1, 2, 3, 16, 256])
            n = min(maxlen, r.range(M // 2, 4 * M + 50))
            x = bytearray()
            runl = r.choice([[1], [1, 1, 1, 2, 3, 4, 5, 6], [1, 2, 3, 4, 5, 10, 258, 259, 260, 600], [3, 4, 5]])
            while len(x) < n:
                x += bytes([r.below(alpha)]) * r.choice(runl)
            x = bytes(x[:n])
            piece = r.choice([7, 100, max(1, M // 3), M, 2 * M + 3])
            cases.append(fmt_case(r.choice("SSDDR"), M, self.rsplit(x, piece, empties=r.chance(1, 2))))
        return cases

    def gen_cases(self, scale=1):
        thorough = self.tier == "thorough"
        cases = []
        corpus = os.path.join(vlib.VERIF, "harness", "corpus", "c04.txt")
        if os.path.exists(corpus):
            cases += [l.strip() for l in open(corpus) if l.strip() and not l.startswith("#")]
        hist = {}

        def add(name, cs):
            hist["gen_" + name] = len(cs)
            cases.extend(cs)
        lo = len(cases)
        add("small_all_splittings", self.gen_small(thorough, 25000 * scale))
        self.small_range = (lo, len(cases))
        add("mid_random_splittings", self.gen_mid((60000 if thorough else 6000) * scale))
        add("fill_level", self.gen_fill(1 if thorough else 6))
        add("exact_runs", self.gen_runs((300 if thorough else 40) * scale))
        add("long_random", self.gen_long((1500 if thorough else 160) * scale, 30000 if thorough else 12000))
        return cases, hist

    # ---- correspondence ---------------------------------------------------------------
    def correspond(self):
        flavors = ("rel", "dbg", "asan") if self.tier == "thorough" else ("rel", "dbg")
        hs = self.build_all(flavors)
        md = self.build_model()
        cases, hist = self.gen_cases()
        self.cases = cases
        outs = {}
        ths = []
        # the sanitizer build needs ~25 ms per case (it mallocs a whole encoder and runs the real encode() per block):
        # it gets every 64th case of the exhaustive small sweep, every 8th short case, and all long / exact-run cases
        lo, hi = getattr(self, "small_range", (0, 0))
        asan_idx = [i for i in range(len(cases))
                    if (i % 64 == 0 if lo <= i < hi else (i % 8 == 0 or len(cases[i]) > 400))]
        for nm, exe in list(hs.items()) + [("model", md)]:
            def job(nm=nm, exe=exe):
                if nm == "asan":
                    sub = self.run_cases(exe, [cases[i] for i in asan_idx], nproc=8, timeout=900, soft_timeout=True)
                    full = [None] * len(cases)
                    for i, o in zip(asan_idx, sub):
                        full[i] = o
                    outs[nm] = full
                else:
                    outs[nm] = self.run_cases(exe, cases, nproc=6 if nm != "model" else 12)
            t = threading.Thread(target=job)
            t.start()
            ths.append(t)
        for t in ths:
            t.join()
        impl, model = outs["rel"], outs["model"]
        self.impl_out = impl
        dis = []
        nontriv = set()
        hist.update({"mode_S": 0, "mode_D": 0, "mode_R": 0, "calls": 0, "calls_full": 0, "full_at_M-1_lookahead": 0,
                     "full_with_0_consumed": 0, "call_end_state_0": 0, "call_end_state_1_3": 0, "call_end_state_ge4": 0,
                     "empty_buffers": 0, "blocks": 0, "cases_with_run_ge_259": 0, "M_le_40": 0, "M_41_600": 0, "M_gt_600": 0})
        for i, c in enumerate(cases):
            a, b = impl[i], model[i]
            if a != b:
                dis.append({"case": c[:600], "impl": (a or "")[:400], "model": (b or "")[:400]})
            for fl in flavors[1:]:
                o = outs[fl][i]
                if o is not None and o != a and len(dis) < 50:
                    dis.append({"case": c[:600], "impl": (a or "")[:400], "impl_" + fl: (o or "")[:400]})
            toks = c.split(" ", 2)
            hist["mode_" + toks[0]] += 1
            M = int(toks[1])
            hist["M_le_40" if M <= 40 else "M_41_600" if M <= 600 else "M_gt_600"] += 1
            hist["empty_buffers"] += toks[2].split().count("-") if len(toks) > 2 else 0
            if len(toks) > 2 and ("61" * 259 in toks[2].replace(" ", "") or "00" * 259 in toks[2].replace(" ", "")):
                hist["cases_with_run_ge_259"] += 1
            full_seen = False
            for t in (a or "").split():
                if t.startswith("c:"):
                    f = t[2:].split(",")
                    hist["calls"] += 1
                    if f[0] == "1":
                        hist["calls_full"] += 1
                        full_seen = True
                        if int(f[2]) == M - 1:
                            hist["full_at_M-1_lookahead"] += 1
                        if f[1] == "0":
                            hist["full_with_0_consumed"] += 1
                    else:
                        st = int(f[3])
                        hist["call_end_state_0" if st == 0 else "call_end_state_1_3" if st < 4 else "call_end_state_ge4"] += 1
                elif t.startswith("b:"):
                    hist["blocks"] += 1
            if full_seen:
                nontriv.add(c)
        self.disagreements = dis
        for d in dis[:5]:
            what = "collect() model vs implementation differ on `%s`" % d["case"][:150] if "model" in d else \
                "assert-enabled/sanitizer build of collect() behaves differently on `%s`" % d["case"][:150]
            self.broken.append(Broken("correspondence", what, json.dumps(d)[:1500]))
        # the python oracle used by direct()/search() against the extracted specification (small inputs: it is cubic)
        spec_cases = []
        for c in cases:
            mode, rest = c.split(" ", 1)
            if mode in "SD" and len(c) < 90:
                ms, bufs = rest.split(" ", 1) if " " in rest else (rest, "")
                spec_cases.append(("G %s %s %s" % (ms, "s" if mode == "S" else "d", bufs), c))
            if len(spec_cases) >= (20000 if self.tier == "thorough" else 3000):
                break
        sout = self.run_cases(md, [s for s, _ in spec_cases])
        spec_bad = 0
        for (s, c), o in zip(spec_cases, sout):
            mode, M, bufs = parse_case(c)
            want = " ".join("g:" + block_token(g)[2:] for g in expected_blocks(mode, M, bufs))
            if (o or "").strip() != want:
                spec_bad += 1
                if spec_bad <= 2:
                    self.broken.append(Broken("correspondence", "python oracle vs extracted greedy_spec differ on `%s`" % c[:150],
                                              "spec=%s oracle=%s" % ((o or "")[:300], want[:300])))
        hist["spec_vs_oracle_cases"] = len(spec_cases)
        return {
            "evaluations": sum(1 for nm in outs for o in outs[nm] if o is not None) + len(spec_cases),
            "distinct_nontrivial": len(nontriv),
            "rule": "per-call trace (return value, consumed, nblock, rle_state, rle_character) and finished blocks (weight, crc, bytes) of real "
                    "collect() [builds: %s] vs extracted model on: %s of inputs <= 8 bytes over 2 letters / <= 6 over 3 letters with capacities 1..n+2; "
                    "inputs 9..16 bytes, capacities 1..40, random splittings with empty buffers; fill-level probes (block at M-2..M+1 with 0..5 equal bytes pending, "
                    "every splitting of the tail); runs of exactly 3/4/5/255/256/258/259/260/261/518/519; random inputs up to %d bytes with M up to 5000; "
                    "non-trivial = distinct cases in which at least one collect() call reported the block full" % (
                        ",".join(flavors), "EVERY splitting" if self.tier == "thorough" else "a random sample of the splittings",
                        30000 if self.tier == "thorough" else 12000),
            "samples": cases[:2] + [c[:300] for c in cases[len(cases) // 2:len(cases) // 2 + 2]] + [cases[-1][:300]],
            "histogram": hist,
            "disagreements": len(dis),
        }

    # ---- the property itself on the implementation ---------------------------------------
    def oracle_check(self, cases, impl, limit=3):
        bad = []
        for c, a in zip(cases, impl):
            if a is None or a.startswith("<"):
                v = "harness crashed: %s" % a
            else:
                try:
                    v = oracle_verdict(c, a)
                except Exception as ex:
                    v = "unparsable harness output (%s)" % ex
            if v:
                bad.append((len(c), c, a, v))
        bad.sort()
        out = []
        for _, c, a, v in bad[:limit]:
            out.append(Violation("collect-greedy-mismatch",
                                 "collect() on `%s`: %s" % (c[:160], v[:200]),
                                 {"case": c, "impl": a, "why": v, "failing_cases_in_this_run": len(bad),
                                  "how": "echo '<case>' | .work/bin/rle_h_collect_rel   (mode M hex-buffers...)"}))
        return out

    def process_recipes(self):
        thorough = self.tier == "thorough"
        r = self.rng
        recs = []
        for lvl in (1, 2):
            for k in (1, 2):
                for d in (-2, -1, 0, 1, 2):
                    recs.append({"lvl": lvl, "kind": "norun", "k": k, "d": d})
            combos = [(t, rr) for t in range(0, 7) for rr in (3, 4, 5, 6)] + [(t, rr) for t in (2, 3, 4, 5) for rr in (259, 260, 518)]
            if not thorough:
                combos = [(1, 3), (2, 3), (3, 3), (3, 4), (4, 4), (5, 4), (4, 5), (5, 5), (6, 6), (4, 259), (5, 260)] + \
                    [r.choice(combos) for _ in range(3)]
            for t, rr in combos:
                recs.append({"lvl": lvl, "kind": "run", "t": t, "r": rr})
            for rr in (4, 5, 258, 259, 260):
                for k in (0, 1):
                    recs.append({"lvl": lvl, "kind": "tailrun", "r": rr, "k": k})
            recs.append({"lvl": lvl, "kind": "aaaab"})
            recs.append({"lvl": lvl, "kind": "alla", "k": 2, "d": 7})
            for d in ((-2, 0, 3) if thorough else (0,)):
                recs.append({"lvl": lvl, "kind": "alla", "k": 1, "d": d})
            for _ in range(4 if thorough else 1):
                recs.append({"lvl": lvl, "kind": "runs", "seed": r.below(1 << 30), "n": 250000 * lvl + r.below(5)})
        return recs

    def run_recipe(self, exe, rec, seq, nthreads):
        M = rec["lvl"] * 100000
        x = recipe_bytes(rec, M)
        args = ["-%d" % rec["lvl"], "-n", str(nthreads)] + (["--sequential"] if seq == 1 else ["-u"] if seq == 2 else [])
        rc, o, e = vlib.shb([exe] + args, input=x, timeout=60)
        if rc != 0:
            return "lbzip2 %s failed rc=%s %s" % (" ".join(args), rc, e[-200:])
        try:
            blocks = split_blocks(o)
        except Exception as ex:
            return "output of lbzip2 %s is not decodable block by block (%s)" % (" ".join(args), ex)
        if b"".join(blocks) != x:
            return "blocks of lbzip2 %s do not concatenate to the input" % " ".join(args)
        got = [len(b) for b in blocks]
        want = expected_process_lengths(bool(seq), M, x)
        if got != want:
            k = next((i for i in range(min(len(got), len(want))) if got[i] != want[i]), min(len(got), len(want)))
            return "lbzip2 %s on %d input bytes: %d blocks, greedy rule %d; first difference at block %d: %s vs %s" % (
                " ".join(args), len(x), len(got), len(want), k, got[k:k + 3], want[k:k + 3])
        return None

    def direct_process(self):
        exe = vlib.build_lbzip2("rel")
        recs = self.process_recipes()
        jobs = []
        for i, rec in enumerate(recs):
            for seq in (0, 1 + (i % 2)):
                jobs.append((rec, seq, self.rng.choice([1, 2, 4, 16])))
        res = [None] * len(jobs)
        idx = {"i": 0}
        lock = threading.Lock()

        def work():
            while True:
                with lock:
                    i = idx["i"]
                    idx["i"] += 1
                if i >= len(jobs):
                    return
                try:
                    res[i] = self.run_recipe(exe, *jobs[i])
                except Exception as ex:
                    res[i] = "process-level test crashed: %r" % ex
        ths = [threading.Thread(target=work) for _ in range(min(8, vlib.NCPU))]
        for t in ths:
            t.start()
        for t in ths:
            t.join()
        self.process_runs = len(jobs)
        out = []
        for (rec, seq, nt), v in zip(jobs, res):
            if v:
                out.append(Violation("process-blocks-mismatch", v[:300],
                                     {"recipe": rec, "seq": seq, "threads": nt, "why": v,
                                      "how": "input = recipe_bytes(recipe, lvl*100000) in checks/c04.py; ./check C04 --replay <this file>"}))
                if len(out) >= 3:
                    break
        return out

    def direct(self):
        out = []
        if hasattr(self, "cases") and hasattr(self, "impl_out"):
            out += self.oracle_check(self.cases, self.impl_out)
            # the two formulations of the oracle must agree (guards the oracle itself)
            for c in self.cases[:: max(1, len(self.cases) // 400)]:
                mode, M, bufs = parse_case(c)
                x = b"".join(bufs)
                if [len(g) for g in greedy(M, x)] != greedy_lengths_runwise(M, x):
                    self.broken.append(Broken("direct", "the two python formulations of the greedy rule disagree", c[:300]))
                    break
        out += self.direct_process()
        self.notes.append("process level: %d runs of the real binary (levels 1-2, default / --sequential / -u, 1-16 threads), "
                          "block input lengths compared with the greedy rule" % getattr(self, "process_runs", 0))
        return out

    def search(self):
        """Fresh, larger batch of boundary-aimed cases on the NDEBUG build vs the python oracle."""
        try:
            hs = self.build_all(("rel",))["rel"]
        except vlib.BuildError:
            return []
        cases = []
        for d in getattr(self, "disagreements", []):
            cases.append(d["case"]) if len(d["case"]) < 600 else None
        save = self.tier
        try:
            self.tier = "quick"
            more, _ = self.gen_cases(scale=2)
        finally:
            self.tier = save
        cases += more
        impl = self.run_cases(hs, cases)
        return self.oracle_check(cases, impl)

    def replay(self, path):
        p = json.load(open(path))
        if p.get("case"):
            hs = self.build_all(("rel",))["rel"]
            out = self.run_cases(hs, [p["case"]], nproc=1)[0]
            v = oracle_verdict(p["case"], out) if out and not out.startswith("<") else out
            print("case:", p["case"][:2000], "\nimpl:", (out or "")[:2000], "\nverdict:", v or "obeys the greedy rule")
            return 1 if v else 0
        if p.get("recipe"):
            exe = vlib.build_lbzip2("rel")
            v = self.run_recipe(exe, p["recipe"], p.get("seq", 0), p.get("threads", 2))
            print("recipe:", p["recipe"], "seq:", p.get("seq"), "\nverdict:", v or "obeys the greedy rule")
            return 1 if v else 0
        print("replay file names no input:", json.dumps(p.get("broken"), indent=1)[:2000])
        return 1
