"""C17 - File operands follow the documented naming and safety rules."""
import json
import os
import shutil
from concurrent.futures import ThreadPoolExecutor

import vlib
import frontlib as fl
from runner import PropertyCheck, Broken, Violation

SUFFIX_RULES = [(".bz2", ""), (".tbz2", ".tar"), (".tbz", ".tar"), (".tz2", ".tar")]     # the documented rules


def doc_out_name(dec, name):
    """Output name by the documentation (independent of the model)."""
    if not dec:
        return name + ".bz2"
    for suf in (".bz2", ".tbz2", ".tbz", ".tz2"):
        if name.endswith(suf):
            return name[:-len(suf)] + dict(SUFFIX_RULES)[suf]
    return name + ".out"


def has_compressed_suffix(name):
    return name.endswith((".bz2", ".tbz", ".tbz2", ".tz2"))


def corpus(gen):
    """Hand-made boundary scenarios: every corner name in both modes, pre-existing outputs,
    special modes, every operand kind, every flag combination on one regular file."""
    out = []
    z = gen.codec.get("C", b"hello hello hello\n")[1]
    t1, t2 = 1_234_567_890_123_456_789, 1_111_111_111_000_000_001

    def reg(data, mode=0o644, uid=0, gid=0):
        return {"kind": "r", "mode": mode, "uid": uid, "gid": gid, "atime": t1, "mtime": t2, "data": data}
    for nm in fl.CORNER_NAMES + ["plain", "x.tbz", "y.tz2", "w.tbz2", "sub/n.bz2"]:
        for flags in ([], ["-d"], ["-f"], ["-d", "-f"], ["-dk"]):
            dec = fl.cfg_of_flags(flags)["decompress"]
            names = {nm: ("L", 10)}
            inodes = {10: reg(z if dec else b"hello hello hello\n", 0o640, 1000, 100)}
            if "/" in nm:
                names["sub"] = ("L", 11)
                inodes[11] = {"kind": "d", "mode": 0o755, "uid": 0, "gid": 0, "atime": t1, "mtime": t2, "data": b""}
            out.append({"inodes": inodes, "names": names, "ops": [nm], "flags": flags, "plan": None})
    for mode in (0o400, 0o600, 0o644, 0o755, 0o777, 0o4755, 0o2755, 0o1644, 0o7777, 0o000, 0o4000, 0o123):
        for flags in ([], ["-d"], ["-k"]):
            dec = fl.cfg_of_flags(flags)["decompress"]
            nm = "m.bz2" if dec else "m"
            out.append({"inodes": {10: reg(z if dec else b"abc" * 50, mode, 1234, 4321)}, "names": {nm: ("L", 10)},
                        "ops": [nm], "flags": flags, "plan": None})
    # every operand kind x flag set
    for flags in ([], ["-k"], ["-f"], ["-c"], ["-d"], ["-d", "-k"], ["-d", "-f"], ["-d", "-c"], ["-t"], ["-t", "-f"],
                  ["-z"], ["-d", "-z"], ["-c", "-f", "-d"], ["-f", "-k"], ["--keep", "--force", "--decompress"]):
        cfg = fl.cfg_of_flags(flags)
        dec = cfg["decompress"]
        good = z if dec else b"data data data"
        sfx = ".bz2" if dec else ""
        base = {
            "reg" + sfx: ("L", 10), "empty" + sfx: ("L", 11), "hl" + sfx: ("L", 12), "hl2" + sfx: ("L", 12),
            "sl" + sfx: ("S", "reg" + sfx), "dangling" + sfx: ("S", "nowhere"), "dir" + sfx: ("L", 13),
            "pre" + sfx: ("L", 14), doc_out_name(dec, "pre" + sfx): ("L", 15), "bystander": ("L", 16),
        }
        inodes = {10: reg(good, 0o644), 11: reg(b""), 12: reg(good, 0o600), 14: reg(good, 0o664), 15: reg(b"old output", 0o600),
                  13: {"kind": "d", "mode": 0o755, "uid": 0, "gid": 0, "atime": t1, "mtime": t2, "data": b""},
                  16: reg(b"bystander")}
        ops_all = ["reg" + sfx, "empty" + sfx, "hl" + sfx, "sl" + sfx, "dangling" + sfx, "missing" + sfx, "pre" + sfx]
        if cfg["outmode"] == "r" and not cfg["force"]:
            base["fifo" + sfx] = ("L", 17)
            inodes[17] = {"kind": "p", "mode": 0o644, "uid": 0, "gid": 0, "atime": t1, "mtime": t2, "data": b""}
            ops_all.append("fifo" + sfx)
        for op in ops_all + ["dir" + sfx]:
            out.append({"inodes": {k: dict(v) for k, v in inodes.items()}, "names": dict(base), "ops": [op],
                        "flags": flags, "plan": None})
        out.append({"inodes": {k: dict(v) for k, v in inodes.items()}, "names": dict(base), "ops": ops_all,
                    "flags": flags, "plan": None})
    return out


class Check(PropertyCheck):
    pid = "C17"
    props_module = "Properties.Properties_C17"
    extra_targets = ["Extract/ExtractFront.vo"]
    gen_files = ["FrontTab.v"]
    trusted_base = [
        "Coq 8.16.1 kernel (coqc); no axioms (Print Assumptions: closed under the global context)",
        "translator lib/gen_front.py: suffix[] entries in order, open()/fchmod() masks, setuid test mask, stat fields of "
        "fchown()/futimens(), link limit, exit codes, call orders and guard strings of main.c/signals.c -> Gen/FrontTab.v",
        "hand model Front/FsModel.v + Front/MainLoop.v of the operand loop (system calls in source order) tied by scenario "
        "correspondence with the real binary; work() abstracted to a function codec (instantiated by running the binary as a filter)",
        "abstract file system: names are opaque keys (parent directories assumed present and writable), no permission checks "
        "(checks run as root), atime updates by read() not modelled, no concurrent modification",
        "options -k -c -t -f -d -z are mapped to the configuration by lib/frontlib.cfg_of_flags (option parsing is C22)",
    ]
    assumptions = [
        "the invoking user may read the operands and create files in their directories",
        "no other process modifies the tree during the run",
    ]

    # ------------------------------------------------------------------ helpers
    def setup(self):
        if hasattr(self, "exe"):
            return
        self.exe = vlib.build_lbzip2("rel")
        self.codec = fl.Codec(self.exe)
        self.gen = fl.Gen(self.rng, self.codec)
        self.scn_dir = os.path.join(self.work, "scn")
        shutil.rmtree(self.scn_dir, ignore_errors=True)
        os.makedirs(self.scn_dir, exist_ok=True)

    def run_batch(self, scns, tag):
        """Run scenarios through the real binary (parallel) and the model (one batch)."""
        self.setup()
        texts = []
        for i, scn in enumerate(scns):
            cfg = fl.cfg_of_flags(scn["flags"])
            texts.append(fl.case_text("%s%d" % (tag, i), scn, fl.codec_lines_simple(self.codec, scn, cfg)))
        model = fl.run_model("".join(texts))

        def one(i):
            return fl.run_real(self.exe, scns[i], os.path.join(self.scn_dir, "%s%d" % (tag, i)))
        with ThreadPoolExecutor(max_workers=min(12, vlib.NCPU)) as ex:
            reals = list(ex.map(one, range(len(scns))))
        return reals, [model["%s%d" % (tag, i)] for i in range(len(scns))]

    # ------------------------------------------------------------------ tie 2
    def correspond(self):
        self.setup()
        scns = corpus(self.gen)
        ncorpus = len(scns)
        n = 300 if self.tier == "quick" else 4000
        hist = {}
        for _ in range(n):
            scn, h = self.gen.scenario()
            for k, v in h.items():
                hist[k] = hist.get(k, 0) + v
            scns.append(scn)
        reals, models = self.run_batch(scns, "c")
        self.scns, self.reals = scns, reals
        dis = []
        nontriv = set()
        outcomes = {}
        flaghist = {}
        for i, (scn, real, model) in enumerate(zip(scns, reals, models)):
            d = fl.compare(scn, real, model)
            if d:
                dis.append({"scenario": fl.scn_brief(scn), "argv": fl.argv_of(scn), "diffs": d[:8]})
            outcomes[real["outcome"]] = outcomes.get(real["outcome"], 0) + 1
            key = " ".join(sorted(scn["flags"]))
            flaghist[key] = flaghist.get(key, 0) + 1
            if any(h["disp"] == "done" for h in model["hist"]):
                nontriv.add(json.dumps(fl.scn_brief(scn), sort_keys=True))
        self.disagreements = dis
        if getattr(self.gen, "codec_broken", False):
            self.broken.append(Broken("correspondence", "lbzip2 fails as a stdin->stdout filter on valid input (used as codec instance)", ""))
        for dd in dis[:5]:
            self.broken.append(Broken("correspondence", "operand-loop model vs lbzip2 differ on `lbzip2 %s`" % " ".join(dd["argv"]),
                                      "; ".join(dd["diffs"])[:1500]))
        return {
            "evaluations": len(scns), "distinct_nontrivial": len(nontriv),
            "rule": "scenario directories (regular/empty/symlink/dangling/hard-linked/directory/fifo/missing operands, pre-existing "
                    "outputs incl. directories, symlinks and hard links to the input, corner names, modes incl. setuid/setgid/sticky, "
                    "planted ns time stamps and owners) x flag sets from -k -c -t -f -d -z, 1..6 operands; compared: exit status, "
                    "final recursive listing (kind, mode, nlink, uid, gid, size+content, mtime, atime of new files), stdout, "
                    "diagnostics class sequence; non-trivial = distinct scenarios in which at least one operand was processed to completion",
            "samples": [{"argv": fl.argv_of(s), "names": sorted(s["names"])} for s in scns[ncorpus:ncorpus + 3]],
            "histogram": {"corpus": ncorpus, "generated": n, "operand_kinds": hist, "outcomes": outcomes,
                          "flag_sets": dict(sorted(flaghist.items(), key=lambda kv: -kv[1])[:25])},
            "disagreements": len(dis),
        }

    # ------------------------------------------------------------------ the property itself on the implementation
    def oracle(self, scn, real):
        """Violations of the property's clauses visible in (scenario, real result).  Independent of the model."""
        cfg = fl.cfg_of_flags(scn["flags"])
        dec, force, keep, om = cfg["decompress"], cfg["force"], cfg["keep"], cfg["outmode"]
        after = {e["path"]: e for e in real["listing"]}
        names, inodes = scn["names"], scn["inodes"]
        out = []
        argv = "lbzip2 " + " ".join(fl.argv_of(scn))

        def V(key, msg):
            out.append(Violation("c17:" + key, "%s: %s" % (argv, msg),
                                 {"scenario": fl.scn_brief(scn), "argv": fl.argv_of(scn), "clause": key,
                                  "exit": real["outcome"], "stderr": real["err"].decode("latin-1")[:600],
                                  "after": [fl.short(e) for e in real["listing"]]}))

        def unchanged(p, links=True):
            e = names[p]
            a = after.get(p)
            if a is None:
                return False
            if e[0] == "S":
                return a["kind"] == "l" and a["target"] == e[1]
            nd = inodes[e[1]]
            if a["kind"] != nd["kind"] or a["mode"] != nd["mode"] or a["uid"] != nd["uid"] or a["gid"] != nd["gid"]:
                return False
            if nd["kind"] == "r":
                nl = sum(1 for x in names.values() if x == e)
                return a["data"] == nd["data"] and a["mtime"] == nd["mtime"] and (a["nlink"] == nl or not links)
            return True
        ops = scn["ops"]
        outs = {op: doc_out_name(dec, op) for op in ops}
        fatal = real["outcome"] not in ("E0", "E4")
        # (a) without -f nothing that exists and is not an operand is modified
        if not force:
            for p in names:
                if p not in ops and not unchanged(p):
                    V("no-clobber", "existing non-operand %r was changed without -f (now %s)" % (p, fl.short(after.get(p)) if p in after else "absent"))
        simple = len(set(ops)) == len(ops) and not (set(outs.values()) & set(ops)) and len(set(outs.values())) == len(ops)
        if not simple or real["hung"]:
            return out
        skipped_expected = 0
        for op in ops:
            e = names.get(op)
            q = outs[op]
            reg = e is not None and e[0] == "L" and inodes[e[1]]["kind"] == "r"
            nl = sum(1 for x in names.values() if x == e) if reg else 0
            # (b) admission
            if om == "r" and not force and (not reg or (nl > 1 and not keep)):
                skipped_expected += 1
                if e is not None and not unchanged(op):
                    V("admission", "operand %r (not regular or several links) was not left untouched" % op)
                if q not in names and q in after:
                    V("admission", "operand %r should have been skipped but %r was created" % (op, q))
                continue
            # (c) compressed suffix when compressing
            if not dec and has_compressed_suffix(op):
                skipped_expected += 1
                if e is not None and not unchanged(op):
                    V("suffix-skip", "operand %r has a compressed suffix but was changed" % op)
                if q not in names and q in after:
                    V("suffix-skip", "operand %r has a compressed suffix but %r was created" % (op, q))
                continue
            if not reg or fatal:
                continue
            nd = inodes[e[1]]
            if om != "r":
                if not unchanged(op):
                    V("removal", "operand %r changed or removed although -c/-t was given" % op)
                continue
            q_is_dir = q in names and names[q][0] == "L" and inodes[names[q][1]]["kind"] == "d"

            def leads_to(p, depth=0):
                x = names.get(p)
                if x is None or depth > 40:
                    return None
                return x[1] if x[0] == "L" else leads_to(x[1], depth + 1)
            if force and q in names and leads_to(q) == e[1]:
                # -f and the output name leads to the input file itself: the unrepaired source replaces it, the repaired
                # source (notes/fix_F5_force_symlink.diff) skips the operand; the property text does not say which
                continue
            if (q in names and not force) or q_is_dir or q == "" or q.endswith("/"):
                skipped_expected += 1
                continue
            mode = "C" if not dec else "X"
            if dec and not fl.hdr_ok(nd["data"]):
                continue
            ok, want = self.codec.get(mode, nd["data"])
            if not ok:
                continue
            # (d) naming, content, metadata
            a = after.get(q)
            if a is None or a["kind"] != "r":
                V("naming", "operand %r: expected output %r is missing (present: %s)" % (op, q, sorted(after)))
                continue
            if a["data"] != want:
                V("content", "output %r does not hold the (de)compressed content of %r" % (q, op))
            if a["mode"] != nd["mode"] & 0o777:
                V("metadata-mode", "output %r has mode %o, input had %o" % (q, a["mode"], nd["mode"]))
            if a["mtime"] != nd["mtime"]:
                V("metadata-mtime", "output %r has mtime %d, input had %d (atime %d)" % (q, a["mtime"], nd["mtime"], nd["atime"]))
            if a["atime"] != nd["atime"]:
                V("metadata-atime", "output %r has atime %d, input had %d" % (q, a["atime"], nd["atime"]))
            # (e) removal
            if keep and not unchanged(op, links=False):
                V("removal", "operand %r was removed or changed although -k was given" % op)
            if not keep and op in after:
                V("removal", "operand %r was not removed" % op)
        if not fatal:
            warned = bool(real["err"].strip())
            if (real["outcome"] == "E4") != warned:
                V("exit", "exit status %s but %s" % (real["outcome"], "diagnostics were printed" if warned else "no diagnostics"))
            if skipped_expected and real["outcome"] != "E4":
                V("exit", "%d operand(s) had to be skipped but the exit status is %s" % (skipped_expected, real["outcome"]))
        return out

    def direct(self):
        if not hasattr(self, "scns"):
            return []
        viols = []
        for scn, real in zip(self.scns, self.reals):
            viols += self.oracle(scn, real)
            if len(viols) > 40:
                break
        return self.dedupe(viols)

    @staticmethod
    def dedupe(viols):
        seen, out = set(), []
        for v in viols:
            if v.key not in seen:
                seen.add(v.key)
                out.append(v)
        return out

    def search(self):
        """Something is broken: evaluate the property on the implementation over many more scenarios."""
        self.setup()
        scns = []
        for dd in getattr(self, "disagreements", [])[:50]:
            scns.append(fl.scn_from_brief(dd["scenario"]))
        scns += corpus(self.gen)
        for _ in range(1200):
            scns.append(self.gen.scenario()[0])

        def one(i):
            return fl.run_real(self.exe, scns[i], os.path.join(self.scn_dir, "s%d" % i))
        with ThreadPoolExecutor(max_workers=min(12, vlib.NCPU)) as ex:
            reals = list(ex.map(one, range(len(scns))))
        viols = []
        for scn, real in zip(scns, reals):
            viols += self.oracle(scn, real)
        return self.dedupe(viols)

    def replay(self, path):
        self.setup()
        p = json.load(open(path))
        if "scenario" not in p:
            print("replay file names no scenario:", json.dumps(p.get("broken"), indent=1)[:3000])
            return 1
        scn = fl.scn_from_brief(p["scenario"])
        real = fl.run_real(self.exe, scn, os.path.join(self.scn_dir, "replay"))
        print("lbzip2", " ".join(fl.argv_of(scn)), "->", real["outcome"])
        print(real["err"].decode("latin-1"))
        for e in real["listing"]:
            print("  ", fl.short(e))
        v = self.oracle(scn, real)
        for x in v:
            print("VIOLATION:", x.summary)
        return 1 if v else 0
