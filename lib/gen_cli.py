"""Translator plugin for the command-line front end (property C22).

Transcribes from src/main.c into coq/Gen/CliTab.v everything in opts_setup()
that is *data*: the environment variable list ev_name[], the separator string
envsep, the unit-suffix string of xstrtol(), the initial values of bs100k and
outmode, the invocation-name comparison chain, the long-option strcmp chain and
the short-option switch.  Statements are transcribed as (kind, a, b) string
triples without interpretation:

    x = e;      ->  ("set",  "x", "<tokens of e>")
    f(e);       ->  ("call", "f", "<tokens of e>")
    fail(...);  ->  ("fail", "", "")
    the -n/-m body (recognised by its shape) -> ("optarg", "<var>", "<lo>,<hi>")

Their meaning is given by Gallina functions in coq/Cli/CliModel.v (compile_stmt,
classify_*).  Anything that does not have one of the shapes above is a
ParseError, i.e. a broken tie, never skipped.
"""
import re

import cparse
from cparse import ParseError


# ---------------------------------------------------------------------------
# small helpers
# ---------------------------------------------------------------------------
def c_unescape(lit):
    """Value (list of byte codes) of a C string or character literal token."""
    assert lit[0] in "\"'" and lit[-1] == lit[0]
    s = lit[1:-1]
    out = []
    i = 0
    simple = {"n": 10, "t": 9, "r": 13, "v": 11, "f": 12, "a": 7, "b": 8, "\\": 92, "'": 39, '"': 34, "?": 63}
    while i < len(s):
        c = s[i]
        if c != "\\":
            out.append(ord(c))
            i += 1
            continue
        i += 1
        c = s[i]
        if c in simple:
            out.append(simple[c])
            i += 1
        elif c == "x":
            m = re.match(r"[0-9a-fA-F]+", s[i + 1:])
            if not m:
                raise ParseError("bad hex escape in %s" % lit)
            out.append(int(m.group(0), 16) & 255)
            i += 1 + len(m.group(0))
        elif c in "01234567":
            m = re.match(r"[0-7]{1,3}", s[i:])
            out.append(int(m.group(0), 8) & 255)
            i += len(m.group(0))
        else:
            raise ParseError("unknown escape \\%s in %s" % (c, lit))
    return out


def coq_string(codes):
    """Coq term of type string for a list of byte codes."""
    if all(32 <= c < 127 and c != 34 for c in codes):
        return '"%s"%%string' % "".join(chr(c) for c in codes)
    return "(string_of_codes [%s])" % "; ".join(str(c) for c in codes)


def coq_text(s):
    return coq_string([ord(c) for c in s])


def coq_list(items):
    return "[" + "; ".join(items) + "]"


def coq_stmts(stmts):
    return coq_list("(%s, %s, %s)" % (coq_text(k), coq_text(a), coq_text(b)) for k, a, b in stmts)


class Toks:
    def __init__(self, toks, i=0):
        self.t = toks
        self.i = i

    def peek(self, k=0):
        j = self.i + k
        return self.t[j] if j < len(self.t) else ("eof", "")

    def val(self, k=0):
        return self.peek(k)[1]

    def eat(self, v=None):
        k, val = self.peek()
        if v is not None and val != v:
            raise ParseError("expected %r, found %r (token %d: ...%s)" % (
                v, val, self.i, " ".join(t[1] for t in self.t[max(0, self.i - 6):self.i + 3])))
        self.i += 1
        return k, val

    def find_seq(self, seq, start=0):
        n = len(seq)
        for j in range(start, len(self.t) - n + 1):
            if all(self.t[j + d][1] == seq[d] for d in range(n)):
                return j
        return -1

    def balanced(self, open_, close):
        """At an `open_` token: return the tokens strictly inside, leave position after `close`."""
        self.eat(open_)
        depth = 1
        start = self.i
        while depth:
            k, v = self.peek()
            if k == "eof":
                raise ParseError("unbalanced %s" % open_)
            if v == open_ and k == "op":
                depth += 1
            elif v == close and k == "op":
                depth -= 1
            self.i += 1
        return self.t[start:self.i - 1]


def text(toks):
    return "".join(t[1] for t in toks)


def simple_statements(toks, what):
    """Parse a token list consisting only of `x = e;`, `f(e);`, `break;`.
    Returns (stmts, ends_with_break)."""
    p = Toks(toks)
    out = []
    brk = False
    while p.peek()[0] != "eof":
        if brk:
            raise ParseError("%s: statements after break" % what)
        k, v = p.peek()
        if v == "break":
            p.eat()
            p.eat(";")
            brk = True
            continue
        if k != "id":
            raise ParseError("%s: unsupported statement starting with %r" % (what, v))
        if v in ("if", "while", "for", "do", "switch", "return", "goto", "else"):
            raise ParseError("%s: control statement %r is not a simple statement" % (what, v))
        p.eat()
        nk, nv = p.peek()
        if nv == "=":
            p.eat()
            rhs = []
            while p.val() != ";":
                if p.peek()[0] == "eof":
                    raise ParseError("%s: missing ;" % what)
                rhs.append(p.eat())
            p.eat(";")
            out.append(("set", v, text(rhs)))
        elif nv == "(":
            args = p.balanced("(", ")")
            p.eat(";")
            if v == "fail":
                out.append(("fail", "", ""))
            else:
                out.append(("call", v, text(args)))
        else:
            raise ParseError("%s: unsupported statement `%s %s ...`" % (what, v, nv))
    return out, brk


def split_top(toks, sep):
    """Split a token list on operator `sep` at parenthesis depth 0."""
    parts = [[]]
    depth = 0
    for k, v in toks:
        if k == "op" and v == "(":
            depth += 1
        elif k == "op" and v == ")":
            depth -= 1
        if depth == 0 and k == "op" and v == sep:
            parts.append([])
        else:
            parts[-1].append((k, v))
    return parts


def strip_parens(toks):
    while len(toks) >= 2 and toks[0] == ("op", "(") and toks[-1] == ("op", ")"):
        depth = 0
        ok = True
        for j, (k, v) in enumerate(toks):
            if (k, v) == ("op", "("):
                depth += 1
            elif (k, v) == ("op", ")"):
                depth -= 1
                if depth == 0 and j != len(toks) - 1:
                    ok = False
                    break
        if not ok:
            break
        toks = toks[1:-1]
    return toks


def strcmp_atom(toks, var, rel):
    """Recognise `strcmp(<var>, "S") <rel> 0` / `0 <rel> strcmp("S", <var>)` (either
    argument order); return the byte codes of S."""
    toks = strip_parens(toks)
    t = [v for _, v in toks]
    if len(t) >= 3 and t[0] == "0" and t[1] == rel:
        call = toks[2:]
    elif len(t) >= 3 and t[-1] == "0" and t[-2] == rel:
        call = toks[:-2]
    else:
        raise ParseError("condition `%s` is not a strcmp(...) %s 0 test" % (text(toks), rel))
    if len(call) != 6 or call[0][1] != "strcmp" or call[1][1] != "(" or call[3][1] != "," or call[5][1] != ")":
        raise ParseError("condition `%s` is not a strcmp(...) %s 0 test" % (text(toks), rel))
    a, b = call[2], call[4]
    if a[0] == "str" and b == ("id", var):
        return c_unescape(a[1])
    if b[0] == "str" and a == ("id", var):
        return c_unescape(b[1])
    raise ParseError("strcmp arguments in `%s` are not (%s, literal)" % (text(toks), var))


def parse_ifchain(p):
    """At `if`: parse  if (c) {b} (else if (c) {b})* (else {b})?  -> list of (cond_toks|None, body_toks)."""
    out = []
    p.eat("if")
    while True:
        cond = p.balanced("(", ")")
        body = p.balanced("{", "}")
        out.append((cond, body))
        if p.val() == "else":
            p.eat()
            if p.val() == "if":
                p.eat()
                continue
            body = p.balanced("{", "}")
            out.append((None, body))
        break
    return out


# ---------------------------------------------------------------------------
# the pieces
# ---------------------------------------------------------------------------
def gen_clitab(repo):
    with open("%s/src/main.c" % repo, encoding="latin-1") as f:
        raw = f.read()
    src = cparse.strip_comments(raw)
    s = "From Coq Require Import Ascii.\n"
    s += "Definition string_of_codes (l : list N) : string :=\n" \
         "  fold_right (fun c r => String (ascii_of_N c) r) EmptyString l.\n\n"

    # --- ev_name[], envsep
    _, ev = cparse.find_array(src, "ev_name")
    if not ev or not all(isinstance(x, str) for x in ev):
        raise ParseError("ev_name[] is not a list of string literals")
    s += "(* main.c: static const char *const ev_name[] *)\n"
    s += "Definition ev_name : list string := %s.\n" % coq_list(coq_string(c_unescape(x)) for x in ev)
    m = re.search(r"\benvsep\s*\[\s*\]\s*=\s*(\"(?:\\.|[^\"\\])*\")\s*;", src)
    if not m:
        raise ParseError("envsep[] = \"...\" not found")
    s += "(* main.c: static const char envsep[] = %s *)\n" % m.group(1).replace("*)", "* )")
    s += "Definition envsep : string := %s.\n" % coq_string(c_unescape(m.group(1)))

    # --- initial values of the option variables that are not zero-initialised
    m = re.search(r"^\s*unsigned\s+bs100k\s*(?:=\s*(\d+)\s*)?;", src, re.M)
    if not m:
        raise ParseError("definition of bs100k not found")
    s += "Definition init_bs100k : N := %d.\n" % int(m.group(1) or 0)
    m = re.search(r"\benum\s+outmode\s+outmode\s*(?:=\s*(\w+)\s*)?;", src)
    if not m:
        raise ParseError("definition of outmode not found")
    en = re.search(r"enum\s+outmode\s*\{([^}]*)\}", src)
    if not en:
        raise ParseError("enum outmode not found")
    om_names = [x.strip() for x in en.group(1).split(",") if x.strip()]
    s += "Definition outmode_names : list string := %s.\n" % coq_list(coq_text(x) for x in om_names)
    s += "Definition init_outmode : string := %s.\n" % coq_text(m.group(1) or om_names[0])
    for var in ("decompress", "force", "keep", "verbose", "print_cctrs", "small", "ultra"):
        m = re.search(r"^\s*bool\s+%s\s*(=[^;]*)?;" % var, src, re.M)
        if not m:
            raise ParseError("definition of bool %s not found" % var)
        if m.group(1):
            raise ParseError("bool %s has an initialiser (%s); the model assumes zero" % (var, m.group(1)))
    for var in ("num_worker", "max_mem"):
        m = re.search(r"^\s*(?:unsigned|size_t)\s+%s\s*(=[^;]*)?;" % var, src, re.M)
        if not m or m.group(1):
            raise ParseError("definition of %s not found or initialised" % var)

    # --- xstrtol: suffix string
    _, xbody = cparse.find_function_body(src, "xstrtol")
    m = re.search(r"\bsuffix\s*=\s*(\"(?:\\.|[^\"\\])*\")\s*;", xbody)
    if not m:
        raise ParseError("suffix string of xstrtol not found")
    s += "Definition xstrtol_suffix : string := %s.\n" % coq_string(c_unescape(m.group(1)))
    m = re.search(r"strtol\s*\(\s*str\s*,\s*&endptr\s*,\s*(\d+)\s*\)", xbody)
    if not m:
        raise ParseError("strtol(str, &endptr, base) not found in xstrtol")
    s += "Definition xstrtol_base : N := %d.\n" % int(m.group(1))

    # --- opts_setup
    _, body = cparse.find_function_body(src, "opts_setup")
    toks = cparse.tokenize(body)
    p = Toks(toks)

    # order of the two list-building loops: environment first, then argv from index 1
    j_env = p.find_seq(["getenv", "(", "ev_name", "[", "ofs", "]", ")"])
    j_argv = p.find_seq(["for", "(", "ofs", "=", "1u", ";", "ofs", "<", "argc", ";", "++", "ofs", ")"])
    j_strtok = p.find_seq(["strtok", "(", "ev_val", ",", "envsep", ")"])
    j_strtok2 = p.find_seq(["strtok", "(", "0", ",", "envsep", ")"])
    if min(j_env, j_argv, j_strtok, j_strtok2) < 0:
        raise ParseError("argument list construction (getenv(ev_name[ofs]) / strtok(.., envsep) / argv loop from 1) not recognised")
    if not (j_env < j_strtok < j_argv):
        raise ParseError("environment tokens are no longer linked before the command-line arguments")
    j_for = p.find_seq(["for", "(", "ofs", "=", "0u", ";", "ofs", "<", "sizeof", "ev_name", "/", "sizeof", "ev_name", "[", "0", "]", ";", "++", "ofs", ")"])
    if j_for < 0 or j_for > j_env:
        raise ParseError("loop over ev_name[] in ascending order not recognised")
    s += "Definition env_before_argv : bool := true.\n\n"

    # invocation-name chain
    j = p.find_seq(["if", "(", "strcmp", "(", "pname", ","])
    if j < 0:
        raise ParseError("if (strcmp(pname, ...)) chain not found")
    p.i = j
    chain = parse_ifchain(p)
    rules = []
    for cond, bd in chain:
        if cond is None:
            raise ParseError("invocation-name chain has an else branch")
        names = [strcmp_atom(part, "pname", "==") for part in split_top(cond, "||")]
        st, brk = simple_statements(bd, "invocation-name rule")
        if brk:
            raise ParseError("break in invocation-name rule")
        rules.append((names, st))
    s += "(* main.c opts_setup(): if (strcmp(pname, ..) == 0 || ..) {..} else if .. *)\n"
    s += "Definition name_rules : list (list string * list (string * string * string)) :=\n  %s.\n\n" % \
        coq_list("(%s,\n    %s)" % (coq_list(coq_string(n) for n in names), coq_stmts(st)) for names, st in rules)
    after_names = p.i

    # the test that separates operands from options
    j = p.find_seq(["if", "(", "'-'", "!=", "*", "argscan", ")"], after_names)
    if j < 0:
        raise ParseError("operand test ('-' != *argscan) not found")
    j2 = p.find_seq(["if", "(", "'-'", "==", "*", "argscan", ")"], j)
    if j2 < 0:
        raise ParseError("long option test ('-' == *argscan) not found")

    # long-option chain
    j = p.find_seq(["if", "(", "'\\0'", "==", "*", "argscan", ")"], j2)
    if j < 0:
        raise ParseError("long option chain not found")
    p.i = j
    chain = parse_ifchain(p)
    long_rules = []
    ignored = None
    long_else = None
    for idx, (cond, bd) in enumerate(chain):
        if cond is None:
            raise ParseError("long option chain has a plain else branch")
        st, brk = simple_statements(bd, "long option rule")
        if brk:
            raise ParseError("break in long option rule")
        if idx == 0:
            long_rules.append(([[]], st))
            continue
        parts_or = split_top(cond, "||")
        parts_and = split_top(cond, "&&")
        if len(parts_and) > 1 or (len(parts_or) == 1 and "!=" in [v for _, v in cond]):
            if idx != len(chain) - 1:
                raise ParseError("negative strcmp test is not the last branch of the long option chain")
            ignored = [strcmp_atom(part, "argscan", "!=") for part in parts_and]
            long_else = st
        else:
            long_rules.append(([strcmp_atom(part, "argscan", "==") for part in parts_or], st))
    if ignored is None:
        raise ParseError("final branch (ignored long options / unknown option) not found")
    s += "(* main.c opts_setup(): long options, `argscan` is the text after \"--\"; the first entry is the\n"
    s += "   test '\\0' == *argscan (the empty name, i.e. the token \"--\") *)\n"
    s += "Definition long_rules : list (list string * list (string * string * string)) :=\n  %s.\n" % \
        coq_list("(%s, %s)" % (coq_list(coq_string(n) for n in names), coq_stmts(st)) for names, st in long_rules).replace("); (", ");\n   (")
    s += "(* names compared with 0 != strcmp in the last branch: accepted, nothing done *)\n"
    s += "Definition long_ignored : list string := %s.\n" % coq_list(coq_string(n) for n in ignored)
    s += "Definition long_else : list (string * string * string) := %s.\n\n" % coq_stmts(long_else)

    # short-option switch
    j = p.find_seq(["switch", "(", "opt", ")", "{"], p.i)
    if j < 0:
        raise ParseError("switch (opt) not found")
    jo = p.find_seq(["opt", "=", "*", "argscan", ";"], p.i)
    if jo < 0 or jo > j:
        raise ParseError("opt = *argscan not found before the switch")
    p.i = j + 4
    sw = p.balanced("{", "}")
    # after the switch: ++argscan; } while (cont);
    if [p.val(k) for k in range(8)] != ["++", "argscan", ";", "}", "while", "(", "cont", ")"]:
        raise ParseError("loop tail `++argscan; } while (cont);` not found after the switch")
    q = Toks(sw)
    groups = []
    default = None
    while q.peek()[0] != "eof":
        labels = []
        is_default = False
        while q.val() in ("case", "default"):
            if q.val() == "default":
                q.eat()
                q.eat(":")
                is_default = True
            else:
                q.eat()
                k, v = q.eat()
                if k == "chr":
                    code = c_unescape(v)[0]
                elif k == "num":
                    code = cparse.parse_int(v)
                else:
                    raise ParseError("case label %r is not a character constant" % v)
                q.eat(":")
                labels.append(code)
        if not labels and not is_default:
            raise ParseError("statement outside a case group in switch (opt): %r" % q.val())
        # body up to the next case/default at depth 0
        depth = 0
        start = q.i
        while q.peek()[0] != "eof":
            k, v = q.peek()
            if k == "op" and v in "({":
                depth += 1
            elif k == "op" and v in ")}":
                depth -= 1
            elif depth == 0 and v in ("case", "default") and k == "id":
                break
            q.i += 1
        bd = q.t[start:q.i]
        more = q.peek()[0] != "eof"
        per_label = None
        try:
            st, brk = simple_statements(bd, "case %s" % labels)
        except ParseError:
            per_label = optarg_body(bd, labels)
            st, brk = [], True
        if not brk and more and not (st and st[-1][0] == "fail"):
            raise ParseError("case group %s falls through into the next one" % labels)
        if is_default:
            if labels:
                raise ParseError("default shares its body with case labels %s" % labels)
            default = st
        elif per_label is not None:
            for c in labels:
                groups.append(([c], [per_label[c]]))
        else:
            groups.append((labels, st))
    if default is None:
        raise ParseError("switch (opt) has no default")
    s += "(* main.c opts_setup(): switch (opt) over the characters of a cluster; codes are byte values *)\n"
    s += "Definition short_rules : list (list N * list (string * string * string)) :=\n  %s.\n" % \
        coq_list("(%s (* %s *), %s)" % (coq_list(str(c) for c in labels),
                                       " ".join(repr(chr(c)) if 32 < c < 127 else "\\%o" % c for c in labels),
                                       coq_stmts(st)) for labels, st in groups).replace("); ([", ");\n   ([")
    s += "Definition short_default : list (string * string * string) := %s.\n\n" % coq_stmts(default)

    # main(): statements between the call of opts_setup() and the operand loop
    _, mbody = cparse.find_function_body(src, "main")
    mt = Toks(cparse.tokenize(mbody))
    j = mt.find_seq(["opts_setup", "(", "&", "operands", ",", "argc", ",", "argv", ")", ";"])
    if j < 0:
        raise ParseError("call opts_setup(&operands, argc, argv) not found in main()")
    k = mt.find_seq(["do", "{"], j)
    if k < 0:
        raise ParseError("operand loop (do {) not found in main()")
    post, brk = simple_statements(mt.t[j + 10:k], "main() after opts_setup")
    if brk:
        raise ParseError("break after opts_setup()")
    s += "(* main(): simple statements executed after opts_setup() and before the operand loop *)\n"
    s += "Definition post_setup : list (string * string * string) := %s.\n" % coq_stmts(post)
    return s


def optarg_body(toks, labels):
    """The body of the option-argument cases (`case 'n': case 'm':`), recognised by shape:
        ++argscan; if ('\\0' == *argscan) { ...take the next argument, fail if none... }
        if (opt == 'A') V1 = xstrtol(argscan, opt, LO1, HI1); else V2 = xstrtol(argscan, opt, LO2, HI2);
        cont = 0; break;
    Transcribed to one ("optarg", "<var>", "<lo>,<hi>") triple per label (dict label -> triple)."""
    t = text(toks)
    pat = (r"^\+\+argscan;if\('\\0'==\*argscan\)\{next=arg->next;free\(arg\);\*link_at=next;arg=next;"
           r"if\(NULL==arg\)\{fail\((?:\"(?:\\.|[^\"\\])*\")+,argscan-1\);\}argscan=arg->val;\}"
           r"if\(opt=='(.)'\)(\w+)=xstrtol\(argscan,opt,(\w+),(\w+)\);"
           r"else(\w+)=xstrtol\(argscan,opt,(\w+),(\w+)\);cont=0;break;$")
    m = re.match(pat, t)
    if not m:
        raise ParseError("case group %s: neither simple statements nor the option-argument shape: %s" % (labels, t[:200]))
    first = ord(m.group(1))
    if len(labels) != 2 or first not in labels:
        raise ParseError("option-argument case group %s does not match its `opt == '%s'` test" % (labels, m.group(1)))
    other = [c for c in labels if c != first][0]
    return {first: ("optarg", m.group(2), "%s,%s" % (m.group(3), m.group(4))),
            other: ("optarg", m.group(5), "%s,%s" % (m.group(6), m.group(7)))}


def generate(repo, out):
    out.write("CliTab.v", "src/main.c (opts_setup, xstrtol, ev_name, envsep)", lambda: gen_clitab(repo))
