"""Small, deliberately dumb C front end used by gen_from_source.py.

It does transcription only: tokenising, finding `#define`s, array initialisers,
function bodies of the form `return <expr>;`, and parsing C expressions into a
tiny AST.  No analysis happens here; analyses are Gallina functions.
"""
import re

TOKEN_RE = re.compile(r"""
    (?P<ws>\s+|/\*.*?\*/|//[^\n]*)
  | (?P<num>0[xX][0-9a-fA-F]+[uUlL]*|\d+[uUlL]*)
  | (?P<id>[A-Za-z_]\w*)
  | (?P<str>"(?:\\.|[^"\\])*")
  | (?P<chr>'(?:\\.|[^'\\])')
  | (?P<op>->|\+\+|--|<<=|>>=|<<|>>|<=|>=|==|!=|&&|\|\||[-+*/%&|^~!<>=?:;,.(){}\[\]\#])
""", re.X | re.S)


class ParseError(Exception):
    pass


def strip_comments(src):
    return re.sub(r"/\*.*?\*/", lambda m: " " * 0 + re.sub(r"[^\n]", " ", m.group(0)), src, flags=re.S)


def tokenize(src):
    pos = 0
    out = []
    while pos < len(src):
        m = TOKEN_RE.match(src, pos)
        if not m:
            raise ParseError("cannot tokenize at %r" % src[pos:pos + 30])
        pos = m.end()
        if m.lastgroup == "ws":
            continue
        out.append((m.lastgroup, m.group(m.lastgroup)))
    return out


def parse_int(tok):
    t = tok.rstrip("uUlL")
    return int(t, 0) if not (len(t) > 1 and t[0] == "0" and t[1] not in "xX") else int(t, 8)


def find_defines(src):
    """Return dict name -> replacement text for object-like #defines (single or
    continued lines)."""
    out = {}
    src = strip_comments(src)
    lines = src.split("\n")
    i = 0
    while i < len(lines):
        line = lines[i]
        while line.rstrip().endswith("\\") and i + 1 < len(lines):
            i += 1
            line = line.rstrip()[:-1] + " " + lines[i]
        m = re.match(r"\s*#\s*define\s+([A-Za-z_]\w*)(\([^)]*\))?\s*(.*)$", line)
        if m:
            name, params, body = m.group(1), m.group(2), m.group(3).strip()
            out[name] = (params, body)
        i += 1
    return out


def find_array(src, name):
    """Find `name[..][..] = { ... };` and return (dims, nested python list)."""
    src = strip_comments(src)
    m = re.search(r"\b%s\s*((?:\[[^\]]*\]\s*)+)=\s*\{" % re.escape(name), src)
    if not m:
        raise ParseError("array %s not found" % name)
    dims = re.findall(r"\[([^\]]*)\]", m.group(1))
    start = m.end() - 1
    depth = 0
    j = start
    while True:
        c = src[j]
        if c == "{":
            depth += 1
        elif c == "}":
            depth -= 1
            if depth == 0:
                break
        j += 1
    body = src[start:j + 1]
    toks = tokenize(body)
    pos = [0]

    def parse_list():
        assert toks[pos[0]] == ("op", "{")
        pos[0] += 1
        items = []
        while toks[pos[0]] != ("op", "}"):
            k, v = toks[pos[0]]
            if (k, v) == ("op", "{"):
                items.append(parse_list())
            elif (k, v) == ("op", ","):
                pos[0] += 1
                continue
            elif (k, v) == ("op", "+"):
                pos[0] += 1
                continue
            elif k == "num":
                items.append(parse_int(v))
                pos[0] += 1
            elif k == "str":
                items.append(v)
                pos[0] += 1
            elif k == "id":
                items.append(("id", v))
                pos[0] += 1
            else:
                raise ParseError("unexpected token %r in initialiser of %s" % (v, name))
        pos[0] += 1
        return items

    return dims, parse_list()


def find_function_body(src, name):
    """Return the text between the braces of the definition of function `name`."""
    src = strip_comments(src)
    for m in re.finditer(r"\b%s\s*\(([^)]*)\)\s*\{" % re.escape(name), src):
        start = m.end() - 1
        depth = 0
        j = start
        while j < len(src):
            c = src[j]
            if c == "{":
                depth += 1
            elif c == "}":
                depth -= 1
                if depth == 0:
                    return m.group(1), src[start + 1:j]
            j += 1
    raise ParseError("function %s not found" % name)


# --------------------------------------------------------------------------
# expression parser: precedence climbing, produces nested tuples
#   ("num", n) ("id", s) ("un", op, e) ("bin", op, a, b) ("call", f, [args])
#   ("member", e, field, arrow?) ("index", e, i) ("cond", c, a, b)
# --------------------------------------------------------------------------
BINPREC = {
    "||": 1, "&&": 2, "|": 3, "^": 4, "&": 5, "==": 6, "!=": 6,
    "<": 7, ">": 7, "<=": 7, ">=": 7, "<<": 8, ">>": 8, "+": 9, "-": 9,
    "*": 10, "/": 10, "%": 10,
}


class ExprParser:
    def __init__(self, toks):
        self.t = toks
        self.i = 0

    def peek(self):
        return self.t[self.i] if self.i < len(self.t) else ("eof", "")

    def eat(self, v=None):
        k, val = self.peek()
        if v is not None and val != v:
            raise ParseError("expected %r got %r" % (v, val))
        self.i += 1
        return k, val

    def parse(self):
        e = self.ternary()
        return e

    def ternary(self):
        c = self.binary(1)
        if self.peek() == ("op", "?"):
            self.eat()
            a = self.ternary()
            self.eat(":")
            b = self.ternary()
            return ("cond", c, a, b)
        return c

    def binary(self, minprec):
        lhs = self.unary()
        while True:
            k, v = self.peek()
            if k == "op" and v in BINPREC and BINPREC[v] >= minprec:
                self.eat()
                rhs = self.binary(BINPREC[v] + 1)
                lhs = ("bin", v, lhs, rhs)
            else:
                return lhs

    def unary(self):
        k, v = self.peek()
        if k == "op" and v in ("!", "-", "~", "+", "*", "&"):
            self.eat()
            return ("un", v, self.unary())
        if k == "op" and v == "(":
            # cast?  "(uint64_t)" / "(size_t)" / "(unsigned)"
            j = self.i + 1
            names = []
            while j < len(self.t) and self.t[j][0] == "id":
                names.append(self.t[j][1])
                j += 1
            if names and j < len(self.t) and self.t[j] == ("op", ")") and \
               all(n in ("unsigned", "int", "long", "size_t", "uint64_t", "uint32_t",
                         "uintmax_t", "uint8_t", "uint16_t", "char", "short") for n in names):
                self.i = j + 1
                return ("cast", " ".join(names), self.unary())
        return self.postfix()

    def postfix(self):
        k, v = self.eat()
        if k == "num":
            e = ("num", parse_int(v))
        elif k == "id":
            e = ("id", v)
        elif (k, v) == ("op", "("):
            e = self.ternary()
            self.eat(")")
        else:
            raise ParseError("unexpected %r" % (v,))
        while True:
            k, v = self.peek()
            if (k, v) == ("op", "("):
                self.eat()
                args = []
                if self.peek() != ("op", ")"):
                    args.append(self.ternary())
                    while self.peek() == ("op", ","):
                        self.eat()
                        args.append(self.ternary())
                self.eat(")")
                e = ("call", e, args)
            elif (k, v) == ("op", "->"):
                self.eat()
                _, f = self.eat()
                e = ("member", e, f, True)
            elif (k, v) == ("op", "."):
                self.eat()
                _, f = self.eat()
                e = ("member", e, f, False)
            elif (k, v) == ("op", "["):
                self.eat()
                ix = self.ternary()
                self.eat("]")
                e = ("index", e, ix)
            else:
                return e


def parse_expr(text):
    p = ExprParser(tokenize(text))
    e = p.parse()
    if p.i != len(p.t):
        raise ParseError("trailing tokens in %r at %r" % (text, p.t[p.i:p.i + 3]))
    return e


def eval_const(e, env):
    """Evaluate a constant expression AST with identifiers looked up in env
    (dict name -> int).  Unsigned arithmetic is unbounded here."""
    k = e[0]
    if k == "num":
        return e[1]
    if k == "id":
        if e[1] in env:
            return env[e[1]]
        raise ParseError("unknown identifier %s" % e[1])
    if k == "cast":
        return eval_const(e[2], env)
    if k == "un":
        v = eval_const(e[2], env)
        return {"-": -v, "+": v, "!": int(not v), "~": ~v}[e[1]]
    if k == "bin":
        a = eval_const(e[2], env)
        b = eval_const(e[3], env)
        op = e[1]
        return {
            "+": a + b, "-": a - b, "*": a * b, "/": a // b if b else 0, "%": a % b if b else 0,
            "<<": a << b, ">>": a >> b, "&": a & b, "|": a | b, "^": a ^ b,
            "<": int(a < b), ">": int(a > b), "<=": int(a <= b), ">=": int(a >= b),
            "==": int(a == b), "!=": int(a != b), "&&": int(bool(a) and bool(b)), "||": int(bool(a) or bool(b)),
        }[op]
    if k == "cond":
        return eval_const(e[2], env) if eval_const(e[1], env) else eval_const(e[3], env)
    raise ParseError("not a constant expression: %r" % (e,))
