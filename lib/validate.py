#!/usr/bin/env python3
"""Validate MANIFEST.json and evidence files against the given schemas (uses the tooling venv's jsonschema)."""
import json, sys, glob
import jsonschema
m = json.load(open('/verif/MANIFEST.json'))
jsonschema.validate(m, json.load(open('/root/.vp/MANIFEST.schema.json')))
es = json.load(open('/root/.vp/EVIDENCE.schema.json'))
for f in sorted(glob.glob('/verif/evidence/*.json')):
    jsonschema.validate(json.load(open(f)), es)
    print("ok", f)
ids = {c["property_id"] for c in m["checks"]} | {c["property_id"] for c in m.get("not_applicable", [])}
props = [json.loads(l)["id"] for l in open('/verif/properties.jsonl')]
missing = [p for p in props if p not in ids]
print("manifest ok; claimed=%d na=%d missing=%s" % (len(m["checks"]), len(m.get("not_applicable", [])), missing))
