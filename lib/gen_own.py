#!/usr/bin/env python3
"""Translator plugin for C12 (heap part): hand-over skeleton of the reader / writer /
worker threads of lbzip2  ->  coq/Gen/OwnProg.v.

Transcription only.  Same clang JSON ASTs as lib/gen_lock.py (no -DKJN_LBZIP2_VERIF,
no -DNDEBUG).  For every `struct process` initialiser (compression, expansion and the
pseudo process of copy()) one SCENARIO is emitted; a scenario is the list of its thread
bodies: the thread entry functions of process.c (worker_thread_proc, primary_thread,
source_thread_proc, sink_thread_proc) with EVERY call into process.c / compress.c /
expand.c INLINED (the call graph must be acyclic), calls through members of
struct process / struct task resolved with the initialiser of that scenario.

  stmt ::= Skip | Seq s s | If s s | Loop s | Break | Continue | Scope s | Return | NoReturn
         | Lock m | Unlock m | Wait m
         | New p | Deq p q | Enq p q | Free p | Access p site | Move p r | Null p
         | Share p m | Borrow p m | AccQ q site | AccShared m site

Events (p, r: tracked local pointer variables, renamed apart per inlined instance):
  New p      p = xmalloc(..) / XMALLOC / XNMALLOC / malloc
  Deq p q    p = dequeue(q) / shift(q) / pop(q); `p = G; G = NULL;` for a global pointer G
  Enq p q    enqueue(q,p) / push(q,p) / unshift(q,p); `G = p`
  Free p     free(p)
  Access p   any read or write through p: p->f, *p, p[i], &p->f or p handed to a function
             outside the three files (the callee may read and write through it)
  Move p r   p = r (pointer copy; r must not be used afterwards: the checker marks it dead)
  Null p     p = NULL
  Share p m  p (object of a SHARED class) is published: enqueue(unord_q,p), push(input_q,p),
             rb->unord_link = p
  Borrow p m p = <pointer to an object of a SHARED class read from a queue, a field, a struct>
  AccQ q     access through peek(q) / dq_get(q,i) without a variable
  AccShared  access to an object of a SHARED class through a path (rb->unord_link->complete)

Classes (hand-written policy, below): OWN records are owned by one thread at a time and
travel through queues; SHARED records are reachable from several places once published
and are only touched under their mutex.  Sub-objects: a pointer field p->f of an OWN
object whose pointee is not a record of the policy (buffers, the encoder) is the
pseudo-variable `p.f`; it is acquired (Deq) and handed over (Enq) together with p, and
can be handed over on its own (sink_write_buffer(wblk->buffer..)).  `p->f = r` attaches r
(Move p.f r); a second field set to the same r is an alias of the first.

Further rules:
* `T *q = p;` (declaration initialised with a tracked variable) and a pointer parameter bound to a
  tracked argument make q a SECOND NAME of p (same variable id, interior pointers `p + 1`, `&p->f`
  included); neither name may be re-assigned while both are live (refused otherwise).  Any other
  `q = p` is Move q p.
* free(p->f) of a sub-object is `Free p.f; Null p.f` (a later use of the dangling p->f in the same
  thread is NOT flagged; the hand-over of p.f together with p stays possible).  `p = NULL` and
  `p = malloc` reset the sub-objects of p.
* primary_thread: must call worker_thread_proc() exactly once and may not touch any object outside
  that call (its init/uninit phase is ordered by thread creation / joining); it is then the same
  thread body as a worker and is not emitted separately.
* pointers handed to functions outside the three files (encode/decode/parse/..., libc) count as an
  access at the call; those functions are assumed not to keep the pointer.
* struct bitstream (decode.h) carries pointers into the reference-counted input buffer of expand.c
  and to its in_blk: values read from it are classified by type only (in_blk = SHARED, data/limit
  untracked); the buffer contents read by the decoder between attach() and detach() are outside
  this skeleton.

Refused (Unsupported -> gen_broken): goto, switch, continue in for/do, recursion, a tracked
pointer stored anywhere but in the places above, pointers to OWN objects read from
fields / arrays / globals outside the queue macros, conditional expressions yielding
tracked pointers, queue macros this file does not know, functions returning tracked
pointers, a variable that is tracked on one assignment and untracked on another.
"""
import os
import re
import sys

sys.path.insert(0, os.path.dirname(os.path.abspath(__file__)))
import gen_lock as GL
from gen_lock import Unsupported, node_pos

INLINE_FILES = ("process.c", "compress.c", "expand.c")

# ---- policy ---------------------------------------------------------------
SCHED = "process.c:sched_mutex"
OWN_RECORDS = {"compress.c:in_blk", "compress.c:work_blk", "expand.c:retr_blk", "expand.c:emit_blk",
               "expand.c:out_blk", "expand.c:detached_bitstream"}
SHARED_RECORDS = {"expand.c:in_blk": SCHED, "expand.c:unord_blk": SCHED}
# local structs (by value) that carry one tracked pointer
TRACKED_STRUCTS = {"process.c:block": "buffer"}
# pointee types that never denote a heap object of the hand-over discipline
UNTRACKED_RECORDS = {"task", "process", "process.c:thread_entry", "position", "timespec", "bitstream",
                     "parser_state", "header", "decoder_state", "expand.c:head_blk"}
UNTRACKED_STRUCT_LOCALS = {"bitstream", "expand.c:detached_bitstream", "expand.c:head_blk", "timespec",
                           "position", "header"}
QUEUE_MACROS = {"enqueue": "enq", "push": "enq", "unshift": "enq",
                "dequeue": "deq", "shift": "deq", "pop": "deq",
                "peek": "peek", "dq_get": "peek"}
REFUSED_MACROS = {"dq_set"}
ALLOC = {"xmalloc", "malloc", "calloc"}
THREAD_ENTRIES = ["process.c:worker_thread_proc", "process.c:primary_thread",
                  "process.c:source_thread_proc", "process.c:sink_thread_proc"]


def queue_lock(qname):
    """mutex protecting a queue / global slot (policy; a wrong entry makes the check fail)"""
    if qname == "process.c:output_q":
        return "process.c:sink_mutex"
    return SCHED


# ---- small helpers --------------------------------------------------------
SKIP = ("Skip",)


def seq(xs):
    xs = [x for x in xs if x != SKIP]
    if not xs:
        return SKIP
    r = xs[-1]
    for x in reversed(xs[:-1]):
        r = ("Seq", x, r)
    return r


def choice(xs):
    if not xs:
        return ("NoReturn",)
    r = xs[-1]
    for x in reversed(xs[:-1]):
        r = ("If", x, r)
    return r


def spell(loc):
    """(file, line) where the token at this location is spelled"""
    if not loc:
        return None, 0
    if "spellingLoc" in loc:
        loc = loc["spellingLoc"]
    return loc.get("_file"), loc.get("_line", 0)


def macro_table(path):
    """name -> (first, last) line of every function-like #define of a header"""
    out = {}
    lines = open(path, encoding="latin-1").read().split("\n")
    i = 0
    while i < len(lines):
        m = re.match(r"\s*#\s*define\s+(\w+)\(", lines[i])
        if m:
            j = i
            while lines[j].rstrip().endswith("\\") and j + 1 < len(lines):
                j += 1
            out[m.group(1)] = (i + 1, j + 1)
            i = j + 1
        else:
            i += 1
    return out


def object_events(t):
    k = t[0]
    if k in ("Seq", "If"):
        return object_events(t[1]) + object_events(t[2])
    if k in ("Loop", "Scope"):
        return object_events(t[1])
    if k in ("New", "Deq", "Enq", "Free", "Access", "Move", "Share", "Borrow", "AccShared"):
        return [t]
    return []


class Scenario:
    def __init__(self, name, proc):
        self.name = name
        self.proc = proc            # field -> function name | None ; 'tasks' -> [(ready, run)]
        self.threads = []           # (name, multi, term)


class Trans:
    def __init__(self, repo, model=None):
        self.m = model if model is not None else GL.Model(repo)
        self.repo = repo
        self.hdr = os.path.realpath(os.path.join(repo, "src", "process.h"))
        self.macros = macro_table(self.hdr)
        for k in list(QUEUE_MACROS) + list(REFUSED_MACROS):
            if k not in self.macros:
                raise Unsupported("queue macro %s not found in process.h" % k)
        self.var_names = []         # vid-1 -> name
        self.queues = []            # names
        self.mutexes = []
        self.sites = []
        self.site_ids = {}
        self.subs = {}              # record key -> set of field paths that are sub-objects
        self.alias = {}             # (record, path) -> path
        self.fvars = {}             # function -> {name: kind} (documentation)
        self.stats = {"inlined": 0}
        self.seen = {}              # (function, what) -> set of source offsets (cross-check by checks/c12.py)
        self.inlined_funcs = set()

    def note(self, fq, what, n):
        b = n.get("range", {}).get("begin", {})
        if "expansionLoc" in b:
            b = b["expansionLoc"]
        self.seen.setdefault((fq, what), set()).add(b.get("offset"))

    # ---- ids
    def new_var(self, name):
        self.var_names.append(name)
        return len(self.var_names)

    def qid(self, q):
        if q not in self.queues:
            self.queues.append(q)
        return q

    def mid(self, mname):
        if mname not in self.mutexes:
            self.mutexes.append(mname)
        return mname

    def site(self, fq, n):
        f, line = node_pos(n)
        if line:
            self.last_line = line
        s = "%s:%d" % (fq, getattr(self, "last_line", 0))
        if s not in self.site_ids:
            self.sites.append(s)
            self.site_ids[s] = len(self.sites)
        return s

    # ---- process initialisers
    def find_var_nodes(self):
        """qualified name -> (tu, VarDecl node) for globals and static locals"""
        out = {}
        for tu in self.m.tus:
            def walk(n, infunc):
                if not isinstance(n, dict):
                    return
                k = n.get("kind")
                if k == "FunctionDecl":
                    if node_pos(n)[0] and self.m.is_main_file(tu, node_pos(n)[0]):
                        for c in n.get("inner", []):
                            walk(c, n["name"])
                    return
                if k == "VarDecl":
                    info = tu.decl.get(n["id"])
                    if info and info.get("kind") == "global" and any(c.get("kind") == "InitListExpr" for c in n.get("inner", [])):
                        out[info["name"]] = (tu, n)
                for c in n.get("inner", []):
                    walk(c, infunc)
            for n in tu.ast.get("inner", []):
                walk(n, None)
        return out

    def scenarios(self):
        vn = self.find_var_nodes()
        out = []
        for q, (tu, n) in sorted(vn.items()):
            info = self.m.globals[q]
            if info.get("record") != "process":
                continue
            il = [c for c in n["inner"] if c.get("kind") == "InitListExpr"][0]
            fields = [f for f, _ in self.m.records["process"]]
            kids = [c for c in il.get("inner", []) if isinstance(c, dict) and c.get("kind")]
            if len(kids) != len(fields):
                raise Unsupported("initialiser of %s does not name every member of struct process" % q)
            proc = {}
            for fld, c in zip(fields, kids):
                if fld == "tasks":
                    proc["tasks"] = self.task_table(tu, c, vn)
                else:
                    fn = self.m.func_ref(tu, c)
                    if fn is None and not self.is_null(c):
                        raise Unsupported("member %s of %s is neither a function nor NULL" % (fld, q))
                    proc[fld] = fn
            out.append(Scenario(q.split(":")[-1].split(".")[-1], proc))
        if not out:
            raise Unsupported("no struct process initialiser found")
        return out

    def is_null(self, e):
        while e.get("kind") in GL.CASTS and e.get("inner"):
            if e.get("castKind") == "NullToPointer":
                return True
            e = e["inner"][0]
        return e.get("kind") in ("GNUNullExpr",) or (e.get("kind") == "IntegerLiteral" and e.get("value") == "0")

    def task_table(self, tu, e, vn):
        while e.get("kind") in GL.CASTS or (e.get("kind") == "UnaryOperator" and e.get("opcode") == "&"):
            e = e["inner"][0]
        if e.get("kind") != "DeclRefExpr":
            raise Unsupported("tasks member of a struct process is not the name of a table")
        info = tu.decl.get(e["referencedDecl"]["id"])
        if not info or info["name"] not in vn:
            raise Unsupported("task table %s has no initialiser" % e["referencedDecl"].get("name"))
        tu2, n = vn[info["name"]]
        il = [c for c in n["inner"] if c.get("kind") == "InitListExpr"][0]
        ilt = il["type"].get("desugaredQualType", il["type"]["qualType"])
        rows = [c for c in il.get("inner", []) if c.get("kind") == "InitListExpr"] if ilt.rstrip().endswith("]") else [il]
        tasks = []
        for r in rows:
            kids = [c for c in r.get("inner", []) if isinstance(c, dict) and c.get("kind")]
            if len(kids) != 3:
                raise Unsupported("struct task initialiser with %d members" % len(kids))
            ready, run = self.m.func_ref(tu2, kids[1]), self.m.func_ref(tu2, kids[2])
            if ready is None and run is None:
                continue
            if ready is None or run is None:
                raise Unsupported("struct task row with only one function")
            tasks.append((ready, run))
        return tasks

    # ---- translation of one scenario
    def run(self):
        scs = self.scenarios()
        for sc in scs:
            for entry in THREAD_ENTRIES:
                if entry not in self.m.func_nodes:
                    raise Unsupported("thread entry %s not found" % entry)
                if sc.proc["tasks"] == [] and entry in ("process.c:worker_thread_proc", "process.c:primary_thread"):
                    continue            # copy(): no worker threads (init_io only)
                inl = Inliner(self, sc)
                if entry == "process.c:primary_thread":
                    # the primary thread is a worker between its creates and joins; what it does before
                    # and after (init / uninit, ordered by thread creation and joining) must not touch objects
                    inl.skip_calls = {"process.c:worker_thread_proc"}
                    term = inl.inline_entry(entry)
                    if inl.skipped != 1:
                        raise Unsupported("primary_thread does not call worker_thread_proc exactly once")
                    bad = object_events(term)
                    if bad:
                        raise Unsupported("primary_thread touches heap objects outside worker_thread_proc: %r" % bad[:3])
                    continue
                term = inl.inline_entry(entry)
                sc.threads.append((entry.split(":")[-1], entry == "process.c:worker_thread_proc", term))
        return scs


# --------------------------------------------------------------------------
class Frame:
    def __init__(self, fq, tu, prefix, depth_top=True):
        self.fq = fq
        self.tu = tu
        self.prefix = prefix
        self.env = {}           # decl id -> ('var', vid, kind, record) | ('untracked',)
        self.alias = {}         # vid -> vid (attached variables)
        self.nest = 0           # >0 inside a branch / loop
        self.aliasdecl = set()  # decl ids that are a second name of a caller's / earlier variable
        self.froze = []         # vids this frame made unassignable


class Inliner:
    def __init__(self, T, sc):
        self.T = T
        self.m = T.m
        self.sc = sc
        self.stack = []
        self.ninst = 0
        self.subvars = {}       # (vid, path) -> vid
        self.nomacro = set()
        self.frozen = {}        # vid -> count of live second names
        self.skip_calls = set()
        self.skipped = 0

    # ---------------- types
    def etype(self, e):
        return e["type"].get("desugaredQualType", e["type"]["qualType"])

    def is_ptr(self, t):
        return GL.is_pointer_type(t) and "(*" not in t

    def rec_of(self, tu, t):
        t = GL.strip_quals(t)
        r = self.m.record_of_type(tu, t)
        if r:
            return r
        mm = re.match(r"^struct (\w+)$", t)
        if mm:
            for k in self.m.records:
                if k == mm.group(1) or k.endswith(":" + mm.group(1)):
                    if ":" not in k:
                        return k
        return None

    def pointee_kind(self, tu, t):
        """class of *p for p of pointer type t: 'own' | 'shared' | 'plain' | 'untracked'"""
        pt = GL.pointee_type(t)
        if self.is_ptr(pt) or "(" in pt:
            return "untracked", None            # pointer to pointer (queue storage), function pointers
        rec = self.rec_of(tu, pt)
        if rec in OWN_RECORDS:
            return "own", rec
        if rec in SHARED_RECORDS:
            return "shared", rec
        if rec in TRACKED_STRUCTS:
            return "untracked", rec             # queue storage; `&local` of such a struct is refused in pv()
        if rec is not None:
            if rec in UNTRACKED_RECORDS:
                return "untracked", rec
            if rec == "encoder_state":
                return "plain", None
            raise Unsupported("pointer to struct %s: not classified by the ownership policy" % rec)
        base = GL.strip_quals(pt)
        if base.startswith("struct ") or base.startswith("union "):
            if base in ("struct encoder_state",):
                return "plain", None
            if re.match(r"^struct (_IO_FILE|timespec|stat|sigaction|__va_list_tag)$", base):
                return "untracked", None
            raise Unsupported("pointer to %s: not classified by the ownership policy" % base)
        if base in ("pthread_t", "unsigned long") and "pthread" in t:
            return "untracked", None
        return "plain", None                    # void, bytes, words: buffers

    # ---------------- entry
    def inline_entry(self, fq):
        return self.inline(fq, [], None, None)

    def inline(self, fq, args, caller, call_node):
        if fq in self.stack:
            raise Unsupported("recursion through %s" % fq)
        if len(self.stack) > 12:
            raise Unsupported("call depth")
        tu, node = self.m.func_nodes[fq]
        self.ninst += 1
        self.T.stats["inlined"] += 1
        self.T.inlined_funcs.add(fq)
        fr = Frame(fq, tu, "%s#%d" % (fq.split(":")[-1], self.ninst))
        pre = []
        params = [c for c in node.get("inner", []) if c.get("kind") == "ParmVarDecl"]
        if len(params) != len(args):
            raise Unsupported("call of %s with %d arguments" % (fq, len(args)))
        for p, a in zip(params, args):
            pt = p["type"].get("desugaredQualType", p["type"]["qualType"])
            if self.is_ptr(pt):
                pre += caller.rv(a)
                b = caller.pv(a)
                pre += self.bind_param(fr, p, pt, b, caller, a)
            else:
                rec = self.rec_of(tu, pt)
                if rec in TRACKED_STRUCTS:
                    pre += caller.rv(a)
                    b = caller.pv_struct(a)
                    vid = self.T.new_var(fr.prefix + "." + p["name"])
                    fr.env[p["id"]] = ("var", vid, "struct", rec)
                    pre.append(("Move", vid, b))
                else:
                    pre += caller.rv(a)
                    fr.env[p["id"]] = ("untracked",)
        rt = node["type"]["qualType"].split("(")[0].strip()
        if self.is_ptr(rt):
            k, _ = self.pointee_kind(tu, rt)
            if k != "untracked" and not re.match(r"^const char \*$", rt):
                raise Unsupported("function %s returns a tracked pointer" % fq)
        if self.rec_of(tu, rt) in TRACKED_STRUCTS:
            raise Unsupported("function %s returns a tracked struct" % fq)
        body = [c for c in node["inner"] if c.get("kind") == "CompoundStmt"][0]
        self.stack.append(fq)
        try:
            ft = FnWalk(self, fr)
            term = ft.stmt(body)
        finally:
            self.stack.pop()
            for v in fr.froze:
                self.frozen[v] -= 1
        return seq(pre + [("Scope", term)])

    def bind_param(self, fr, p, pt, b, caller, a):
        """bind pointer parameter p of the callee to the classification b of the argument"""
        kind, rec = self.pointee_kind(fr.tu, pt)
        if b[0] == "var":
            fr.env[p["id"]] = ("var", b[1], b[2], b[3])
            fr.aliasdecl.add(p["id"])       # a second name of the caller's variable: must not be re-assigned
            return []
        if b[0] == "sub":
            fr.env[p["id"]] = ("var", b[3], "plain", None)
            fr.aliasdecl.add(p["id"])
            return []
        if b[0] == "shared":
            vid = self.T.new_var(fr.prefix + "." + p["name"])
            fr.env[p["id"]] = ("var", vid, "shared", rec)
            return [("Borrow", vid, self.T.mid(b[1]))]
        if b[0] == "null":
            if kind == "untracked":
                fr.env[p["id"]] = ("untracked",)
                return []
            vid = self.T.new_var(fr.prefix + "." + p["name"])
            fr.env[p["id"]] = ("var", vid, kind, rec)
            return [("Null", vid)]
        if b[0] == "untracked":
            fr.env[p["id"]] = ("untracked",)
            return []
        raise Unsupported("argument of kind %s passed to %s" % (b[0], fr.fq))

    def subvar(self, vid, path):
        key = (vid, path)
        if key not in self.subvars:
            self.subvars[key] = self.T.new_var(self.T.var_names[vid - 1] + "->" + path)
        return self.subvars[key]


# --------------------------------------------------------------------------
class FnWalk:
    """statements / expressions of one inlined function instance"""

    def __init__(self, inl, fr):
        self.I = inl
        self.T = inl.T
        self.m = inl.m
        self.fr = fr
        self.tu = fr.tu

    def etype(self, e):
        return e["type"].get("desugaredQualType", e["type"]["qualType"])

    def st(self, n):
        return self.T.site(self.fr.fq, n)

    # ---------------- macros
    def macro_of(self, n):
        r = n.get("range")
        if not r or id(n) in self.I.nomacro:
            return None
        bf, bl = spell(r.get("begin"))
        ef, el = spell(r.get("end"))
        if not bf or not ef or "spellingLoc" not in r.get("begin", {}) or "spellingLoc" not in r.get("end", {}):
            return None
        if os.path.realpath(bf) != self.T.hdr or os.path.realpath(ef) != self.T.hdr:
            return None
        for name, (a, b) in self.T.macros.items():
            if a <= bl <= b and a <= el <= b:
                return name
        return None

    def find_queue(self, n):
        """the global queue a macro expansion works on"""
        found = []

        def walk(x):
            if not isinstance(x, dict):
                return
            if x.get("kind") == "DeclRefExpr" and x["referencedDecl"]["kind"] == "VarDecl":
                info = self.tu.decl.get(x["referencedDecl"]["id"])
                if info and info.get("kind") == "global" and info.get("record") and \
                        [f for f, _ in self.m.records.get(info["record"], [])][:2] == ["root", "size"]:
                    found.append(info)
            for c in x.get("inner", []):
                walk(c)
        walk(n)
        names = set(i["name"] for i in found)
        if len(names) != 1:
            raise Unsupported("queue macro at %s does not name exactly one global queue (%s)" % (self.st(n), sorted(names)))
        info = found[0]
        root_t = dict(self.m.records[info["record"]])["root"]
        elem_t = GL.pointee_type(root_t)
        if self.I.is_ptr(elem_t):
            kind, rec = self.I.pointee_kind(self.tu, elem_t)
            if kind == "plain":
                raise Unsupported("queue %s of untyped pointers" % info["name"])
        else:
            rec = self.I.rec_of(self.tu, elem_t)
            kind = "struct" if rec in TRACKED_STRUCTS else "untracked"
            if kind == "untracked" and rec is not None and self.has_pointer_field(rec):
                raise Unsupported("queue %s of structs %s that contain pointers" % (info["name"], rec))
        return info["name"], kind, rec

    def has_pointer_field(self, rec, depth=0):
        for f, t in self.m.records.get(rec, []):
            if self.I.is_ptr(t):
                return True
            sub = self.I.rec_of(self.tu, re.sub(r"(\s*\[[^\]]*\])+$", "", t))
            if sub and depth < 5 and self.has_pointer_field(sub, depth + 1):
                return True
        return False

    def find_store(self, n):
        """rhs of the `(q).root[..] = e` inside an enqueue/push/unshift expansion"""
        out = []

        def has_root(x):
            if not isinstance(x, dict):
                return False
            if x.get("kind") == "MemberExpr" and x.get("name") == "root":
                return True
            return any(has_root(c) for c in x.get("inner", []))

        def walk(x):
            if not isinstance(x, dict):
                return
            if x.get("kind") == "BinaryOperator" and x.get("opcode") == "=" and has_root(x["inner"][0]):
                out.append(x["inner"][1])
                return
            for c in x.get("inner", []):
                walk(c)
        walk(n)
        if len(out) != 1:
            raise Unsupported("queue insertion macro at %s: element store not found" % self.st(n))
        return out[0]

    def macro_event(self, name, n):
        """(events, value classification) of a queue macro expansion"""
        if name in REFUSED_MACROS:
            raise Unsupported("queue macro %s is not modelled (%s)" % (name, self.st(n)))
        what = QUEUE_MACROS[name]
        self.T.note(self.fr.fq, name, n)
        q, kind, rec = self.find_queue(n)
        self.T.qid(q)
        if what == "enq":
            e = self.find_store(n)
            # the `(e)` of the macro body is spelled in the header too: it is not an expansion of its own
            def mark(x):
                if isinstance(x, dict):
                    if self.macro_of(x) == name:
                        self.I.nomacro.add(id(x))
                    for c in x.get("inner", []):
                        mark(c)
            mark(e)
            ev = self.rv(e)
            if kind == "untracked":
                return ev, ("untracked",)
            b = self.pv_struct(e) if kind == "struct" else self.pv(e)
            if kind == "struct":
                return ev + [("Enq", b, q)], ("untracked",)
            if b[0] != "var":
                raise Unsupported("%s(%s, <%s>) at %s: the element is not a tracked variable" % (name, q, b[0], self.st(n)))
            if kind == "shared":
                mu = self.T.mid(SHARED_RECORDS[rec])
                return ev + [("Share", b[1], mu)] + [("Share", x, mu) for x in self.subs_of(b)], ("untracked",)
            return ev + [("Enq", b[1], q)] + [("Enq", x, q) for x in self.subs_of(b)], ("untracked",)
        return [], (what, q, kind, rec)

    def subs_of(self, b):
        """pseudo-variables of the sub-objects of tracked variable b = ('var', vid, kind, rec)"""
        rec = b[3]
        if rec is None or b[2] == "shared":      # a borrowed (already published) object: its parts are not ours
            return []
        return [self.I.subvar(b[1], p) for p in sorted(self.T.subs.get(rec, ()))]

    def note_sub(self, rec, path):
        if rec is None:
            return
        path = self.T.alias.get((rec, path), path)
        self.T.subs.setdefault(rec, set()).add(path)
        return path

    # ---------------- classification of pointer-valued expressions (no events)
    def strip(self, e):
        while True:
            k = e.get("kind")
            if self.macro_of(e) in QUEUE_MACROS:
                return e
            if k in ("ParenExpr", "ConstantExpr"):
                e = e["inner"][0]
            elif k in ("CStyleCastExpr", "ImplicitCastExpr") and e.get("castKind") in ("BitCast", "NoOp"):
                e = e["inner"][0]
            else:
                return e

    def binding(self, ref, n):
        b = self.fr.env.get(ref["id"])
        if b is None:
            raise Unsupported("pointer variable %s used before it is assigned (%s)" % (ref.get("name"), self.st(n)))
        if b[0] == "var" and b[1] in self.fr.alias:
            return ("var", self.fr.alias[b[1]], "plain", None)
        return b

    def by_type(self, t, n, what):
        """value of pointer type t loaded from a place that is not tracked"""
        kind, rec = self.I.pointee_kind(self.tu, t)
        if kind == "own":
            raise Unsupported("pointer to an owned object (%s) read from %s at %s" % (rec, what, self.st(n)))
        if kind == "shared":
            return ("shared", SHARED_RECORDS[rec], rec)
        return ("untracked",)

    def pv(self, e):
        e = self.strip(e)
        k = e.get("kind")
        t = self.etype(e)
        mac = self.macro_of(e)
        if mac in QUEUE_MACROS or mac in REFUSED_MACROS:
            ev, b = self.macro_event(mac, e)
            return b
        if k in ("ImplicitCastExpr", "CStyleCastExpr"):
            ck = e.get("castKind")
            if ck == "NullToPointer":
                return ("null",)
            if ck == "IntegralToPointer":
                return ("untracked",)
            if ck in ("ArrayToPointerDecay", "FunctionToPointerDecay"):
                sub = e["inner"][0]
                if ck == "ArrayToPointerDecay" and sub.get("valueCategory") == "lvalue":
                    _, b = self.lv_access(sub)
                    return b if b else ("untracked",)
                return ("untracked",)
            if ck == "LValueToRValue":
                return self.pv_load(e["inner"][0])
            raise Unsupported("cast %s of a pointer at %s" % (ck, self.st(e)))
        if k in ("GNUNullExpr",):
            return ("null",)
        if k == "IntegerLiteral":
            return ("null",) if e.get("value") == "0" else ("untracked",)
        if k == "UnaryOperator":
            op = e.get("opcode")
            if op == "&":
                ld = self.local_decl(e["inner"][0])
                if ld and self.fr.env.get(ld[0], ("untracked",))[0] == "var":
                    raise Unsupported("address of tracked variable %s taken at %s" % (ld[1], self.st(e)))
                _, b = self.lv_access(e["inner"][0])
                return b if b else ("untracked",)
            if op in ("++", "--"):
                return self.pv_load(e["inner"][0])
            if op == "__extension__":
                return self.pv(e["inner"][0])
        if k == "BinaryOperator":
            op = e.get("opcode")
            if op in ("+", "-"):
                for sub in e["inner"]:
                    if self.I.is_ptr(self.etype(sub)) or "[" in self.etype(sub):
                        return self.pv(sub)
                return ("untracked",)
            if op == ",":
                return self.pv(e["inner"][1])
            if op == "=":
                return self.pv(e["inner"][1])
        if k == "CompoundAssignOperator":
            return self.pv_load(e["inner"][0])
        if k == "CallExpr":
            fn = self.m.func_ref(self.tu, e["inner"][0])
            if fn in ALLOC:
                return ("new",)
            if self.I.is_ptr(t):
                kind, rec = self.I.pointee_kind(self.tu, t)
                if kind in ("own", "shared"):
                    raise Unsupported("call returning a tracked pointer at %s" % self.st(e))
            return ("untracked",)
        if k == "ConditionalOperator":
            a, b = self.pv(e["inner"][1]), self.pv(e["inner"][2])
            if a[0] in ("untracked", "null") and b[0] in ("untracked", "null"):
                return ("untracked",)
            raise Unsupported("conditional expression yielding a tracked pointer at %s" % self.st(e))
        if k in ("StringLiteral", "PredefinedExpr", "CompoundLiteralExpr", "DeclRefExpr"):
            return ("untracked",)           # DeclRefExpr as rvalue: function designator
        raise Unsupported("pointer expression %s at %s" % (k, self.st(e)))

    def pv_load(self, L):
        """classification of the pointer stored in lvalue L"""
        while L.get("kind") == "ParenExpr":
            L = L["inner"][0]
        k = L.get("kind")
        t = self.etype(L)
        mac = self.macro_of(L)
        if mac in QUEUE_MACROS:
            ev, b = self.macro_event(mac, L)
            return b
        if k == "DeclRefExpr":
            ref = L["referencedDecl"]
            if ref["kind"] in ("ParmVarDecl", "VarDecl"):
                info = self.tu.decl.get(ref["id"])
                if ref["kind"] == "ParmVarDecl" or (info and info["kind"] == "local"):
                    return self.binding(ref, L)
                if info and info["kind"] == "global":
                    kind, rec = self.I.pointee_kind(self.tu, t)
                    if kind == "own":
                        return ("gslot", info["name"], rec)
                    if kind == "shared":
                        return ("shared", SHARED_RECORDS[rec], rec)
                    return ("untracked",)
                return ("untracked",)           # libc
            return ("untracked",)
        if k == "MemberExpr":
            path = [L["name"]]
            base = L
            while True:
                arrow = base.get("isArrow")
                inner = base["inner"][0]
                if arrow:
                    break
                x = inner
                while x.get("kind") == "ParenExpr":
                    x = x["inner"][0]
                if x.get("kind") == "MemberExpr" and x.get("valueCategory") == "lvalue":
                    path.insert(0, x["name"])
                    base = x
                    continue
                inner = x
                break
            pstr = ".".join(path)
            if arrow:
                bp = self.pv(inner)
                if bp[0] == "var" and bp[2] in ("own", "plain", "struct", "sharednew"):
                    # (sharednew: allocated here, owned like any other object until it is published)
                    kind, rec = self.I.pointee_kind(self.tu, t)
                    if kind == "shared":
                        return ("shared", SHARED_RECORDS[rec], rec)
                    if kind == "own":
                        raise Unsupported("pointer to an owned object stored in an object (%s) at %s" % (pstr, self.st(L)))
                    if kind == "untracked":
                        return ("untracked",)
                    if bp[3] is None:
                        raise Unsupported("pointer field %s of an untyped buffer at %s" % (pstr, self.st(L)))
                    p2 = self.note_sub(bp[3], pstr)
                    return ("sub", bp[1], p2, self.I.subvar(bp[1], p2))
                if bp[0] == "var" and bp[2] == "shared":
                    return self.by_type(t, L, "a field of a shared object")
                if bp[0] in ("shared", "peek", "untracked", "sub"):
                    if bp[0] == "peek" and bp[2] in ("own", "struct"):
                        kind, rec = self.I.pointee_kind(self.tu, t)
                        if kind != "untracked":
                            raise Unsupported("pointer read through peek() at %s" % self.st(L))
                        return ("untracked",)
                    return self.by_type(t, L, "a field")
                raise Unsupported("pointer field of <%s> at %s" % (bp[0], self.st(L)))
            # dot access on a local / global struct
            if inner.get("kind") == "DeclRefExpr":
                ref = inner["referencedDecl"]
                b = self.fr.env.get(ref["id"])
                if b and b[0] == "var" and b[2] == "struct":
                    if pstr != TRACKED_STRUCTS[b[3]]:
                        raise Unsupported("pointer member %s of tracked struct at %s" % (pstr, self.st(L)))
                    return ("var", b[1], "plain", None)
                return self.by_type(t, L, "a struct member")
            return self.by_type(t, L, "a struct value")
        if k in ("ArraySubscriptExpr", "UnaryOperator"):
            return self.by_type(t, L, "an array element / dereference")
        raise Unsupported("pointer lvalue %s at %s" % (k, self.st(L)))

    def pv_struct(self, e):
        """vid of a tracked by-value struct expression"""
        e = self.strip(e)
        if e.get("kind") == "ImplicitCastExpr" and e.get("castKind") == "LValueToRValue":
            e = e["inner"][0]
        while e.get("kind") == "ParenExpr":
            e = e["inner"][0]
        if e.get("kind") == "DeclRefExpr":
            b = self.fr.env.get(e["referencedDecl"]["id"])
            if b and b[0] == "var" and b[2] == "struct":
                return b[1]
        raise Unsupported("tracked struct value that is not a local variable at %s" % self.st(e))

    # ---------------- accesses
    def deref(self, b, n):
        if b is None:
            return []
        k = b[0]
        if k == "var":
            return [("Access", b[1], self.st(n))]
        if k == "sub":
            return [("Access", b[3], self.st(n))]
        if k == "shared":
            return [("AccShared", self.T.mid(b[1]), self.st(n))]
        if k == "peek":
            if b[2] in ("own", "struct"):
                return [("AccQ", b[1], self.st(n))]
            if b[2] == "shared":
                return [("AccShared", self.T.mid(SHARED_RECORDS[b[3]]), self.st(n))]
            return []
        if k in ("untracked", "null", "new"):
            return []
        raise Unsupported("access through <%s> at %s" % (k, self.st(n)))

    def lv_access(self, L):
        """(events computing the address of lvalue L, classification of the pointer whose
        pointee contains L or None for locals / globals)"""
        k = L.get("kind")
        if k == "ParenExpr":
            return self.lv_access(L["inner"][0])
        mac = self.macro_of(L)
        if mac in QUEUE_MACROS or mac in REFUSED_MACROS:
            ev, b = self.macro_event(mac, L)
            if b[0] != "peek":
                raise Unsupported("queue macro %s used as an lvalue at %s" % (mac, self.st(L)))
            # peek(q) = *(q).root : the element itself is an lvalue in queue storage (no object access)
            return ev, None
        if k == "DeclRefExpr":
            return [], None
        if k == "MemberExpr":
            base = L["inner"][0]
            if L.get("isArrow"):
                return self.rv(base), self.pv(base)
            if base.get("valueCategory") == "lvalue":
                return self.lv_access(base)
            return self.rv(base), None
        if k == "ArraySubscriptExpr":
            base, idx = L["inner"][0], L["inner"][1]
            b0 = base
            while b0.get("kind") == "ParenExpr":
                b0 = b0["inner"][0]
            if b0.get("kind") == "ImplicitCastExpr" and b0.get("castKind") == "ArrayToPointerDecay" and \
                    b0["inner"][0].get("valueCategory") == "lvalue":
                ev, b = self.lv_access(b0["inner"][0])
                return ev + self.rv(idx), b
            return self.rv(base) + self.rv(idx), self.pv(base)
        if k == "UnaryOperator":
            if L.get("opcode") == "*":
                sub = L["inner"][0]
                return self.rv(sub), self.pv(sub)
            if L.get("opcode") == "__extension__":
                return self.lv_access(L["inner"][0])
        if k in ("CompoundLiteralExpr", "StringLiteral", "PredefinedExpr"):
            return [], None
        raise Unsupported("lvalue %s at %s" % (k, self.st(L)))

    # ---------------- rvalues: events
    def rv(self, e):
        k = e.get("kind")
        if not k:
            return []
        mac = self.macro_of(e)
        if mac in QUEUE_MACROS or mac in REFUSED_MACROS:
            ev, b = self.macro_event(mac, e)
            if b[0] == "deq":
                # value discarded (or consumed by the caller of rv through pv): only shift() of a
                # shared-class / untracked queue may be discarded
                if b[2] in ("own", "struct"):
                    raise Unsupported("%s(%s) whose value is not stored at %s" % (mac, b[1], self.st(e)))
            return ev
        if k == "ImplicitCastExpr":
            ck = e.get("castKind")
            sub = e["inner"][0]
            if ck == "LValueToRValue":
                ev, b = self.lv_access(sub)
                m2 = self.macro_of(sub)
                if m2 in QUEUE_MACROS:
                    return ev
                return ev + self.deref(b, e)
            if ck in ("ArrayToPointerDecay", "FunctionToPointerDecay"):
                if sub.get("valueCategory") == "lvalue":
                    return self.lv_access(sub)[0]
                return self.rv(sub)
            return self.rv(sub)
        if k in ("ParenExpr", "CStyleCastExpr", "ConstantExpr"):
            return self.rv(e["inner"][0])
        if k in ("IntegerLiteral", "StringLiteral", "CharacterLiteral", "FloatingLiteral", "UnaryExprOrTypeTraitExpr",
                 "ImplicitValueInitExpr", "OffsetOfExpr", "PredefinedExpr", "GNUNullExpr"):
            return []
        if k == "DeclRefExpr":
            return []
        if k in ("MemberExpr", "ArraySubscriptExpr"):
            if e.get("valueCategory") == "lvalue":
                return self.lv_access(e)[0]
            out = []
            for c in e.get("inner", []):
                out += self.rv(c)
            return out
        if k == "UnaryOperator":
            op = e.get("opcode")
            sub = e["inner"][0]
            if op == "&":
                return self.lv_access(sub)[0]
            if op in ("++", "--"):
                ev, b = self.lv_access(sub)
                return ev + self.deref(b, e)
            if op == "*":
                return self.lv_access(e)[0]
            return self.rv(sub)
        if k == "CompoundAssignOperator":
            ev, b = self.lv_access(e["inner"][0])
            return ev + self.rv(e["inner"][1]) + self.deref(b, e)
        if k == "BinaryOperator":
            op = e.get("opcode")
            a, b = e["inner"]
            if op == "=":
                return self.assign(a, b, e)
            if op in ("&&", "||"):
                rb = self.nested(lambda: self.rv(b))
                return self.rv(a) + ([("If", seq(rb), SKIP)] if rb else [])
            return self.rv(a) + self.rv(b)
        if k == "ConditionalOperator":
            c, a, b = e["inner"]
            ra, rb = self.nested(lambda: self.rv(a)), self.nested(lambda: self.rv(b))
            return self.rv(c) + ([("If", seq(ra), seq(rb))] if (ra or rb) else [])
        if k == "CallExpr":
            return self.call(e)
        if k in ("InitListExpr", "CompoundLiteralExpr", "VAArgExpr"):
            out = []
            for c in e.get("inner", []):
                out += self.rv(c)
            return out
        raise Unsupported("expression %s at %s" % (k, self.st(e)))

    def nested(self, f):
        self.fr.nest += 1
        try:
            return f()
        finally:
            self.fr.nest -= 1

    def consumed_rv(self, e):
        """events of e when its value is consumed by the caller (through pv): only when e IS the
        expansion of a dequeue-like macro may that macro stand there"""
        x = self.strip(e)
        mac = self.macro_of(x)
        if mac in QUEUE_MACROS:
            ev, b = self.macro_event(mac, x)
            return ev
        return self.rv(e)

    # ---------------- assignments
    def local_decl(self, L):
        """(decl id, name, type) if L names a local variable or parameter, else None"""
        while L.get("kind") == "ParenExpr":
            L = L["inner"][0]
        if L.get("kind") != "DeclRefExpr":
            return None
        ref = L["referencedDecl"]
        if ref["kind"] == "ParmVarDecl":
            return ref["id"], ref["name"], self.etype(L)
        if ref["kind"] == "VarDecl":
            info = self.tu.decl.get(ref["id"])
            if info and info["kind"] == "local":
                return ref["id"], ref["name"], self.etype(L)
        return None

    def global_decl(self, L):
        while L.get("kind") == "ParenExpr":
            L = L["inner"][0]
        if L.get("kind") == "DeclRefExpr" and L["referencedDecl"]["kind"] == "VarDecl":
            info = self.tu.decl.get(L["referencedDecl"]["id"])
            if info and info["kind"] == "global":
                return info
        return None

    def set_local(self, did, name, t, R, n, rec_struct=None):
        """events of  <local> = R  for a pointer / tracked struct local"""
        old = self.fr.env.get(did)
        if rec_struct:
            # by-value struct carrying one tracked pointer
            if old is None:
                old = ("var", self.T.new_var(self.fr.prefix + "." + name), "struct", rec_struct)
                self.fr.env[did] = old
            if R is None:
                return []
            ev = self.consumed_rv(R)
            mac = self.macro_of(self.strip(R))
            if mac in QUEUE_MACROS:
                _, b = self.macro_event(mac, self.strip(R))
                if b[0] == "deq" and b[2] == "struct":
                    return ev + [("Deq", old[1], b[1])]
                raise Unsupported("tracked struct assigned from %s at %s" % (mac, self.st(n)))
            return ev + [("Move", old[1], self.pv_struct(R))]
        kind, rec = self.I.pointee_kind(self.tu, t)
        if R is None:
            return []
        ev = self.consumed_rv(R)
        b = self.pv(R)

        def tracked():
            if did in self.fr.aliasdecl:
                raise Unsupported("variable %s is a second name of another variable and is re-assigned (%s)" % (name, self.st(n)))
            if old is not None and old[0] == "var" and self.I.frozen.get(old[1], 0) > 0:
                raise Unsupported("variable %s re-assigned while a second name of it is live (%s)" % (name, self.st(n)))
            if old is not None and old[0] != "var":
                raise Unsupported("variable %s is both tracked and untracked (%s)" % (name, self.st(n)))
            if old is None:
                if kind == "untracked":
                    raise Unsupported("tracked value assigned to %s whose type is not tracked (%s)" % (name, self.st(n)))
                v = ("var", self.T.new_var(self.fr.prefix + "." + name), kind, rec)
                self.fr.env[did] = v
                return v
            if old[1] in self.fr.alias:
                raise Unsupported("variable %s re-assigned after it was attached (%s)" % (name, self.st(n)))
            return old
        if b[0] == "new":
            v = tracked()
            if v[2] == "shared":
                if old is not None:
                    raise Unsupported("variable %s both borrowed and allocated (%s)" % (name, self.st(n)))
                v = ("var", v[1], "sharednew", v[3])
                self.fr.env[did] = v
            return ev + [("New", v[1])] + [("Null", x) for x in self.subs_of(v)]
        if b[0] == "null":
            if old is not None and old[0] == "untracked":
                return ev
            if old is None and kind == "untracked":
                return ev               # stays unbound until a real value arrives
            v = tracked()
            return ev + [("Null", v[1])] + [("Null", x) for x in self.subs_of(v)]
        if b[0] == "deq":
            if b[2] == "shared":
                v = tracked()
                if v[2] == "sharednew":
                    raise Unsupported("variable %s both borrowed and allocated (%s)" % (name, self.st(n)))
                return ev + [("Borrow", v[1], self.T.mid(SHARED_RECORDS[b[3]]))]
            if b[2] != "own":
                raise Unsupported("pointer assigned from a queue of %s at %s" % (b[2], self.st(n)))
            v = tracked()
            return ev + [("Deq", v[1], b[1])] + [("Deq", x, b[1]) for x in self.subs_of(v)]
        if b[0] == "peek":
            if b[2] == "shared":
                v = tracked()
                if v[2] == "sharednew":
                    raise Unsupported("variable %s both borrowed and allocated (%s)" % (name, self.st(n)))
                return ev + [("Borrow", v[1], self.T.mid(SHARED_RECORDS[b[3]]))]
            raise Unsupported("peek()/dq_get() of an owned object kept in a variable at %s" % self.st(n))
        if b[0] == "shared":
            v = tracked()
            if v[2] == "sharednew":
                raise Unsupported("variable %s both borrowed and allocated (%s)" % (name, self.st(n)))
            return ev + [("Borrow", v[1], self.T.mid(b[1]))]
        if b[0] == "var":
            if old is not None and old[0] == "var" and old[1] == b[1]:
                return ev               # p = p + k
            if n.get("kind") == "VarDecl" and old is None:
                # `T *q = p;` : q is a second name of p (an interior pointer to the same object) for the
                # rest of this function instance; neither may be re-assigned while both are live
                k2, r2 = kind, rec
                if k2 in ("plain", "untracked"):
                    k2, r2 = b[2], b[3]
                elif b[3] is not None and b[3] != r2:
                    raise Unsupported("variable %s declared as another record than its initialiser (%s)" % (name, self.st(n)))
                self.fr.env[did] = ("var", b[1], k2, r2)
                self.fr.aliasdecl.add(did)
                self.I.frozen[b[1]] = self.I.frozen.get(b[1], 0) + 1
                self.fr.froze.append(b[1])
                return ev
            v = tracked()
            return ev + [("Move", v[1], b[1])]
        if b[0] == "sub":
            raise Unsupported("pointer to a sub-object (%s) copied into variable %s at %s" % (b[2], name, self.st(n)))
        if b[0] == "gslot":
            raise Unsupported("global pointer %s read outside the `p = G; G = NULL;` pattern at %s" % (b[1], self.st(n)))
        if b[0] == "untracked":
            if old is not None and old[0] == "var":
                raise Unsupported("variable %s is both tracked and untracked (%s)" % (name, self.st(n)))
            self.fr.env[did] = ("untracked",)
            return ev
        raise Unsupported("assignment of <%s> at %s" % (b[0], self.st(n)))

    def assign(self, L, R, n):
        tl = self.etype(L)
        ld = self.local_decl(L)
        rec_l = self.I.rec_of(self.tu, tl) if not self.I.is_ptr(tl) else None
        if ld and rec_l in TRACKED_STRUCTS:
            return self.set_local(ld[0], ld[1], tl, R, n, rec_struct=rec_l)
        if rec_l in TRACKED_STRUCTS:
            raise Unsupported("tracked struct stored outside a local variable at %s" % self.st(n))
        if not self.I.is_ptr(tl):
            ev, b = self.lv_access(L)
            return ev + self.rv(R) + self.deref(b, n)
        # pointer assignment
        if ld:
            return self.set_local(ld[0], ld[1], tl, R, n)
        g = self.global_decl(L)
        if g is not None:
            kind, rec = self.I.pointee_kind(self.tu, tl)
            ev = self.rv(R)
            b = self.pv(R)
            if kind == "own":
                q = self.T.qid(g["name"])
                if b[0] == "null":
                    return ev
                if b[0] == "var":
                    return ev + [("Enq", b[1], q)] + [("Enq", x, q) for x in self.subs_of(b)]
                raise Unsupported("global pointer %s assigned <%s> at %s" % (g["name"], b[0], self.st(n)))
            if b[0] in ("var", "sub", "gslot", "deq", "peek"):
                if not (b[0] == "var" and b[2] in ("shared", "sharednew")):
                    raise Unsupported("tracked pointer stored in global %s at %s" % (g["name"], self.st(n)))
                return ev + [("Share", b[1], self.T.mid(SHARED_RECORDS[b[3]]))]
            return ev
        # store into a field / element
        evl, bl = self.lv_access(L)
        evr = self.consumed_rv(R)
        b = self.pv(R)
        out = evl + evr + self.deref(bl, n)
        Lk = L
        while Lk.get("kind") == "ParenExpr":
            Lk = Lk["inner"][0]
        if b[0] in ("null", "untracked", "shared"):
            return out
        if b[0] == "var" and b[2] in ("shared", "sharednew"):
            return out + [("Share", b[1], self.T.mid(SHARED_RECORDS[b[3]]))] + \
                [("Share", x, self.T.mid(SHARED_RECORDS[b[3]])) for x in self.subs_of(b)]
        if Lk.get("kind") == "MemberExpr":
            if Lk.get("isArrow") and bl is not None and bl[0] == "var" and bl[3] is not None and bl[2] in ("own", "sharednew"):
                fld = Lk["name"]
                kind, rec = self.I.pointee_kind(self.tu, tl)
                if kind != "plain":
                    raise Unsupported("tracked pointer stored in field %s at %s" % (fld, self.st(n)))
                if b[0] == "new":
                    p2 = self.note_sub(bl[3], fld)
                    return out + [("New", self.I.subvar(bl[1], p2))]
                if b[0] == "var" and b[2] == "plain":
                    # attach: r becomes the sub-object p.f; a second field set to r is an alias
                    for (vid, path), x in list(self.I.subvars.items()):
                        if vid == bl[1] and x == b[1]:
                            self.T.alias[(bl[3], fld)] = path
                            return out
                    if self.fr.nest:
                        raise Unsupported("pointer attached to an object inside a branch or loop at %s" % self.st(n))
                    p2 = self.note_sub(bl[3], fld)
                    x = self.I.subvar(bl[1], p2)
                    self.fr.alias[b[1]] = x
                    return out + [("Move", x, b[1])]
                if b[0] == "sub" and b[1] == bl[1]:
                    self.T.alias[(bl[3], fld)] = b[2]
                    return out
            if not Lk.get("isArrow") and Lk["inner"][0].get("kind") == "DeclRefExpr":
                # member of a local struct
                ref = Lk["inner"][0]["referencedDecl"]
                did = ref["id"]
                rec = self.I.rec_of(self.tu, self.etype(Lk["inner"][0]))
                if rec in TRACKED_STRUCTS and Lk["name"] == TRACKED_STRUCTS[rec]:
                    if self.fr.env.get(did) is None:
                        self.fr.env[did] = ("var", self.T.new_var(self.fr.prefix + "." + ref["name"]), "struct", rec)
                    v = self.fr.env[did]
                    if b[0] == "var":
                        return out + [("Move", v[1], b[1])]
                    if b[0] == "sub":
                        return out + [("Move", v[1], b[3])]
        if b[0] == "new":
            return out                  # storage that is not an object of the discipline (queue arrays, thread table)
        raise Unsupported("tracked pointer <%s> stored in %s at %s" % (b[0], Lk.get("kind"), self.st(n)))

    # ---------------- calls
    def mutex_of(self, a, what):
        x = a
        while x.get("kind") in GL.CASTS:
            x = x["inner"][0]
        if x.get("kind") == "UnaryOperator" and x.get("opcode") == "&":
            g = self.global_decl(x["inner"][0])
            if g is not None:
                return self.T.mid(g["name"])
        raise Unsupported("%s on something that is not &<global mutex> at %s" % (what, self.st(a)))

    def arg_access(self, a, n):
        """a pointer handed to code outside the three files: it may read and write through it"""
        if not self.I.is_ptr(self.etype(a)):
            return []
        b = self.pv(a)
        if b[0] in ("deq", "gslot"):
            raise Unsupported("<%s> passed to a function at %s" % (b[0], self.st(n)))
        return self.deref(b, n)

    def call(self, e):
        callee = e["inner"][0]
        args = e["inner"][1:]
        fn = self.m.func_ref(self.tu, callee)
        if fn is None:
            c = callee
            while c.get("kind") in GL.CASTS:
                c = c["inner"][0]
            if c.get("kind") != "MemberExpr":
                raise Unsupported("indirect call not through a struct member at %s" % self.st(e))
            out = self.rv(callee)
            base = c["inner"][0]
            bt = self.etype(base)
            rec = self.I.rec_of(self.tu, GL.pointee_type(bt) if c.get("isArrow") else bt)
            if rec == "process":
                f = self.I.sc.proc.get(c["name"])
                if c["name"] not in self.I.sc.proc or c["name"] == "tasks":
                    raise Unsupported("call through unknown member %s of struct process" % c["name"])
                if f is None:
                    return out + [("NoReturn",)]         # NULL member: the call cannot happen in this scenario
                return out + self.call_named(f, args, e)
            if rec == "task":
                idx = {"ready": 0, "run": 1}.get(c["name"])
                if idx is None:
                    raise Unsupported("call through member %s of struct task" % c["name"])
                alts = []
                for row in self.I.sc.proc["tasks"]:
                    alts.append(seq(self.nested(lambda: self.call_named(row[idx], args, e))))
                return out + [choice(alts)]
            raise Unsupported("indirect call through %s.%s at %s" % (rec, c["name"], self.st(e)))
        return self.call_named(fn, args, e)

    def call_named(self, fn, args, e):
        base = fn.split(":")[-1]
        if base in ("pthread_mutex_lock", "pthread_mutex_unlock"):
            mu = self.mutex_of(args[0], base)
            return [("Lock" if base.endswith("_lock") else "Unlock", mu)]
        if base == "pthread_cond_wait":
            return [("Wait", self.mutex_of(args[1], base))]
        if base in ("pthread_cond_signal", "pthread_cond_broadcast"):
            return []
        if fn in ALLOC:
            self.T.note(self.fr.fq, "alloc", e)
            out = []
            for a in args:
                out += self.rv(a)
            return out
        if fn == "free":
            self.T.note(self.fr.fq, "free", e)
            a = args[0]
            ev = self.consumed_rv(a)
            b = self.pv(a)
            if b[0] == "var":
                if b[1] in self.I.subvars.values():
                    # a sub-object reached through a second name: see below
                    return ev + [("Free", b[1], self.st(e)), ("Null", b[1])]
                return ev + [("Free", b[1], self.st(e))]
            if b[0] == "sub":
                # p->f is dangling now; the pseudo-variable p.f is reset so that the implicit hand-over
                # of the sub-objects together with p stays possible (a later use of p->f is NOT flagged)
                return ev + [("Free", b[3], self.st(e)), ("Null", b[3])]
            if b[0] == "deq":
                if b[2] == "shared":
                    return ev + [("AccShared", self.T.mid(SHARED_RECORDS[b[3]]), self.st(e))]
                if b[2] != "own":
                    raise Unsupported("free(<element of %s>) at %s" % (b[1], self.st(e)))
                tmp = ("var", self.T.new_var(self.fr.prefix + ".$tmp%d" % len(self.T.var_names)), "own", b[3])
                return ev + [("Deq", tmp[1], b[1])] + [("Deq", x, b[1]) for x in self.subs_of(tmp)] + \
                    [("Free", tmp[1], self.st(e))]
            if b[0] in ("shared", "peek"):
                return ev + self.deref(b, e)        # modelled as an access (lifetime protocol not part of C12)
            if b[0] in ("untracked", "null"):
                return ev
            raise Unsupported("free(<%s>) at %s" % (b[0], self.st(e)))
        info = self.m.func_info.get(fn)
        if fn in self.I.skip_calls:
            self.I.skipped += 1
            return []
        if info is not None and os.path.basename(info["file"]) in INLINE_FILES:
            out = [self.I.inline(fn, args, self, e)]
            if info["noreturn"]:
                out.append(("NoReturn",))
            return out
        # outside the three files (other modules of lbzip2, libc)
        out = []
        for a in args:
            out += self.rv(a)
        for a in args:
            out += self.arg_access(a, e)
        ctype = self.etype(e["inner"][0])
        if "noreturn" in ctype or (info is not None and info["noreturn"]):
            out.append(("NoReturn",))
        return out

    # ---------------- statements
    def stmt(self, n):
        k = n.get("kind")
        if not k:
            return SKIP
        if k == "CompoundStmt":
            kids = [c for c in n.get("inner", [])]
            out = []
            i = 0
            while i < len(kids):
                c = kids[i]
                pat = self.slot_take(c, kids[i + 1] if i + 1 < len(kids) else None)
                if pat is not None:
                    out += pat
                    i += 2
                    continue
                out.append(self.stmt(c))
                i += 1
            return seq(out)
        if k == "DeclStmt":
            out = []
            for c in n.get("inner", []):
                if c.get("kind") != "VarDecl" or c.get("storageClass") == "static":
                    continue
                t = c["type"].get("desugaredQualType", c["type"]["qualType"])
                init = [i for i in c.get("inner", []) if i.get("kind")]
                init = init[0] if init else None
                rec = self.I.rec_of(self.tu, t) if not self.I.is_ptr(t) else None
                if self.I.is_ptr(t):
                    out += self.set_local(c["id"], c["name"], t, init, c)
                elif rec in TRACKED_STRUCTS:
                    out += self.set_local(c["id"], c["name"], t, init, c, rec_struct=rec)
                else:
                    if rec is not None and rec not in UNTRACKED_STRUCT_LOCALS and self.has_pointer_field(rec):
                        raise Unsupported("local struct %s (%s) contains pointers and is not classified" % (c["name"], rec))
                    if init is not None:
                        out += self.rv(init)
            return seq(out)
        if k == "NullStmt":
            return SKIP
        if k == "IfStmt":
            kids = n["inner"]
            cond, then = kids[0], kids[1]
            els = kids[2] if len(kids) > 2 else None
            c = self.rv(cond)
            a = self.nested(lambda: self.stmt(then))
            b = self.nested(lambda: self.stmt(els)) if els else SKIP
            return seq(c + [("If", a, b)])
        if k == "WhileStmt":
            cond, body = n["inner"][0], n["inner"][-1]
            return self.nested(lambda: ("Loop", seq(self.rv(cond) + [("If", ("Break",), SKIP), self.stmt(body)])))
        if k == "DoStmt":
            body, cond = n["inner"][0], n["inner"][1]
            if self.has_kind(body, "ContinueStmt"):
                raise Unsupported("continue inside do-while in %s" % self.fr.fq)
            return self.nested(lambda: ("Loop", seq([self.stmt(body)] + self.rv(cond) + [("If", ("Break",), SKIP)])))
        if k == "ForStmt":
            init, _cv, cond, inc, body = n["inner"]
            if inc.get("kind") and self.has_kind(body, "ContinueStmt"):
                raise Unsupported("continue inside for with increment in %s" % self.fr.fq)
            pre = [self.stmt(init)] if init.get("kind") else []

            def loop():
                c = self.rv(cond) + [("If", ("Break",), SKIP)] if cond.get("kind") else []
                return ("Loop", seq(c + [self.stmt(body)] + (self.rv(inc) if inc.get("kind") else [])))
            return seq(pre + [self.nested(loop)])
        if k == "ReturnStmt":
            out = []
            for c in n.get("inner", []):
                out += self.rv(c)
            return seq(out + [("Return",)])
        if k == "BreakStmt":
            return ("Break",)
        if k == "ContinueStmt":
            return ("Continue",)
        if k in ("GotoStmt", "LabelStmt", "IndirectGotoStmt", "SwitchStmt", "CaseStmt", "DefaultStmt"):
            raise Unsupported("%s in %s" % (k, self.fr.fq))
        return seq(self.rv(n))

    def has_kind(self, n, kind):
        if not isinstance(n, dict):
            return False
        if n.get("kind") == kind:
            return True
        for c in n.get("inner", []):
            if isinstance(c, dict) and c.get("kind") in ("WhileStmt", "ForStmt", "DoStmt"):
                continue
            if self.has_kind(c, kind):
                return True
        return False

    def slot_take(self, s1, s2):
        """`p = G; G = NULL;` (G a global pointer to an owned object): Deq p G"""
        if s2 is None or s1.get("kind") != "BinaryOperator" or s1.get("opcode") != "=" or \
                s2.get("kind") != "BinaryOperator" or s2.get("opcode") != "=":
            return None
        ld = self.local_decl(s1["inner"][0])
        if not ld or not self.I.is_ptr(ld[2]):
            return None
        r = self.strip(s1["inner"][1])
        if not (r.get("kind") == "ImplicitCastExpr" and r.get("castKind") == "LValueToRValue"):
            return None
        g = self.global_decl(r["inner"][0])
        g2 = self.global_decl(s2["inner"][0])
        if g is None or g2 is None or g["name"] != g2["name"]:
            return None
        kind, rec = self.I.pointee_kind(self.tu, ld[2])
        if kind != "own" or self.pv(s2["inner"][1])[0] != "null":
            return None
        old = self.fr.env.get(ld[0])
        if old is None:
            old = ("var", self.T.new_var(self.fr.prefix + "." + ld[1]), kind, rec)
            self.fr.env[ld[0]] = old
        if old[0] != "var":
            raise Unsupported("variable %s is both tracked and untracked" % ld[1])
        q = self.T.qid(g["name"])
        return [("Deq", old[1], q)] + [("Deq", x, q) for x in self.subs_of(old)]


# --------------------------------------------------------------------------
# reference implementation of the checker (diagnosis only; the verdict is Coq's own_check)
# --------------------------------------------------------------------------
class Diag(Exception):
    pass


def meet_s(a, b):
    if a is None:
        return b
    if b is None:
        return a
    L = a[0] & b[0]
    S = {}
    for k in set(a[1]) | set(b[1]):
        x, y = a[1].get(k, "Own"), b[1].get(k, "Own")
        S[k] = x if x == y else "Dead"
    return (L, S)


def le_s(a, b):
    """a at least as conservative as b"""
    if not a[0] <= b[0]:
        return False
    for k in set(a[1]) | set(b[1]):
        x, y = a[1].get(k, "Own"), b[1].get(k, "Own")
        if x != "Dead" and x != y:
            return False
    return True


def pycheck(term, qlock, errors, names):
    """abstract interpretation; appends (site, message) to errors; returns exits"""
    def acc_ok(S, L, p):
        s = S.get(p, "Own")
        if s == "Own":
            return True
        if isinstance(s, tuple) and s[1] in L:
            return True
        return False

    def go(t, a):
        # returns dict norm/ret/brk/cnt -> state or None
        k = t[0]
        E = {"norm": None, "ret": None, "brk": None, "cnt": None}
        L, S = a
        if k == "Skip":
            E["norm"] = a
        elif k == "Seq":
            e1 = go(t[1], a)
            if e1["norm"] is None:
                return e1
            e2 = go(t[2], e1["norm"])
            E = {"norm": e2["norm"]}
            for x in ("ret", "brk", "cnt"):
                E[x] = meet_s(e1[x], e2[x])
        elif k == "If":
            e1, e2 = go(t[1], a), go(t[2], a)
            for x in E:
                E[x] = meet_s(e1[x], e2[x])
        elif k == "Loop":
            I = a
            for _ in range(12):
                eb = go_quiet(t[1], I)
                I2 = meet_s(I, meet_s(eb["norm"], eb["cnt"]))
                if le_s(I, I2):
                    break
                I = I2
            eb = go(t[1], I)
            E["norm"], E["ret"] = eb["brk"], eb["ret"]
        elif k == "Scope":
            eb = go(t[1], a)
            E["norm"] = meet_s(meet_s(eb["norm"], eb["ret"]), meet_s(eb["brk"], eb["cnt"]))
        elif k == "Break":
            E["brk"] = a
        elif k == "Continue":
            E["cnt"] = a
        elif k == "Return":
            E["ret"] = a
        elif k == "NoReturn":
            pass
        elif k == "Lock":
            E["norm"] = (L | {t[1]}, S)
        elif k == "Unlock":
            E["norm"] = (L - {t[1]}, S)
        elif k == "Wait":
            E["norm"] = a
        else:
            S2 = dict(S)
            if k == "New" or k == "Null":
                S2[t[1]] = "Own"
            elif k == "Deq":
                if qlock(t[2]) not in L:
                    errors.append((None, "%s taken from %s without holding %s" % (names(t[1]), t[2], qlock(t[2]))))
                S2[t[1]] = "Own"
            elif k == "Enq":
                if S.get(t[1], "Own") != "Own":
                    errors.append((None, "%s put into %s: %s" % (names(t[1]), t[2], why(S, L, t[1]))))
                S2[t[1]] = "Dead"
            elif k == "Free":
                if not acc_ok(S, L, t[1]):
                    errors.append((t[2], "free(%s): %s" % (names(t[1]), why(S, L, t[1]))))
                S2[t[1]] = "Dead"
            elif k == "Access":
                if not acc_ok(S, L, t[1]):
                    errors.append((t[2], "access through %s: %s" % (names(t[1]), why(S, L, t[1]))))
            elif k == "Move":
                S2[t[1]] = S.get(t[2], "Own")
                S2[t[2]] = "Dead"
            elif k == "Share":
                s = S.get(t[1], "Own")
                if not (s == "Own" or s == ("Shr", t[2])):
                    errors.append((None, "%s published: %s" % (names(t[1]), why(S, L, t[1]))))
                S2[t[1]] = ("Shr", t[2]) if (s == "Own" or s == ("Shr", t[2])) else "Dead"
            elif k == "Borrow":
                S2[t[1]] = ("Shr", t[2])
            elif k == "AccQ":
                if qlock(t[1]) not in L:
                    errors.append((t[2], "element of %s accessed without holding %s" % (t[1], qlock(t[1]))))
            elif k == "AccShared":
                if t[1] not in L:
                    errors.append((t[2], "shared object accessed without holding %s" % t[1]))
            else:
                raise Diag("unknown statement %r" % (t,))
            E["norm"] = (L, S2)
        return E

    def why(S, L, p):
        s = S.get(p, "Own")
        if s == "Dead":
            return "the object was handed over (or freed / moved) on some path and not re-acquired"
        if s == "Own":
            return "?"
        return "shared object, %s not held" % s[1]

    def go_quiet(t, a):
        n = len(errors)
        r = go(t, a)
        del errors[n:]
        return r
    return go(term, (frozenset(), {}))


# --------------------------------------------------------------------------
# Coq output
# --------------------------------------------------------------------------
def coq_str(s):
    return '"' + s.replace('"', '""') + '"'


def translate(repo):
    T = Trans(repo)
    T.run()                         # pass 1: discovers the sub-object fields and aliases
    subs, alias = T.subs, T.alias
    for (rec, path) in alias:
        subs.get(rec, set()).discard(path)
    T2 = Trans(repo, T.m)           # the AST model is only read
    T2.subs = {k: set(v) for k, v in subs.items()}
    T2.alias = dict(alias)
    scs = T2.run()
    if {k: set(v) for k, v in T2.subs.items()} != {k: set(v) for k, v in subs.items()} or T2.alias != alias:
        raise Unsupported("sub-object discovery did not stabilise: %r / %r" % (T2.subs, subs))
    T2.scs = scs
    return T2


def emit(T):
    Q = {q: i + 1 for i, q in enumerate(T.queues)}
    for q in T.queues:
        T.mid(queue_lock(q))
    M = {m: i + 1 for i, m in enumerate(T.mutexes)}

    def st(s):
        k = s[0]
        if k in ("Skip", "Break", "Continue", "Return", "NoReturn"):
            return k
        if k in ("Seq", "If"):
            return "(%s %s\n %s)" % (k, st(s[1]), st(s[2]))
        if k in ("Loop", "Scope"):
            return "(%s %s)" % (k, st(s[1]))
        if k in ("Lock", "Unlock", "Wait"):
            return "(%s %d)" % (k, M[s[1]])
        if k in ("New", "Null"):
            return "(%s %d)" % (k, s[1])
        if k in ("Deq", "Enq"):
            return "(%s %d %d)" % (k, s[1], Q[s[2]])
        if k in ("Free", "Access"):
            return "(%s %d %d)" % (k, s[1], T.site_ids[s[2]])
        if k == "Move":
            return "(Move %d %d)" % (s[1], s[2])
        if k in ("Share", "Borrow"):
            return "(%s %d %d)" % (k, s[1], M[s[2]])
        if k == "AccQ":
            return "(AccQ %d %d)" % (Q[s[1]], T.site_ids[s[2]])
        if k == "AccShared":
            return "(AccShared %d %d)" % (M[s[1]], T.site_ids[s[2]])
        raise Unsupported("emit %r" % (s,))

    o = ["From LBZ Require Import Lock.OwnLang.\nLocal Open Scope positive_scope.\n"]
    o.append("(* policy (lib/gen_own.py): OWN records %s; SHARED records %s; by-value queue elements %s *)\n" % (
        sorted(OWN_RECORDS), sorted(SHARED_RECORDS.items()), sorted(TRACKED_STRUCTS.items())))
    o.append("(* sub-object fields: %s ; aliases: %s *)\n" % (
        {k: sorted(v) for k, v in sorted(T.subs.items())}, sorted(T.alias.items())))
    names = []
    for sc in T.scs:
        for (tn, multi, term) in sc.threads:
            nm = "t_%s_%s" % (sc.name, tn)
            names.append((sc.name, tn, multi, nm))
            o.append("Definition %s : stmt :=\n %s.\n" % (nm, st(term)))
    o.append("Definition queue_lock_table : list (positive * positive) := [\n  %s].\n" %
             ";\n  ".join("(%d, %d) (* %s : %s *)" % (Q[q], M[queue_lock(q)], q, queue_lock(q)) for q in T.queues))
    scl = []
    for sc in T.scs:
        th = ["(%s%%string, %s, %s)" % (coq_str(tn), "true" if multi else "false", nm)
              for (s, tn, multi, nm) in names if s == sc.name]
        scl.append("(%s%%string, mkProgram [\n    %s] queue_lock_table)" % (coq_str(sc.name), ";\n    ".join(th)))
    o.append("Definition scenarios : list (string * program) := [\n  %s].\n" % ";\n  ".join(scl))
    for nm, lst in (("var_names", T.var_names), ("queue_names", T.queues), ("mutex_names", T.mutexes), ("site_names", T.sites)):
        o.append("Definition %s : list (positive * string) := [\n  %s]%%string.\n" % (
            nm, ";\n  ".join("(%d%%positive, %s)" % (i + 1, coq_str(n)) for i, n in enumerate(lst))))
    return "\n".join(o)


def diagnose(T):
    """run the reference checker on every thread body; list of (scenario, thread, site, message)"""
    out = []
    for sc in T.scs:
        for (tn, multi, term) in sc.threads:
            errs = []
            ex = pycheck(term, queue_lock, errs, lambda v: T.var_names[v - 1])
            seen = set()
            for s, msg in errs:
                if (s, msg) in seen:
                    continue
                seen.add((s, msg))
                out.append((sc.name, tn, s, msg))
    return out


def generate(repo, out):
    def body():
        return emit(translate(repo))
    out.write("OwnProg.v", "src/{process,compress,expand}.c (clang -ast-dump=json), hand-over skeleton", body)


def show(s, T, ind=0):
    pad = " " * ind
    k = s[0]
    if k == "Seq":
        return show(s[1], T, ind) + show(s[2], T, ind)
    if k == "If":
        return pad + "If\n" + show(s[1], T, ind + 2) + pad + "Else\n" + show(s[2], T, ind + 2)
    if k in ("Loop", "Scope"):
        return pad + k + "\n" + show(s[1], T, ind + 2)
    args = []
    for i, x in enumerate(s[1:]):
        if isinstance(x, int) and not (k in ("Lock", "Unlock", "Wait")):
            args.append(T.var_names[x - 1])
        else:
            args.append(str(x))
    return pad + k + " " + " ".join(args) + "\n"


if __name__ == "__main__":
    repo = sys.argv[1] if len(sys.argv) > 1 else "/repo"
    T = translate(repo)
    txt = emit(T)
    if len(sys.argv) > 2:
        open(sys.argv[2], "w").write(txt)
    print("scenarios:", [(sc.name, [t[0] for t in sc.threads]) for sc in T.scs])
    print("vars:", len(T.var_names), "queues:", T.queues, "mutexes:", T.mutexes, "sites:", len(T.sites),
          "inlined instances:", T.stats["inlined"])
    print("subs:", T.subs, "alias:", T.alias)
    if len(sys.argv) > 3:
        for sc in T.scs:
            for (tn, multi, term) in sc.threads:
                if sys.argv[3] in ("all", sc.name + "." + tn):
                    print("==== %s.%s" % (sc.name, tn))
                    print(show(term, T))
    for d in diagnose(T):
        print("DIAG", d)
