"""Translator plugin for the queue primitives of the scheduler  ->  coq/Gen/PoolTab.v

Transcribed from the *current* /repo/src on every run (vocabulary: coq/Safe/PoolVocab.v):

  process.h   `struct position`, the members of `pqueue(T)` and `deque(T)`;
              pos_eq / pos_lt / pos_le;
              every deque macro (deque_init, deque_uninit, size, empty, dq_get, dq_set, shift,
              unshift, push, pop) and every pqueue macro (pqueue_init, pqueue_uninit, peek,
              enqueue, dequeue) as the list of its side effects IN SOURCE ORDER (assert, field
              update, array write, array read, call of up_heap/down_heap), every index / field
              expression transcribed structurally with C `unsigned` arithmetic made explicit
              (uadd/usub/umul of PoolVocab.v); helper macros (min of common.h, empty) are expanded
              from their current definitions
  process.c   up_heap() and down_heap(): the control skeleton is matched statement by statement
              against the shape the model Safe/PoolModel.v implements (early return, hole
              initialisation, do-while / while loop with break, final store) and every expression
              in it (parent(j), left(j), child + 1 < size, the pos_lt/pos_le comparisons and
              their operands, the moves root[a] = root[b]) is transcribed; parent()/left() are
              expanded from their #defines

No analysis happens here.  Anything that does not have the expected shape raises ParseError
(=> PoolTab.v carries the gen_broken marker and dependants do not build), nothing is skipped.
"""
import os
import re
import sys

sys.path.insert(0, os.path.dirname(os.path.abspath(__file__)))
import cparse
from cparse import ParseError


def read(repo, rel):
    with open(os.path.join(repo, rel), encoding="latin-1") as f:
        return f.read()


# --------------------------------------------------------------------------
# expression parser: cparse's grammar + comma, assignment, ++/--, sizeof, (void)
#   extra nodes: ("comma", [e..]) ("assign", lhs, rhs) ("post", "++"|"--", e) ("pre", op, e)
#                ("sizeof", e) ("num", n, is_unsigned)
# --------------------------------------------------------------------------
TYPE_WORDS = ("unsigned", "int", "long", "size_t", "uint64_t", "uint32_t", "uintmax_t", "uint8_t",
              "uint16_t", "char", "short", "void")


class EP:
    def __init__(self, toks):
        self.t = toks
        self.i = 0

    def peek(self, k=0):
        return self.t[self.i + k] if self.i + k < len(self.t) else ("eof", "")

    def eat(self, v=None):
        k, val = self.peek()
        if v is not None and val != v:
            raise ParseError("expected %r got %r" % (v, val))
        if k == "eof":
            raise ParseError("unexpected end of expression")
        self.i += 1
        return k, val

    def comma(self):
        items = [self.assign()]
        while self.peek() == ("op", ","):
            self.eat()
            items.append(self.assign())
        return items[0] if len(items) == 1 else ("comma", items)

    def assign(self):
        lhs = self.ternary()
        if self.peek() == ("op", "="):
            self.eat()
            return ("assign", lhs, self.assign())
        k, v = self.peek()
        if k == "op" and v in ("+", "-", "*", "/", "%", "&", "|", "^", "<<", ">>") and self.peek(1) == ("op", "="):
            raise ParseError("compound assignment %s= is outside the vocabulary" % v)
        if k == "op" and v in ("<<=", ">>="):
            raise ParseError("compound assignment %s is outside the vocabulary" % v)
        return lhs

    def ternary(self):
        c = self.binary(1)
        if self.peek() == ("op", "?"):
            self.eat()
            a = self.comma()
            self.eat(":")
            b = self.ternary()
            return ("cond", c, a, b)
        return c

    def binary(self, minprec):
        lhs = self.unary()
        while True:
            k, v = self.peek()
            if k == "op" and v in cparse.BINPREC and cparse.BINPREC[v] >= minprec and self.peek(1) != ("op", "="):
                self.eat()
                rhs = self.binary(cparse.BINPREC[v] + 1)
                lhs = ("bin", v, lhs, rhs)
            else:
                return lhs

    def unary(self):
        k, v = self.peek()
        if k == "op" and v in ("++", "--"):
            self.eat()
            return ("pre", v, self.unary())
        if k == "op" and v in ("!", "-", "~", "+", "*", "&"):
            self.eat()
            return ("un", v, self.unary())
        if (k, v) == ("id", "sizeof"):
            self.eat()
            return ("sizeof", self.unary())
        if (k, v) == ("op", "("):
            j = self.i + 1
            names = []
            while j < len(self.t) and self.t[j][0] == "id" and self.t[j][1] in TYPE_WORDS:
                names.append(self.t[j][1])
                j += 1
            if names and j < len(self.t) and self.t[j] == ("op", ")"):
                self.i = j + 1
                return ("cast", " ".join(names), self.unary())
        return self.postfix()

    def postfix(self):
        k, v = self.eat()
        if k == "num":
            e = ("num", cparse.parse_int(v), "u" in v.lower())
            if "l" in v.lower():
                raise ParseError("long literal %s is outside the vocabulary" % v)
        elif k == "id":
            e = ("id", v)
        elif (k, v) == ("op", "("):
            e = self.comma()
            self.eat(")")
        else:
            raise ParseError("unexpected %r" % (v,))
        while True:
            k, v = self.peek()
            if (k, v) == ("op", "("):
                self.eat()
                args = []
                if self.peek() != ("op", ")"):
                    args.append(self.assign())
                    while self.peek() == ("op", ","):
                        self.eat()
                        args.append(self.assign())
                self.eat(")")
                e = ("call", e, args)
            elif (k, v) in (("op", "->"), ("op", ".")):
                self.eat()
                k2, f = self.eat()
                if k2 != "id":
                    raise ParseError("member name expected, got %r" % (f,))
                e = ("member", e, f, v == "->")
            elif (k, v) == ("op", "["):
                self.eat()
                ix = self.comma()
                self.eat("]")
                e = ("index", e, ix)
            elif k == "op" and v in ("++", "--"):
                self.eat()
                e = ("post", v, e)
            else:
                return e


def parse_full(text):
    p = EP(cparse.tokenize(text))
    e = p.comma()
    if p.i != len(p.t):
        raise ParseError("trailing tokens in %r at %r" % (text[:60], p.t[p.i:p.i + 3]))
    return e


# --------------------------------------------------------------------------
# macro expansion on the AST
# --------------------------------------------------------------------------
def subst(e, env):
    if not isinstance(e, tuple):
        return e
    if e[0] == "id" and e[1] in env:
        return env[e[1]]
    if e[0] == "num":
        return e
    if e[0] == "member":
        return ("member", subst(e[1], env), e[2], e[3])
    if e[0] in ("comma",):
        return ("comma", [subst(x, env) for x in e[1]])
    if e[0] == "call":
        return ("call", subst(e[1], env), [subst(x, env) for x in e[2]])
    if e[0] in ("un", "pre", "post", "cast"):
        return (e[0], e[1], subst(e[2], env))
    if e[0] == "bin":
        return ("bin", e[1], subst(e[2], env), subst(e[3], env))
    if e[0] == "sizeof":
        return ("sizeof", subst(e[1], env))
    return (e[0],) + tuple(subst(x, env) for x in e[1:])


class Macros:
    def __init__(self, srcs, expandable):
        self.defs = {}
        for s in srcs:
            for k, (params, body) in cparse.find_defines(s).items():
                if params is not None:
                    ps = [p.strip() for p in params.strip()[1:-1].split(",") if p.strip()]
                    self.defs[k] = (ps, body)
        self.expandable = expandable
        self.used = []

    def body(self, name):
        if name not in self.defs:
            raise ParseError("function-like macro %s not found" % name)
        ps, body = self.defs[name]
        return ps, parse_full(body)

    def expand(self, e, depth=0):
        """Expand calls of the expandable helper macros (min, empty, parent, left ...) everywhere in e."""
        if depth > 20:
            raise ParseError("macro expansion too deep")
        if not isinstance(e, tuple):
            return e
        if e[0] == "call" and e[1][0] == "id" and e[1][1] in self.expandable:
            name = e[1][1]
            ps, body = self.body(name)
            if len(ps) != len(e[2]):
                raise ParseError("macro %s: %d parameters, %d arguments" % (name, len(ps), len(e[2])))
            if name not in self.used:
                self.used.append(name)
            args = [self.expand(a, depth + 1) for a in e[2]]
            return self.expand(subst(body, dict(zip(ps, args))), depth + 1)
        if e[0] == "num":
            return e
        if e[0] == "member":
            return ("member", self.expand(e[1], depth), e[2], e[3])
        if e[0] == "comma":
            return ("comma", [self.expand(x, depth) for x in e[1]])
        if e[0] == "call":
            return ("call", e[1], [self.expand(x, depth) for x in e[2]])
        if e[0] in ("un", "pre", "post", "cast"):
            return (e[0], e[1], self.expand(e[2], depth))
        if e[0] == "bin":
            return ("bin", e[1], self.expand(e[2], depth), self.expand(e[3], depth))
        if e[0] == "sizeof":
            return ("sizeof", self.expand(e[1], depth))
        if e[0] == "id":
            return e
        return (e[0],) + tuple(self.expand(x, depth) for x in e[1:])


# --------------------------------------------------------------------------
# typed transcription of pure integer expressions (C `unsigned` / int literals)
#   leaf(e) -> (gallina, type) or None ;  types: "u" unsigned, "i" int literal (python int), "b" truth value
# --------------------------------------------------------------------------
class Pure:
    def __init__(self, leaf):
        self.leaf = leaf

    def num(self, e):
        g, t = self.tr(e)
        if t == "b":
            raise ParseError("truth value used as a number: %r" % (e,))
        if t == "i":
            if g < 0:
                raise ParseError("negative int constant converted to unsigned: %r" % (e,))
            return str(g)
        return g

    def boolean(self, e):
        g, t = self.tr(e)
        if t == "b":
            return g
        if t == "i":
            return "true" if g else "false"
        return "(negb (%s =? 0))" % g

    def tr(self, e):
        k = e[0]
        lf = self.leaf(e)
        if lf is not None:
            return lf
        if k == "num":
            return (str(e[1]), "u") if e[2] else (e[1], "i")
        if k == "cast":
            if e[1] == "unsigned":
                g, t = self.tr(e[2])
                if t == "b":
                    raise ParseError("cast of a truth value")
                return (str(g), "u")
            raise ParseError("cast to %s is outside the vocabulary" % e[1])
        if k == "un":
            if e[1] == "!":
                return ("(negb %s)" % self.boolean(e[2]), "b")
            if e[1] == "+":
                g, t = self.tr(e[2])
                if t == "b":
                    raise ParseError("unary + on a truth value")
                return (g, t)
            raise ParseError("unary %s is outside the vocabulary: %r" % (e[1], e))
        if k == "bin":
            op = e[1]
            if op in ("&&", "||"):
                return ("(%s %s %s)" % (self.boolean(e[2]), op, self.boolean(e[3])), "b")
            (a, ta), (b, tb) = self.tr(e[2]), self.tr(e[3])
            if "b" in (ta, tb):
                raise ParseError("truth value used as an arithmetic operand: %r" % (e,))
            if ta == "i" and tb == "i":
                if op in ("+", "-", "*"):
                    v = {"+": a + b, "-": a - b, "*": a * b}[op]
                    if not (0 <= v < 2 ** 31):
                        raise ParseError("int constant expression out of range: %r" % (e,))
                    return (v, "i")
                raise ParseError("int-only expression %r is outside the vocabulary" % (e,))
            # usual arithmetic conversions: unsigned op int -> unsigned (int literals are >= 0)
            if ta == "i":
                if a < 0:
                    raise ParseError("negative literal")
                a = str(a)
            if tb == "i":
                if b < 0:
                    raise ParseError("negative literal")
                if op in ("/", "%") and b == 0:
                    raise ParseError("division by the literal 0")
                b = str(b)
            elif op in ("/", "%"):
                raise ParseError("division by a non-literal: %r" % (e,))
            if op in ("+", "-", "*", "/", "%"):
                f = {"+": "uadd", "-": "usub", "*": "umul", "/": "udiv", "%": "urem"}[op]
                return ("(%s %s %s)" % (f, a, b), "u")
            if op == "<":
                return ("(%s <? %s)" % (a, b), "b")
            if op == ">":
                return ("(%s <? %s)" % (b, a), "b")
            if op == "<=":
                return ("(%s <=? %s)" % (a, b), "b")
            if op == ">=":
                return ("(%s <=? %s)" % (b, a), "b")
            if op == "==":
                return ("(%s =? %s)" % (a, b), "b")
            if op == "!=":
                return ("(negb (%s =? %s))" % (a, b), "b")
            raise ParseError("operator %s is outside the vocabulary" % op)
        if k == "cond":
            c = self.boolean(e[1])
            (a, ta), (b, tb) = self.tr(e[2]), self.tr(e[3])
            if "b" in (ta, tb):
                if ta == tb == "b":
                    return ("(if %s then %s else %s)" % (c, a, b), "b")
                raise ParseError("?: mixes a truth value and a number")
            return ("(if %s then %s else %s)" % (c, a, b), "u")
        raise ParseError("expression outside the vocabulary: %r" % (e,))


# --------------------------------------------------------------------------
# struct layouts
# --------------------------------------------------------------------------
def struct_members(text):
    """`{ T *restrict root; unsigned size; }` -> [("T *restrict", "root"), ("unsigned", "size")]"""
    text = text.strip()
    if not (text.startswith("{") and text.endswith("}")):
        raise ParseError("struct body expected: %r" % text[:60])
    out = []
    for decl in text[1:-1].split(";"):
        decl = " ".join(decl.split())
        if not decl:
            continue
        m = re.match(r"^(.*?)([A-Za-z_]\w*)$", decl)
        if not m:
            raise ParseError("member declaration not understood: %r" % decl)
        out.append((m.group(1).strip(), m.group(2)))
    return out


PQ_STRUCT = [("T *restrict", "root"), ("unsigned", "size")]
DQ_STRUCT = [("T *restrict", "root"), ("unsigned", "size"), ("unsigned", "modulus"), ("unsigned", "head")]
POS_STRUCT = [("uint64_t", "major"), ("uint64_t", "minor")]
FIELD = {"size": ("FSize", "f_size"), "modulus": ("FModulus", "f_modulus"), "head": ("FHead", "f_head")}


def check_structs(hdr, macros):
    s = cparse.strip_comments(hdr)
    m = re.search(r"struct\s+position\s*(\{[^}]*\})", s)
    if not m:
        raise ParseError("struct position not found")
    if struct_members(m.group(1)) != POS_STRUCT:
        raise ParseError("struct position is not {uint64_t major; uint64_t minor;}: %r" % struct_members(m.group(1)))
    for name, want in (("pqueue", PQ_STRUCT), ("deque", DQ_STRUCT)):
        if name not in macros.defs or macros.defs[name][0] != ["T"]:
            raise ParseError("#define %s(T) not found" % name)
        got = struct_members(macros.defs[name][1])
        if got != want:
            raise ParseError("members of %s(T) changed: %r (the model state of Safe/PoolVocab.v is %r)" % (name, got, want))


# --------------------------------------------------------------------------
# pos_eq / pos_lt / pos_le
# --------------------------------------------------------------------------
def gen_pos(macros):
    out = []
    for name in ("pos_eq", "pos_lt", "pos_le"):
        ps, body = macros.body(name)
        if len(ps) != 2:
            raise ParseError("%s: two parameters expected" % name)

        def leaf(e, ps=ps):
            if e[0] == "member" and not e[3] and e[1][0] == "id" and e[1][1] in ps:
                if e[2] == "major":
                    return ("(fst %s)" % e[1][1], "u64")
                if e[2] == "minor":
                    return ("(snd %s)" % e[1][1], "u64")
                raise ParseError("%s: unknown member %s" % (name, e[2]))
            return None

        def tb(e):
            k = e[0]
            if k == "un" and e[1] == "!":
                return "(negb %s)" % tb(e[2])
            if k == "bin" and e[1] in ("&&", "||"):
                return "(%s %s %s)" % (tb(e[2]), e[1], tb(e[3]))
            if k == "bin" and e[1] in ("<", ">", "<=", ">=", "==", "!="):
                a, b = leaf(e[2]), leaf(e[3])
                if a is None or b is None:
                    raise ParseError("%s: comparison of something else than .major/.minor: %r" % (name, e))
                a, b = a[0], b[0]
                return {"<": "(%s <? %s)" % (a, b), ">": "(%s <? %s)" % (b, a), "<=": "(%s <=? %s)" % (a, b),
                        ">=": "(%s <=? %s)" % (b, a), "==": "(%s =? %s)" % (a, b), "!=": "(negb (%s =? %s))" % (a, b)}[e[1]]
            if k == "call" and e[1][0] == "id" and e[1][1] in ("pos_eq", "pos_lt", "pos_le") and len(e[2]) == 2 \
                    and all(x[0] == "id" and x[1] in ps for x in e[2]):
                return "(%s %s %s)" % (e[1][1], e[2][0][1], e[2][1][1])
            raise ParseError("%s: body outside the vocabulary: %r" % (name, e))

        out.append("Definition %s (%s : pos) : bool := %s.\n" % (name, " ".join(ps), tb(body)))
    return "".join(out)


# --------------------------------------------------------------------------
# deque / pqueue macros -> lists of effects
# --------------------------------------------------------------------------
DQ_MACROS = [("deque_init", "dq_init"), ("deque_uninit", "dq_uninit"), ("size", "q_size"), ("empty", "q_empty"),
             ("dq_get", "dq_get"), ("dq_set", "dq_set"), ("shift", "dq_shift"), ("unshift", "dq_unshift"),
             ("push", "dq_push"), ("pop", "dq_pop")]
PQ_MACROS = [("pqueue_init", "pq_init"), ("pqueue_uninit", "pq_uninit"), ("peek", "pq_peek"),
             ("enqueue", "pq_enqueue"), ("dequeue", "pq_dequeue")]
PARAM_ROLES = {"q": "q", "e": "elt", "i": "num", "n": "num"}


class MacroTr:
    def __init__(self, cname, coqname, macros, fields):
        self.cname, self.coqname, self.macros, self.fields = cname, coqname, macros, fields
        ps, body = macros.body(cname)
        if not ps or ps[0] != "q":
            raise ParseError("%s: first parameter is not q" % cname)
        for p in ps:
            if p not in PARAM_ROLES:
                raise ParseError("%s: unknown parameter %s" % (cname, p))
        if sum(1 for p in ps if PARAM_ROLES[p] == "num") > 1:
            raise ParseError("%s: more than one numeric parameter" % cname)
        self.ps = ps
        self.body = macros.expand(body)
        self.ops = []          # (constructor, [extra args], gallina body or None, result type)
        self.pure = Pure(self.leaf)

    # (q).size etc.
    def is_field(self, e):
        return e[0] == "member" and not e[3] and e[1] == ("id", "q") and e[2] in FIELD

    def is_root(self, e):
        return e[0] == "member" and not e[3] and e[1] == ("id", "q") and e[2] == "root"

    def leaf(self, e):
        if self.is_field(e):
            if e[2] not in self.fields:
                raise ParseError("%s: member %s does not exist in this structure" % (self.cname, e[2]))
            return ("(%s f)" % FIELD[e[2]][1], "u")
        if e[0] == "member":
            raise ParseError("%s: member access outside the vocabulary: %r" % (self.cname, e))
        if e[0] == "id":
            if e[1] in self.ps and PARAM_ROLES[e[1]] == "num":
                return ("a", "u")       # the index / capacity argument: an `unsigned` (see DESIGN: abstracted)
            raise ParseError("%s: identifier %s in an integer expression" % (self.cname, e[1]))
        if e[0] in ("call", "index", "assign", "pre", "post", "comma", "sizeof"):
            raise ParseError("%s: side effect or call inside an integer expression: %r" % (self.cname, e))
        return None

    def emit(self, ctor, extra, body, typ):
        self.ops.append((ctor, extra, body, typ))

    def incdec(self, e):
        """++/-- on a field: returns (field, is_pre) after emitting the QSet."""
        if not self.is_field(e[2]):
            raise ParseError("%s: ++/-- on something else than a field: %r" % (self.cname, e))
        fld = e[2][2]
        if fld not in self.fields:
            raise ParseError("%s: member %s does not exist in this structure" % (self.cname, fld))
        f = "uadd" if e[1] == "++" else "usub"
        self.emit("QSet", [FIELD[fld][0]], "(%s (%s f) 1)" % (f, FIELD[fld][1]), "N")
        return fld

    def effect(self, e, last):
        """One item of the top-level comma expression."""
        k = e[0]
        if k == "comma":
            for j, x in enumerate(e[1]):
                self.effect(x, last and j == len(e[1]) - 1)
            return
        if k == "cast" and e[1] == "void":
            if e[2][0] == "num":
                return                                  # (void)0
            self.effect(e[2], False)
            return
        if k == "call" and e[1] == ("id", "assert") and len(e[2]) == 1:
            self.emit("QAssert", [], self.pure.boolean(e[2][0]), "bool")
            return
        if k == "call" and e[1] == ("id", "free") and len(e[2]) == 1 and self.is_root(e[2][0]):
            self.emit("QFree", [], None, None)
            return
        if k == "call" and e[1][0] == "id" and e[1][1] in ("up_heap", "down_heap") and len(e[2]) == 2 \
                and self.is_root(e[2][0]):
            ctor = "QUp" if e[1][1] == "up_heap" else "QDown"
            arg = e[2][1]
            if arg[0] == "post":                       # f((q).size++): the call sees the old value
                fld = arg[2][2] if self.is_field(arg[2]) else None
                if fld is None:
                    raise ParseError("%s: %r" % (self.cname, arg))
                self.emit(ctor, [], "(%s f)" % FIELD[fld][1], "N")
                self.incdec(arg)
            elif arg[0] == "pre":                      # f(--(q).size): the call sees the new value
                fld = self.incdec(arg)
                self.emit(ctor, [], "(%s f)" % FIELD[fld][1], "N")
            else:
                self.emit(ctor, [], self.pure.num(arg), "N")
            return
        if k in ("post", "pre"):
            self.incdec(e)
            if last:
                raise ParseError("%s: the value of the macro is a ++/-- expression" % self.cname)
            return
        if k == "assign":
            lhs, rhs = e[1], e[2]
            if self.is_root(lhs):
                # (q).root = xmalloc((n) * sizeof(*(q).root))
                if rhs[0] == "call" and rhs[1] == ("id", "xmalloc") and len(rhs[2]) == 1 and rhs[2][0][0] == "bin" \
                        and rhs[2][0][1] == "*" and rhs[2][0][3] == ("sizeof", ("un", "*", lhs)):
                    self.emit("QAlloc", [], self.pure.num(rhs[2][0][2]), "N")
                    return
                raise ParseError("%s: assignment to root that is not xmalloc(n * sizeof(*root)): %r" % (self.cname, rhs))
            if lhs[0] == "index" and self.is_root(lhs[1]):
                if not (rhs[0] == "id" and rhs[1] in self.ps and PARAM_ROLES[rhs[1]] == "elt"):
                    raise ParseError("%s: array element assigned something else than the parameter e: %r" % (self.cname, rhs))
                self.emit("QWrite", [], self.pure.num(lhs[2]), "N")
                return
            if self.is_field(lhs):
                fld = lhs[2]
                if fld not in self.fields:
                    raise ParseError("%s: member %s does not exist in this structure" % (self.cname, fld))
                if rhs[0] == "assign":                  # (q).head = (q).size = 0
                    if not self.is_field(rhs[1]):
                        raise ParseError("%s: chained assignment to a non-field" % self.cname)
                    self.effect(rhs, False)
                    self.emit("QSet", [FIELD[fld][0]], "(%s f)" % FIELD[rhs[1][2]][1], "N")
                else:
                    self.emit("QSet", [FIELD[fld][0]], self.pure.num(rhs), "N")
                if last:
                    raise ParseError("%s: the value of the macro is a field assignment" % self.cname)
                return
            raise ParseError("%s: assignment outside the vocabulary: %r" % (self.cname, e))
        # value items
        if k == "index" and self.is_root(e[1]):
            if not last:
                raise ParseError("%s: array read whose value is discarded" % self.cname)
            self.emit("QRead", [], self.pure.num(e[2]), "N")
            return
        if k == "un" and e[1] == "*" and self.is_root(e[2]):     # *(q).root == (q).root[0]
            if not last:
                raise ParseError("%s: array read whose value is discarded" % self.cname)
            self.emit("QRead", [], "0", "N")
            return
        if not last:
            raise ParseError("%s: expression without effect in the middle of the macro: %r" % (self.cname, e))
        g, t = self.pure.tr(e)
        if t == "b":
            self.emit("QBool", [], g, "bool")
        else:
            self.emit("QNum", [], str(g), "N")

    def run(self):
        self.effect(self.body, True)
        if not self.ops:
            raise ParseError("%s: no effect recognised" % self.cname)
        s = "(* %s(%s) *)\n" % (self.cname, ",".join(self.ps))
        names = []
        for j, (ctor, extra, body, typ) in enumerate(self.ops):
            if body is None:
                names.append(ctor)
                continue
            nm = "%s_%d" % (self.coqname, j)
            s += "Definition %s (f : qf) (a : N) : %s := %s.\n" % (nm, typ, body)
            names.append("%s %s" % (" ".join([ctor] + extra), nm))
        s += "Definition %s_prog : list qop := [%s].\n\n" % (self.coqname, "; ".join(names))
        return s


# --------------------------------------------------------------------------
# statements of up_heap / down_heap
# --------------------------------------------------------------------------
class SP:
    """Statement parser over a token list."""

    def __init__(self, toks):
        self.t = toks
        self.i = 0

    def peek(self, k=0):
        return self.t[self.i + k] if self.i + k < len(self.t) else ("eof", "")

    def eat(self, v=None):
        k, val = self.peek()
        if k == "eof" or (v is not None and val != v):
            raise ParseError("statement parser: expected %r got %r" % (v, val))
        self.i += 1
        return k, val

    def until(self, stop):
        """tokens up to the matching `stop` at depth 0 (consumed, not returned)."""
        depth = 0
        out = []
        while True:
            k, v = self.eat()
            if k == "op" and v in "([{":
                depth += 1
            elif k == "op" and v in ")]}":
                if depth == 0 and v == stop:
                    return out
                depth -= 1
            elif k == "op" and v == stop and depth == 0:
                return out
            out.append((k, v))

    def expr_of(self, toks):
        p = EP(toks)
        e = p.comma()
        if p.i != len(toks):
            raise ParseError("trailing tokens in expression: %r" % (toks[p.i:p.i + 3],))
        return e

    def paren_expr(self):
        self.eat("(")
        return self.expr_of(self.until(")"))

    def stmt(self):
        k, v = self.peek()
        if (k, v) == ("op", "{"):
            self.eat()
            items = []
            while self.peek() != ("op", "}"):
                items.append(self.stmt())
            self.eat("}")
            return ("block", items)
        if (k, v) == ("id", "if"):
            self.eat()
            c = self.paren_expr()
            a = self.stmt()
            b = None
            if self.peek() == ("id", "else"):
                self.eat()
                b = self.stmt()
            return ("if", c, a, b)
        if (k, v) == ("id", "while"):
            self.eat()
            c = self.paren_expr()
            return ("while", c, self.stmt())
        if (k, v) == ("id", "do"):
            self.eat()
            b = self.stmt()
            self.eat("while")
            c = self.paren_expr()
            self.eat(";")
            return ("dowhile", b, c)
        if (k, v) == ("id", "return"):
            self.eat()
            toks = self.until(";")
            return ("return", self.expr_of(toks) if toks else None)
        if (k, v) == ("id", "break"):
            self.eat()
            self.eat(";")
            return ("break",)
        if k == "id" and v in ("for", "switch", "goto", "continue", "case", "default"):
            raise ParseError("statement %s is outside the vocabulary" % v)
        if k == "id" and (v in TYPE_WORDS or v in ("struct", "const", "static", "register")):
            toks = self.until(";")
            eq = [j for j, t in enumerate(toks) if t == ("op", "=")]
            head = toks[:eq[0]] if eq else toks
            init = self.expr_of(toks[eq[0] + 1:]) if eq else None
            if not head or head[-1][0] != "id":
                raise ParseError("declaration not understood: %r" % (toks,))
            typ = " ".join(x[1] for x in head[:-1]).replace("* *", "**")
            return ("decl", typ, head[-1][1], init)
        toks = self.until(";")
        return ("expr", self.expr_of(toks))


def parse_function(src, name):
    params, body = cparse.find_function_body(src, name)
    sp = SP(cparse.tokenize(body))
    items = []
    while sp.peek()[0] != "eof":
        items.append(sp.stmt())
    return " ".join(params.split()), items


def unblock(s):
    """A statement as a list of statements."""
    return s[1] if s[0] == "block" else [s]


class HeapTr:
    def __init__(self, fname, macros, src):
        self.fname, self.macros = fname, macros
        self.params, self.stmts = parse_function(src, fname)
        if self.params != "void *vroot, unsigned size":
            raise ParseError("%s: parameter list changed: %r" % (fname, self.params))
        self.vars = ["size"]
        self.pure = Pure(self.leaf)
        self.k = 0

    def leaf(self, e):
        if e[0] == "id":
            if e[1] in self.vars:
                return (e[1], "u")
            raise ParseError("%s: identifier %s in an integer expression" % (self.fname, e[1]))
        if e[0] in ("call", "index", "assign", "pre", "post", "comma", "sizeof", "member"):
            raise ParseError("%s: not a pure integer expression: %r" % (self.fname, e))
        return None

    def X(self, e):
        return self.macros.expand(e)

    def num(self, e):
        return self.pure.num(self.X(e))

    def has_mem(self, e):
        if not isinstance(e, tuple):
            return False
        if e[0] == "id":
            return e[1] in ("el", "root")
        if e[0] == "num":
            return False
        return any(self.has_mem(x) if isinstance(x, tuple) else
                   (any(self.has_mem(y) for y in x) if isinstance(x, list) else False) for x in e[1:])

    def operand(self, e):
        if e[0] == "un" and e[1] == "*":
            x = e[2]
            if x == ("id", "el"):
                return "OEl"
            if x[0] == "index" and x[1] == ("id", "root"):
                return "(ORoot %s)" % self.pure.num(x[2])
        raise ParseError("%s: comparison operand is neither *el nor *root[..]: %r" % (self.fname, e))

    def cond(self, e):
        e = self.X(e)
        return self.cond1(e)

    def cond1(self, e):
        if not self.has_mem(e):
            return "(HPure %s)" % self.pure.boolean(e)
        k = e[0]
        if k == "bin" and e[1] == "&&":
            return "(HAnd %s %s)" % (self.cond1(e[2]), self.cond1(e[3]))
        if k == "bin" and e[1] == "||":
            return "(HOr %s %s)" % (self.cond1(e[2]), self.cond1(e[3]))
        if k == "un" and e[1] == "!":
            return "(HNot %s)" % self.cond1(e[2])
        if k == "call" and e[1][0] == "id" and e[1][1] in ("pos_lt", "pos_le", "pos_eq") and len(e[2]) == 2:
            c = {"pos_lt": "CmpLt", "pos_le": "CmpLe", "pos_eq": "CmpEq"}[e[1][1]]
            return "(HCmp %s %s %s)" % (c, self.operand(e[2][0]), self.operand(e[2][1]))
        raise ParseError("%s: condition outside the vocabulary: %r" % (self.fname, e))

    def pure_cond(self, e):
        e = self.X(e)
        if self.has_mem(e):
            raise ParseError("%s: this condition must not read the array: %r" % (self.fname, e))
        return self.pure.boolean(e)

    # --- statement shapes -------------------------------------------------------
    def want(self, ok, what, got):
        if not ok:
            raise ParseError("%s: expected %s, found %r" % (self.fname, what, got))

    def decl(self, s, typ, name, init_ok=False):
        self.want(s[0] == "decl" and s[1] == typ and s[2] == name and (init_ok or s[3] is None),
                  "declaration `%s %s`" % (typ, name), s)
        return s[3]

    def assign_var(self, s, var):
        """`var = E;`, `var++;`, `++var;`, `var--;`  ->  gallina of the new value."""
        self.want(s[0] == "expr", "assignment to %s" % var, s)
        e = s[1]
        if e[0] == "assign" and e[1] == ("id", var):
            return self.num(e[2])
        if e[0] in ("post", "pre") and e[2] == ("id", var):
            return "(%s %s 1)" % ("uadd" if e[1] == "++" else "usub", var)
        self.want(False, "assignment to %s" % var, s)

    def load_el(self, s):
        """`el = root[E];`"""
        self.want(s[0] == "expr" and s[1][0] == "assign" and s[1][1] == ("id", "el") and s[1][2][0] == "index"
                  and s[1][2][1] == ("id", "root"), "`el = root[..]`", s)
        return self.num(s[1][2][2])

    def move(self, s):
        """`root[A] = root[B];`"""
        self.want(s[0] == "expr" and s[1][0] == "assign" and s[1][1][0] == "index" and s[1][1][1] == ("id", "root")
                  and s[1][2][0] == "index" and s[1][2][1] == ("id", "root"), "`root[..] = root[..]`", s)
        return self.num(s[1][1][2]), self.num(s[1][2][2])

    def store_el(self, s):
        """`root[E] = el;`"""
        self.want(s[0] == "expr" and s[1][0] == "assign" and s[1][1][0] == "index" and s[1][1][1] == ("id", "root")
                  and s[1][2] == ("id", "el"), "`root[..] = el`", s)
        return self.num(s[1][1][2])

    def prologue(self):
        st = list(self.stmts)
        init = self.decl(st.pop(0), "struct position **", "root", init_ok=True)
        self.want(init == ("id", "vroot"), "`root = vroot`", init)
        self.decl(st.pop(0), "struct position *", "el")
        self.decl(st.pop(0), "unsigned", "j")
        s = st.pop(0)
        self.want(s[0] == "if" and s[3] is None and unblock(s[2]) == [("return", None)], "`if (..) return;`", s)
        ret = self.pure_cond(s[1])
        return st, ret


def D(name, params, typ, body):
    return "Definition %s (%s : N) : %s := %s.\n" % (name, " ".join(params), typ, body)


def gen_up(macros, src):
    h = HeapTr("up_heap", macros, src)
    st, ret = h.prologue()
    h.want(len(st) == 3, "three statements after the early return", [x[0] for x in st])
    s = "(* up_heap(root, size) *)\n" + D("up_ret", ["size"], "bool", ret)
    s += D("up_j0", ["size"], "N", h.assign_var(st[0], "j"))
    h.vars = ["size", "j"]
    sj = ["size", "j"]
    s += D("up_el_ix", sj, "N", h.load_el(st[1]))
    top = st[2]
    h.want(top[0] == "if" and top[3] is None, "`if (pos_lt(..)) { do .. while; root[j] = el; }`", top)
    s += D("up_enter", sj, "hcond", h.cond(top[1]))
    inner = unblock(top[2])
    h.want(len(inner) == 2 and inner[0][0] == "dowhile", "do-while followed by the final store", inner)
    body = unblock(inner[0][1])
    h.want(len(body) == 2, "two statements in the loop body", body)
    dst, srcx = h.move(body[0])
    s += D("up_mv_dst", sj, "N", dst) + D("up_mv_src", sj, "N", srcx)
    s += D("up_next", sj, "N", h.assign_var(body[1], "j"))
    s += D("up_cont", sj, "hcond", h.cond(inner[0][2]))
    s += D("up_fin_ix", sj, "N", h.store_el(inner[1]))
    return s + "\n"


def gen_down(macros, src):
    h = HeapTr("down_heap", macros, src)
    st, ret = h.prologue()
    h.want(len(st) == 5, "five statements after the early return", [x[0] for x in st])
    s = "(* down_heap(root, size) *)\n" + D("down_ret", ["size"], "bool", ret)
    s += D("down_el_ix", ["size"], "N", h.load_el(st[0]))
    dst, srcx = h.move(st[1])
    s += D("down_sv_dst", ["size"], "N", dst) + D("down_sv_src", ["size"], "N", srcx)
    s += D("down_j0", ["size"], "N", h.assign_var(st[2], "j"))
    h.vars = ["size", "j"]
    sj = ["size", "j"]
    loop = st[3]
    h.want(loop[0] == "while", "while loop", loop)
    s += D("down_loop", sj, "bool", h.pure_cond(loop[1]))
    body = unblock(loop[2])
    h.want(len(body) == 5, "five statements in the loop body", body)
    init = h.decl(body[0], "unsigned", "child", init_ok=True)
    h.want(init is not None, "initialiser of child", body[0])
    s += D("down_child0", sj, "N", h.num(init))
    h.vars = ["size", "j", "child"]
    sjc = ["size", "j", "child"]
    sel = body[1]
    h.want(sel[0] == "if" and sel[3] is None and len(unblock(sel[2])) == 1, "`if (..) child++;`", sel)
    s += D("down_sel", sjc, "hcond", h.cond(sel[1]))
    s += D("down_child1", sjc, "N", h.assign_var(unblock(sel[2])[0], "child"))
    brk = body[2]
    h.want(brk[0] == "if" and brk[3] is None and unblock(brk[2]) == [("break",)], "`if (..) break;`", brk)
    s += D("down_brk", sjc, "hcond", h.cond(brk[1]))
    dst, srcx = h.move(body[3])
    s += D("down_mv_dst", sjc, "N", dst) + D("down_mv_src", sjc, "N", srcx)
    s += D("down_next", sjc, "N", h.assign_var(body[4], "j"))
    h.vars = ["size", "j"]
    s += D("down_fin_ix", sj, "N", h.store_el(st[4]))
    return s + "\n"


# --------------------------------------------------------------------------
def gen(repo):
    hdr = read(repo, "src/process.h")
    csrc = read(repo, "src/process.c")
    common = read(repo, "src/common.h")
    macros = Macros([common, hdr, csrc], expandable=("min", "max", "empty", "size", "parent", "left"))
    check_structs(hdr, macros)
    s = "From LBZ Require Import Safe.PoolVocab.\nLocal Open Scope bool_scope.\n\n"
    s += "(* process.h: struct position { uint64_t major; uint64_t minor; } read as (major, minor) *)\n"
    s += gen_pos(macros) + "\n"
    s += "(* process.h: members of struct deque(T) / struct pqueue(T) *)\n"
    s += "Definition dq_members : list string := [%s]%%string.\n" % "; ".join('"%s"' % n for _, n in DQ_STRUCT)
    s += "Definition pq_members : list string := [%s]%%string.\n\n" % "; ".join('"%s"' % n for _, n in PQ_STRUCT)
    for cname, coqname in DQ_MACROS:
        s += MacroTr(cname, coqname, macros, ("size", "modulus", "head")).run()
    for cname, coqname in PQ_MACROS:
        s += MacroTr(cname, coqname, macros, ("size",)).run()
    s += gen_up(macros, csrc)
    s += gen_down(macros, csrc)
    s += "(* helper macros expanded from their current definitions: %s *)\n" % ", ".join(macros.used)
    return s


def generate(repo, out):
    out.write("PoolTab.v", "src/process.h src/process.c src/common.h", lambda: gen(repo))


if __name__ == "__main__":
    # stand-alone: gen_pool.py [--repo DIR] [--out DIR]   (writes DIR/PoolTab.v, else prints)
    import gen_from_source
    repo, outdir = "/repo", None
    args = sys.argv[1:]
    while args:
        a = args.pop(0)
        if a == "--repo":
            repo = args.pop(0)
        elif a == "--out":
            outdir = args.pop(0)
    if outdir is None:
        sys.stdout.write(gen(repo))
    else:
        os.makedirs(outdir, exist_ok=True)
        o = gen_from_source.Out(outdir)
        generate(repo, o)
        print(o.status)
