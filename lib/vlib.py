"""Shared machinery of the ./check driver: regeneration, proof build, harness
builds, evidence, replay files, known findings."""
import fcntl
import glob
import hashlib
import json
import os
import re
import shutil
import subprocess
import sys
import time

VERIF = os.path.dirname(os.path.dirname(os.path.abspath(__file__)))
REPO = os.environ.get("VERIF_REPO", "/repo")
COQ = os.path.join(VERIF, "coq")
WORK = os.path.join(VERIF, ".work")
EVID = os.path.join(VERIF, "evidence")
if os.path.realpath(REPO) != "/repo":
    # Scratch run against another source tree (mutation testing): work on a private
    # copy of the Coq tree and a private build directory so that the shared tree,
    # its generated files and the registered evidence are left alone.
    _tag = hashlib.sha256(os.path.realpath(REPO).encode()).hexdigest()[:10]
    WORK = os.path.join(VERIF, ".work", "alt", _tag)
    EVID = os.path.join(WORK, "evidence")
    os.makedirs(WORK, exist_ok=True)
    subprocess.run(["rsync", "-a", "--delete", "--exclude", "Makefile.coq*", "--exclude", ".Makefile.coq.d",
                    "--exclude", "_CoqProject", os.path.join(VERIF, "coq") + "/", os.path.join(WORK, "coq") + "/"], check=True)
    COQ = os.path.join(WORK, "coq")
GUARD = "KJN_LBZIP2_VERIF"
NCPU = os.cpu_count() or 4

FORBIDDEN = re.compile(
    r"\b(Admitted|admit|Axiom|Axioms|Parameter|Parameters|Conjecture|Admit\s+Obligations|"
    r"Unset\s+Guard\s+Checking|Unset\s+Positivity\s+Checking|Unset\s+Universe\s+Checking|"
    r"bypass_check|type-in-type|impredicative-set|native_compute)\b")


class SplitMix:
    """One PRNG state for every random choice (replayable from VERIF_SEED)."""

    def __init__(self, seed):
        self.s = (seed * 0x9E3779B97F4A7C15 + 0x1234567) & 0xFFFFFFFFFFFFFFFF

    def next(self):
        self.s = (self.s + 0x9E3779B97F4A7C15) & 0xFFFFFFFFFFFFFFFF
        z = self.s
        z = ((z ^ (z >> 30)) * 0xBF58476D1CE4E5B9) & 0xFFFFFFFFFFFFFFFF
        z = ((z ^ (z >> 27)) * 0x94D049BB133111EB) & 0xFFFFFFFFFFFFFFFF
        return z ^ (z >> 31)

    def below(self, n):
        return self.next() % n if n > 0 else 0

    def range(self, a, b):
        return a + self.below(b - a + 1)

    def choice(self, xs):
        return xs[self.below(len(xs))]

    def chance(self, num, den):
        return self.below(den) < num

    def bytes(self, n, alpha=256):
        return bytes(self.below(alpha) for _ in range(n))

    def shuffle(self, xs):
        xs = list(xs)
        for i in range(len(xs) - 1, 0, -1):
            j = self.below(i + 1)
            xs[i], xs[j] = xs[j], xs[i]
        return xs


def sh(cmd, timeout=600, cwd=None, env=None, input=None, check=False):
    """Run a command, return (rc, stdout, stderr) with text output."""
    e = dict(os.environ)
    if env:
        e.update(env)
    try:
        p = subprocess.run(cmd, cwd=cwd, env=e, input=input, timeout=timeout,
                           stdout=subprocess.PIPE, stderr=subprocess.PIPE,
                           shell=isinstance(cmd, str))
        out = p.stdout.decode("latin-1") if isinstance(p.stdout, bytes) else p.stdout
        err = p.stderr.decode("latin-1") if isinstance(p.stderr, bytes) else p.stderr
        rc = p.returncode
    except subprocess.TimeoutExpired as ex:
        out = (ex.stdout or b"").decode("latin-1")
        err = (ex.stderr or b"").decode("latin-1") + "\n[timeout after %ss]" % timeout
        rc = 124
    if check and rc != 0:
        raise RuntimeError("command failed (%s): %s\n%s\n%s" % (rc, cmd, out[-3000:], err[-3000:]))
    return rc, out, err


# A mutated lbzip2 that hangs must not make a check run for hours: after HANG_BUDGET runs of the program under test have hit their
# watchdog, further runs get a short watchdog (the hang has been observed and will be reported; the remaining runs are then only
# there to find out whether anything else differs).
HANG_BUDGET = 8
HANG_SHORT = 10
_hangs = [0]


def hang_timeout(timeout):
    return min(timeout, HANG_SHORT) if _hangs[0] >= HANG_BUDGET else timeout


def note_hang():
    _hangs[0] += 1


def _is_program_under_test(cmd):
    try:
        return os.path.basename(cmd[0]).startswith("lbzip2") or (cmd[0] in ("prlimit", "timeout") and any(
            os.path.basename(str(c)).startswith("lbzip2") for c in cmd[1:4]))
    except Exception:
        return False


def shb(cmd, timeout=600, cwd=None, env=None, input=None):
    """Like sh but returns bytes stdout/stderr."""
    e = dict(os.environ)
    if env:
        e.update(env)
    put = isinstance(cmd, (list, tuple)) and _is_program_under_test(cmd)
    if put:
        timeout = hang_timeout(timeout)
    try:
        p = subprocess.run(cmd, cwd=cwd, env=e, input=input, timeout=timeout,
                           stdout=subprocess.PIPE, stderr=subprocess.PIPE)
        return p.returncode, p.stdout, p.stderr
    except subprocess.TimeoutExpired as ex:
        if put:
            note_hang()
        return 124, ex.stdout or b"", (ex.stderr or b"") + b"[timeout]"


class Lock:
    """Serialises regeneration + proof build across concurrently running checks."""

    def __init__(self, name="coq"):
        os.makedirs(WORK, exist_ok=True)
        self.path = os.path.join(WORK, "lock." + name)

    def __enter__(self):
        self.f = open(self.path, "w")
        fcntl.flock(self.f, fcntl.LOCK_EX)
        return self

    def __exit__(self, *a):
        fcntl.flock(self.f, fcntl.LOCK_UN)
        self.f.close()


# ---------------------------------------------------------------------------
# tie 1: regeneration
# ---------------------------------------------------------------------------
def regenerate():
    """Re-run the translator on /repo/src; returns GEN_STATUS dict."""
    rc, out, err = sh([sys.executable, os.path.join(VERIF, "lib", "gen_from_source.py"),
                       "--repo", REPO, "--out", os.path.join(COQ, "Gen")], timeout=300)
    st = {}
    try:
        with open(os.path.join(COQ, "Gen", "GEN_STATUS.json")) as f:
            st = json.load(f)
    except Exception:
        pass
    if rc != 0:
        st["__translator__"] = {"ok": False, "error": (out + err)[-2000:]}
    return st


# ---------------------------------------------------------------------------
# proof build
# ---------------------------------------------------------------------------
def coq_files():
    fs = []
    for root, dirs, files in os.walk(COQ):
        dirs[:] = [d for d in dirs if not d.startswith(".")]
        for f in files:
            if f.endswith(".v"):
                fs.append(os.path.relpath(os.path.join(root, f), COQ))
    return sorted(fs)


def ensure_makefile():
    proj = os.path.join(COQ, "_CoqProject")
    want = "-Q . LBZ\n-arg -w -arg -notation-overridden,-deprecated-hint-without-locality,-deprecated-instance-without-locality\n" + \
        "\n".join(coq_files()) + "\n"
    old = open(proj).read() if os.path.exists(proj) else None
    if old != want or not os.path.exists(os.path.join(COQ, "Makefile.coq")):
        with open(proj, "w") as f:
            f.write(want)
        sh(["coq_makefile", "-f", "_CoqProject", "-o", "Makefile.coq"], cwd=COQ, check=True)


def module_deps(relv, seen=None):
    """Dependency cone (LBZ.* modules) of a .v file, by reading Require lines."""
    if seen is None:
        seen = set()
    if relv in seen:
        return seen
    seen.add(relv)
    try:
        txt = open(os.path.join(COQ, relv)).read()
    except FileNotFoundError:
        return seen
    txt = strip_coq_comments(txt)
    for m in re.finditer(r"(?:From\s+([\w.]+)\s+)?Require\s+(?:Import\s+|Export\s+)?((?:[A-Za-z_]\w*(?:\.[A-Za-z_]\w*)*\s*)+)\.(?=\s|$)", txt):
        frm = m.group(1)
        for mod in m.group(2).split():
            full = (frm + "." + mod) if frm else mod
            parts = full.split(".")
            if parts[0] != "LBZ":
                continue
            cand = os.path.join(*parts[1:]) + ".v"
            if os.path.exists(os.path.join(COQ, cand)):
                module_deps(cand, seen)
    return seen


def strip_coq_comments(txt):
    out = []
    depth = 0
    i = 0
    instr = False
    while i < len(txt):
        if not instr and txt.startswith("(*", i):
            depth += 1
            i += 2
            continue
        if not instr and depth and txt.startswith("*)", i):
            depth -= 1
            i += 2
            continue
        if depth == 0:
            if txt[i] == '"':
                instr = not instr
            out.append(txt[i])
        i += 1
    return "".join(out)


def coq_build(targets, timeout=1500):
    """make -k the given .vo targets (paths relative to coq/).  Returns dict:
    ok, failed (list of .v whose compilation failed), log."""
    ensure_makefile()
    t0 = time.time()
    rc, out, err = sh(["timeout", str(timeout), "make", "-f", "Makefile.coq", "-k", "-j%d" % NCPU] + targets,
                      cwd=COQ, timeout=timeout + 30)
    log = out + err
    failed = []
    for m in re.finditer(r'File "\./([^"]+\.v)", line (\d+)[^\n]*\n((?:[^\n]*\n){0,12}?)(?=File "|make|\Z)', log):
        if "Error" in m.group(3) or "Error" in log[m.end():m.end() + 200]:
            failed.append((m.group(1), int(m.group(2)), m.group(3).strip()[:600]))
    for m in re.finditer(r"make(?:\[\d+\])?: \*\*\* \[[^\]]*?: ([^\]\s]+\.vo)\]", log):
        v = m.group(1)[:-1]
        if not any(f[0] == v for f in failed):
            failed.append((v, 0, "make target failed"))
    missing = [t for t in targets if not os.path.exists(os.path.join(COQ, t))]
    return {"ok": rc == 0 and not missing, "rc": rc, "failed": failed, "missing": missing,
            "log": log[-6000:], "wall_s": round(time.time() - t0, 2)}


def count_obligations(cone):
    """Number of proof scripts (Lemma/Theorem/... closed by Qed/Defined) in cone."""
    n = 0
    names = []
    for relv in sorted(cone):
        txt = strip_coq_comments(open(os.path.join(COQ, relv)).read())
        for m in re.finditer(r"\b(Lemma|Theorem|Corollary|Example|Fact|Remark|Proposition)\s+([A-Za-z_][\w']*)", txt):
            n += 1
            names.append(relv + ":" + m.group(2))
    return n, names


def forbidden_scan(cone):
    bad = []
    for relv in sorted(cone):
        if relv.startswith("Gen/"):
            pass
        txt = strip_coq_comments(open(os.path.join(COQ, relv)).read())
        # remove string literals
        txt = re.sub(r'"[^"]*"', '""', txt)
        for m in FORBIDDEN.finditer(txt):
            line = txt.count("\n", 0, m.start()) + 1
            bad.append("%s:%d:%s" % (relv, line, m.group(0)))
        for m in re.finditer(r"^\s*(Variable|Variables|Hypothesis|Hypotheses|Context)\b", txt, re.M):
            # allowed only inside a Section
            before = txt[:m.start()]
            opened = len(re.findall(r"^\s*Section\s+\w+", before, re.M))
            closed = len(re.findall(r"^\s*End\s+\w+", before, re.M))
            mods = len(re.findall(r"^\s*Module\s+(?:Type\s+)?\w+", before, re.M))
            if opened - (closed - mods) <= 0 and opened - closed <= 0:
                line = before.count("\n") + 1
                bad.append("%s:%d:%s outside section" % (relv, line, m.group(1)))
    return bad


def theorem_names(relv):
    txt = strip_coq_comments(open(os.path.join(COQ, relv)).read())
    return [m.group(2) for m in re.finditer(r"\b(Theorem|Corollary)\s+([A-Za-z_][\w']*)", txt)]


def print_assumptions(prop_mod, names, workdir):
    """Ask coqc for Print Assumptions of each named theorem (loads compiled .vo)."""
    os.makedirs(workdir, exist_ok=True)
    path = os.path.join(workdir, "Assum.v")
    with open(path, "w") as f:
        f.write("Require Import LBZ.%s.\n" % prop_mod)
        for n in names:
            f.write('Goal True. idtac "@@ %s". Abort.\nPrint Assumptions %s.\n' % (n, n))
    rc, out, err = sh(["timeout", "300", "coqc", "-Q", COQ, "LBZ", path], cwd=workdir, timeout=330)
    res = {}
    cur = None
    for line in (out + "\n" + err).splitlines():
        if line.startswith("@@ "):
            cur = line[3:].strip()
            res[cur] = []
        elif cur is not None and line.strip():
            res[cur].append(line.rstrip())
    ok = rc == 0
    return ok, {k: "\n".join(v) for k, v in res.items()}, (out + err)[-2000:]


# ---------------------------------------------------------------------------
# building the implementation and harnesses from /repo's working tree
# ---------------------------------------------------------------------------
SRC_FILES = ["compress.c", "crctab.c", "decode.c", "divbwt.c", "encode.c", "expand.c",
             "main.c", "parse.c", "process.c", "signals.c", "timespec.c"]
BASE_DEFS = ["-D_XOPEN_SOURCE=700", "-D_FILE_OFFSET_BITS=64", '-DPACKAGE_NAME="lbzip2"',
             '-DPACKAGE_VERSION="devel"', "-std=c99"]


def src_digest(extra=""):
    h = hashlib.sha256()
    for f in sorted(glob.glob(os.path.join(REPO, "src", "*.[ch]"))):
        h.update(f.encode())
        h.update(open(f, "rb").read())
    h.update(extra.encode())
    return h.hexdigest()[:16]


def build_lbzip2(flavor="rel", hooks=True):
    """Compile the real program from /repo/src (current working tree) into
    .work/bin/lbzip2-<flavor>.  flavors: rel (-O2 -DNDEBUG, like the baseline),
    dbg (-O1, asserts on), asan, tsan.  Cached on the digest of the sources."""
    os.makedirs(os.path.join(WORK, "bin"), exist_ok=True)
    flags = {
        "rel": ["-O2", "-g", "-DNDEBUG"],
        "dbg": ["-O1", "-g"],
        "asan": ["-O1", "-g", "-DNDEBUG", "-fsanitize=address,undefined", "-fno-sanitize-recover=all", "-fno-omit-frame-pointer"],
        "asan-dbg": ["-O1", "-g", "-fsanitize=address,undefined", "-fno-sanitize-recover=all", "-fno-omit-frame-pointer"],
        "tsan": ["-O1", "-g", "-DNDEBUG", "-fsanitize=thread"],
    }[flavor]
    cc = "clang" if flavor in ("tsan",) else "gcc"
    defs = BASE_DEFS + (["-D" + GUARD] if hooks else [])
    dig = src_digest(flavor + str(hooks))
    exe = os.path.join(WORK, "bin", "lbzip2-%s%s" % (flavor, "" if hooks else "-nohook"))
    stamp = exe + ".stamp"
    if os.path.exists(exe) and os.path.exists(stamp) and open(stamp).read() == dig:
        return exe
    with Lock("build-" + flavor):
        if os.path.exists(exe) and os.path.exists(stamp) and open(stamp).read() == dig:
            return exe
        srcs = [os.path.join(REPO, "src", f) for f in SRC_FILES]
        tmp = exe + ".tmp%d" % os.getpid()
        rc, out, err = sh([cc] + flags + defs + ["-w", "-o", tmp] + srcs + ["-lpthread"], timeout=600)
        if rc != 0:
            raise BuildError("lbzip2 (%s) does not compile:\n%s" % (flavor, (out + err)[-3000:]))
        os.replace(tmp, exe)
        with open(stamp, "w") as f:
            f.write(dig)
    return exe


class BuildError(Exception):
    pass


def build_c(name, sources, extra_flags=(), libs=(), flavor="dbg", cc="gcc"):
    """Compile a C harness (paths relative to /verif/harness unless absolute)
    against /repo/src headers/sources, cached on source digests."""
    os.makedirs(os.path.join(WORK, "bin"), exist_ok=True)
    exe = os.path.join(WORK, "bin", name)
    srcs = [s if os.path.isabs(s) else os.path.join(VERIF, "harness", s) for s in sources]
    h = hashlib.sha256()
    for s in srcs:
        h.update(open(s, "rb").read())
    dig = src_digest(h.hexdigest() + flavor + " ".join(extra_flags) + " ".join(libs))
    stamp = exe + ".stamp"
    if os.path.exists(exe) and os.path.exists(stamp) and open(stamp).read() == dig:
        return exe
    flags = {"dbg": ["-O1", "-g"], "rel": ["-O2", "-g", "-DNDEBUG"],
             "asan": ["-O1", "-g", "-fsanitize=address,undefined", "-fno-sanitize-recover=all"],
             "asan-ndebug": ["-O1", "-g", "-DNDEBUG", "-fsanitize=address,undefined", "-fno-sanitize-recover=all"]}[flavor]
    with Lock("build-" + name):
        tmp = exe + ".tmp%d" % os.getpid()
        rc, out, err = sh([cc] + flags + BASE_DEFS + ["-D" + GUARD, "-w", "-I", os.path.join(REPO, "src")] + list(extra_flags) +
                          ["-o", tmp] + srcs + list(libs), timeout=600)
        if rc != 0:
            raise BuildError("harness %s does not compile:\n%s" % (name, (out + err)[-3000:]))
        os.replace(tmp, exe)
        with open(stamp, "w") as f:
            f.write(dig)
    return exe


def build_ocaml(name, ml_dir, modules, driver):
    """Build an extracted-model driver with ocamlfind ocamlopt.
    modules: list of basenames (without extension) in dependency order, located in ml_dir."""
    exe = os.path.join(WORK, "bin", name)
    os.makedirs(os.path.join(WORK, "bin"), exist_ok=True)
    files = []
    h = hashlib.sha256()
    for m in modules:
        for ext in (".mli", ".ml"):
            p = os.path.join(ml_dir, m + ext)
            if os.path.exists(p):
                files.append(p)
                h.update(open(p, "rb").read())
    dpath = driver if os.path.isabs(driver) else os.path.join(VERIF, "harness", driver)
    h.update(open(dpath, "rb").read())
    dig = h.hexdigest()
    stamp = exe + ".stamp"
    real = exe + ".bin"
    h.update(b"wrapper-v1")
    dig = h.hexdigest()
    if os.path.exists(exe) and os.path.exists(real) and os.path.exists(stamp) and open(stamp).read() == dig:
        return exe
    bdir = os.path.join(WORK, "ocaml-" + name)
    shutil.rmtree(bdir, ignore_errors=True)
    os.makedirs(bdir)
    local = []
    for p in files + [dpath]:
        shutil.copy(p, bdir)
        local.append(os.path.basename(p))
    rc, out, err = sh(["ocamlfind", "ocamlopt", "-O3", "-unboxed-types"] if False else
                      ["ocamlfind", "ocamlopt", "-w", "-a", "-package", "unix", "-linkpkg", "-o", real] + local,
                      cwd=bdir, timeout=600)
    if rc != 0:
        raise BuildError("ocaml driver %s does not compile:\n%s" % (name, (out + err)[-3000:]))
    # extracted structural recursion over long lists is not tail recursive: give the driver a large stack
    with open(exe + ".tmp", "w") as f:
        f.write('#!/bin/sh\nulimit -s unlimited 2>/dev/null || ulimit -s 4000000 2>/dev/null || ulimit -s $(ulimit -H -s) 2>/dev/null\n'
                'exec "%s" "$@"\n' % real)
    os.chmod(exe + ".tmp", 0o755)
    os.replace(exe + ".tmp", exe)
    with open(stamp, "w") as f:
        f.write(dig)
    return exe


# ---------------------------------------------------------------------------
# known findings, replay, evidence
# ---------------------------------------------------------------------------
def known_findings():
    p = os.path.join(VERIF, "known_findings.json")
    if not os.path.exists(p):
        return {"known": [], "fixed": []}
    return json.load(open(p))


def write_replay(pid, name, payload):
    d = os.path.join(WORK, "replay", pid)
    os.makedirs(d, exist_ok=True)
    path = os.path.join(d, name)
    with open(path, "w") as f:
        json.dump(payload, f, indent=1, default=lambda o: o.hex() if isinstance(o, (bytes, bytearray)) else str(o))
    return path


def write_evidence(pid, tier, seed, level, coverage, assumptions, wall_s, violations):
    os.makedirs(EVID, exist_ok=True)
    ev = {
        "property_id": pid, "tier": tier, "seed": seed, "level": level,
        "coverage": coverage, "assumptions": assumptions,
        "wall_s": round(wall_s, 2), "violations": violations,
    }
    tmp = os.path.join(EVID, pid + ".json.tmp")
    with open(tmp, "w") as f:
        json.dump(ev, f, indent=1, default=lambda o: o.hex() if isinstance(o, (bytes, bytearray)) else str(o))
    os.replace(tmp, os.path.join(EVID, pid + ".json"))
    return ev
