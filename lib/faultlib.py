"""Helpers around the LD_PRELOAD fault-injection shim harness/faultinj.c.

build_faultinj()            -> path of /verif/.work/bin/faultinj.so (cached on the source digest)
fi_env(...)                 -> environment dict for one injection plan
parse_log(path_or_text)     -> list of dicts, one per logged wrapped call
run_filter(argv, data, env) -> run a program as stdin->stdout filter under a watchdog

The interface of the shim (FI_CALL, FI_FDCLASS, FI_NTH, FI_STICKY, FI_ERRNO,
FI_SIGNAL_TOO, FI_RAISE, FI_KILL, FI_SHORT, FI_LOG) is documented at the top of
harness/faultinj.c.
"""
import hashlib
import os
import re
import selectors
import subprocess
import tempfile
import threading
import time

import vlib


def build_faultinj():
    """Compile harness/faultinj.c into a shared object; cached on its digest."""
    src = os.path.join(vlib.VERIF, "harness", "faultinj.c")
    bindir = os.path.join(vlib.WORK, "bin")
    os.makedirs(bindir, exist_ok=True)
    so = os.path.join(bindir, "faultinj.so")
    stamp = so + ".stamp"
    flags = ["-O2", "-g", "-shared", "-fPIC", "-Wall"]
    dig = hashlib.sha256(open(src, "rb").read() + " ".join(flags).encode()).hexdigest()[:16]
    if os.path.exists(so) and os.path.exists(stamp) and open(stamp).read() == dig:
        return so
    with vlib.Lock("build-faultinj"):
        if os.path.exists(so) and os.path.exists(stamp) and open(stamp).read() == dig:
            return so
        tmp = so + ".tmp%d" % os.getpid()
        rc, out, err = vlib.sh(["gcc"] + flags + ["-o", tmp, src, "-ldl", "-lpthread"], timeout=300)
        if rc != 0:
            raise vlib.BuildError("faultinj.so does not compile:\n%s" % (out + err)[-3000:])
        os.replace(tmp, so)
        with open(stamp, "w") as f:
            f.write(dig)
    return so


def fi_env(call=None, fdclass=None, nth=None, err=None, signal_too=False, raise_sig=None,
           kill=False, short=None, log=None, sticky=False, base=None):
    """Environment for one run under the shim (only FI_* and LD_PRELOAD are set)."""
    env = dict(base or {})
    env["LD_PRELOAD"] = build_faultinj()
    if call is not None:
        env["FI_CALL"] = call
    if fdclass is not None:
        env["FI_FDCLASS"] = fdclass
    if nth is not None:
        env["FI_NTH"] = str(nth)
    if err is not None:
        env["FI_ERRNO"] = str(err)
    if signal_too:
        env["FI_SIGNAL_TOO"] = "1"
    if raise_sig is not None:
        env["FI_RAISE"] = str(raise_sig)
    if kill:
        env["FI_KILL"] = "1"
    if short is not None:
        env["FI_SHORT"] = str(short)
    if sticky:
        env["FI_STICKY"] = "1"
    if log is not None:
        env["FI_LOG"] = log
    return env


LOG_RE = re.compile(r"^(\w+) (\w+) fd=(-?\d+) n=(\d+) all=(\d+) t=(main|sub):(\d+) req=(\S+) ret=(\S+) errno=(\d+)(?: INJ:(\S+))?$")


def parse_log(src):
    """Parse an FI_LOG file (path) or its text into a list of dicts, in file order."""
    if "\n" not in src and os.path.exists(src):
        with open(src, errors="replace") as f:
            src = f.read()
    out = []
    for line in src.splitlines():
        m = LOG_RE.match(line.strip())
        if not m:
            continue
        out.append({"call": m.group(1), "cls": m.group(2), "fd": int(m.group(3)), "n": int(m.group(4)),
                    "all": int(m.group(5)), "main": m.group(6) == "main", "tid": int(m.group(7)),
                    "req": None if m.group(8) == "-" else int(m.group(8)),
                    "ret": None if m.group(9) == "?" else int(m.group(9)),
                    "errno": int(m.group(10)), "inj": m.group(11)})
    return out


def run_filter(argv, data, env=None, timeout=10.0, stdout_limit=None, sigpipe="default", keep_env=()):
    """Run argv with `data` on stdin and stdout captured, under a watchdog.

    Returns dict: rc (exit status or None), sig (terminating signal or None), hung (bool),
    out, err (bytes), wall_s.  The child gets a minimal environment (PATH + env + selected
    keep_env names) so that BZIP2/LBZIP2 variables of the caller do not leak in.
    sigpipe: 'default' or 'ignore' -- disposition of SIGPIPE/SIGXFSZ inherited by the child
    ('ignore' goes through `sh -c 'trap "" PIPE XFSZ; exec "$@"'`; no preexec_fn, so this is
    safe to call from several python threads).
    stdout_limit: if not None, read only that many bytes from the child's stdout and then
    close the read end (a genuinely early-closed pipe, like `| head -c k`).
    A run that is still alive after `timeout` seconds with every thread asleep is killed and
    reported as hung; if some thread is runnable (overloaded machine) and the child has used
    little CPU so far, the deadline is extended, at most 6 times."""
    e = {"PATH": os.environ.get("PATH", "/usr/bin:/bin")}
    for k in keep_env:
        if k in os.environ:
            e[k] = os.environ[k]
    if env:
        e.update(env)
    if sigpipe == "ignore":
        argv = ["/bin/sh", "-c", 'trap "" PIPE XFSZ; exec "$@"', "sh"] + list(argv)
    t0 = time.time()
    err_cap = 1 << 18
    with tempfile.TemporaryFile() as fin:
        fin.write(data)
        fin.seek(0)
        p = subprocess.Popen(argv, stdin=fin, stdout=subprocess.PIPE, stderr=subprocess.PIPE, env=e, close_fds=True,
                             start_new_session=True)

    def busy(pid):
        """True if some thread of the child is runnable or in disk wait, i.e. the child is
        slow (machine overloaded) rather than stuck.  A hung process has every thread asleep."""
        try:
            for t in os.listdir("/proc/%d/task" % pid):
                with open("/proc/%d/task/%s/stat" % (pid, t)) as f:
                    st = f.read().rsplit(")", 1)[1].split()[0]
                if st in ("R", "D"):
                    return True
        except Exception:
            pass
        return False

    def cpu_seconds(pid):
        try:
            with open("/proc/%d/stat" % pid) as f:
                fs = f.read().rsplit(")", 1)[1].split()
            return (int(fs[11]) + int(fs[12])) / float(os.sysconf("SC_CLK_TCK"))
        except Exception:
            return 0.0

    out = bytearray()
    err = bytearray()
    hung = False
    runaway = False
    extensions = 0
    deadline = t0 + timeout
    sel = selectors.DefaultSelector()
    fo, fe = p.stdout.fileno(), p.stderr.fileno()
    sel.register(fo, selectors.EVENT_READ, "out")
    sel.register(fe, selectors.EVENT_READ, "err")
    open_fds = {"out": fo, "err": fe}
    if stdout_limit is not None and stdout_limit == 0:
        sel.unregister(fo)
        p.stdout.close()
        del open_fds["out"]
    try:
        while (open_fds and not (hung and p.poll() is not None)) or p.poll() is None:
            now = time.time()
            exited = p.poll() is not None
            if open_fds:
                events = sel.select(timeout=0.05 if exited else max(0.0, min(0.25, deadline - now)))
                if exited and not events:
                    break                           # the child is gone; whoever still holds the pipes is not our business
            else:
                events = []
                time.sleep(0.01)
            for key, _ in events:
                which = key.data
                try:
                    chunk = os.read(key.fd, 65536)
                except OSError:
                    chunk = b""
                if not chunk:
                    sel.unregister(key.fd)
                    (p.stdout if which == "out" else p.stderr).close()
                    del open_fds[which]
                    continue
                if which == "out":
                    if stdout_limit is not None:
                        chunk = chunk[:max(0, stdout_limit - len(out))]
                    out += chunk
                    if stdout_limit is not None and len(out) >= stdout_limit:
                        sel.unregister(key.fd)      # the reader goes away: a genuinely closed pipe
                        p.stdout.close()
                        del open_fds["out"]
                else:
                    if len(err) < err_cap:
                        err += chunk[:err_cap - len(err)]
                    else:
                        runaway = True              # flooding stderr: certainly not terminating promptly
            if p.poll() is None and (runaway or time.time() > deadline):
                if (not runaway and extensions < 6 and cpu_seconds(p.pid) < max(3.0, timeout / 2)
                        and any(busy(p.pid) or time.sleep(0.05) for _ in range(10))):
                    extensions += 1                 # overloaded machine, not a hang
                    deadline = time.time() + timeout
                else:
                    hung = True
                    try:
                        os.killpg(p.pid, 9)
                    except Exception:
                        try:
                            p.kill()
                        except Exception:
                            pass
                    deadline = time.time() + 3600
        p.wait()
    finally:
        for f in (p.stdout, p.stderr):
            try:
                if f and not f.closed:
                    f.close()
            except Exception:
                pass
        sel.close()
        if p.poll() is None:
            p.kill()
            p.wait()
    rc = p.returncode
    return {"rc": rc if (rc is not None and rc >= 0 and not hung) else None,
            "sig": -rc if (rc is not None and rc < 0 and not hung) else None,
            "hung": hung, "runaway": runaway, "out": bytes(out), "err": bytes(err),
            "wall_s": round(time.time() - t0, 3), "extensions": extensions}
