"""Helpers around the LD_PRELOAD fault-injection shim harness/faultinj.c.

build_faultinj()            -> path of /verif/.work/bin/faultinj.so (cached on the source digest)
fi_env(...)                 -> environment dict for one injection plan
parse_log(path_or_text)     -> list of dicts, one per logged wrapped call
run_filter(argv, data, env) -> run a program as stdin->stdout filter under a watchdog

The interface of the shim (FI_CALL, FI_FDCLASS, FI_NTH, FI_STICKY, FI_ERRNO,
FI_SIGNAL_TOO, FI_RAISE, FI_KILL, FI_SHORT, FI_LOG) is documented at the top of
harness/faultinj.c.
"""
import hashlib
import os
import re
import subprocess
import tempfile
import threading
import time

import vlib


def build_faultinj():
    """Compile harness/faultinj.c into a shared object; cached on its digest."""
    src = os.path.join(vlib.VERIF, "harness", "faultinj.c")
    bindir = os.path.join(vlib.WORK, "bin")
    os.makedirs(bindir, exist_ok=True)
    so = os.path.join(bindir, "faultinj.so")
    stamp = so + ".stamp"
    flags = ["-O2", "-g", "-shared", "-fPIC", "-Wall"]
    dig = hashlib.sha256(open(src, "rb").read() + " ".join(flags).encode()).hexdigest()[:16]
    if os.path.exists(so) and os.path.exists(stamp) and open(stamp).read() == dig:
        return so
    with vlib.Lock("build-faultinj"):
        if os.path.exists(so) and os.path.exists(stamp) and open(stamp).read() == dig:
            return so
        tmp = so + ".tmp%d" % os.getpid()
        rc, out, err = vlib.sh(["gcc"] + flags + ["-o", tmp, src, "-ldl", "-lpthread"], timeout=300)
        if rc != 0:
            raise vlib.BuildError("faultinj.so does not compile:\n%s" % (out + err)[-3000:])
        os.replace(tmp, so)
        with open(stamp, "w") as f:
            f.write(dig)
    return so


def fi_env(call=None, fdclass=None, nth=None, err=None, signal_too=False, raise_sig=None,
           kill=False, short=None, log=None, sticky=False, base=None):
    """Environment for one run under the shim (only FI_* and LD_PRELOAD are set)."""
    env = dict(base or {})
    env["LD_PRELOAD"] = build_faultinj()
    if call is not None:
        env["FI_CALL"] = call
    if fdclass is not None:
        env["FI_FDCLASS"] = fdclass
    if nth is not None:
        env["FI_NTH"] = str(nth)
    if err is not None:
        env["FI_ERRNO"] = str(err)
    if signal_too:
        env["FI_SIGNAL_TOO"] = "1"
    if raise_sig is not None:
        env["FI_RAISE"] = str(raise_sig)
    if kill:
        env["FI_KILL"] = "1"
    if short is not None:
        env["FI_SHORT"] = str(short)
    if sticky:
        env["FI_STICKY"] = "1"
    if log is not None:
        env["FI_LOG"] = log
    return env


LOG_RE = re.compile(r"^(\w+) (\w+) fd=(-?\d+) n=(\d+) all=(\d+) t=(main|sub):(\d+) req=(\S+) ret=(\S+) errno=(\d+)(?: INJ:(\S+))?$")


def parse_log(src):
    """Parse an FI_LOG file (path) or its text into a list of dicts, in file order."""
    if "\n" not in src and os.path.exists(src):
        with open(src, errors="replace") as f:
            src = f.read()
    out = []
    for line in src.splitlines():
        m = LOG_RE.match(line.strip())
        if not m:
            continue
        out.append({"call": m.group(1), "cls": m.group(2), "fd": int(m.group(3)), "n": int(m.group(4)),
                    "all": int(m.group(5)), "main": m.group(6) == "main", "tid": int(m.group(7)),
                    "req": None if m.group(8) == "-" else int(m.group(8)),
                    "ret": None if m.group(9) == "?" else int(m.group(9)),
                    "errno": int(m.group(10)), "inj": m.group(11)})
    return out


def run_filter(argv, data, env=None, timeout=10.0, stdout_limit=None, sigpipe="default", keep_env=()):
    """Run argv with `data` on stdin and stdout captured, under a watchdog.

    Returns dict: rc (exit status or None), sig (terminating signal or None), hung (bool),
    out, err (bytes), wall_s.  The child gets a minimal environment (PATH + env + selected
    keep_env names) so that BZIP2/LBZIP2 variables of the caller do not leak in.
    sigpipe: 'default' or 'ignore' -- disposition of SIGPIPE/SIGXFSZ inherited by the child
    ('ignore' goes through `sh -c 'trap "" PIPE XFSZ; exec "$@"'`; no preexec_fn, so this is
    safe to call from several python threads).
    stdout_limit: if not None, read only that many bytes from the child's stdout and then
    close the read end (a genuinely early-closed pipe, like `| head -c k`).
    A run that is still alive after `timeout` seconds is killed and reported as hung."""
    e = {"PATH": os.environ.get("PATH", "/usr/bin:/bin")}
    for k in keep_env:
        if k in os.environ:
            e[k] = os.environ[k]
    if env:
        e.update(env)
    if sigpipe == "ignore":
        argv = ["/bin/sh", "-c", 'trap "" PIPE XFSZ; exec "$@"', "sh"] + list(argv)
    t0 = time.time()
    state = {"hung": False}
    with tempfile.TemporaryFile() as fin, tempfile.TemporaryFile() as ferr:
        fin.write(data)
        fin.seek(0)
        p = subprocess.Popen(argv, stdin=fin, stdout=subprocess.PIPE, stderr=ferr, env=e, close_fds=True)

        def watchdog():
            if p.poll() is None:
                state["hung"] = True
                try:
                    p.kill()
                except Exception:
                    pass

        timer = threading.Timer(timeout, watchdog)
        timer.daemon = True
        timer.start()
        out = b""
        try:
            if stdout_limit is None:
                out = p.stdout.read()
            else:
                got = 0
                while got < stdout_limit:
                    chunk = p.stdout.read(min(65536, stdout_limit - got))
                    if not chunk:
                        break
                    out += chunk
                    got += len(chunk)
            p.stdout.close()
            p.wait()
        finally:
            timer.cancel()
        ferr.seek(0)
        err = ferr.read()
    rc = p.returncode
    hung = state["hung"]
    return {"rc": rc if (rc is not None and rc >= 0 and not hung) else None,
            "sig": -rc if (rc is not None and rc < 0 and not hung) else None,
            "hung": hung, "out": out, "err": err, "wall_s": round(time.time() - t0, 3)}
