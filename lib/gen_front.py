"""Translator plugin for the operand loop / file-system front end (C16, C17, C18).

Transcribes from src/main.c and src/signals.c into coq/Gen/FrontTab.v:

  * the suffix table `suffix[]` (entries in source order: compressed suffix,
    replacement, chk_compr flag) and the shape of the SUF macro;
  * the flag sets and permission masks used in open()/fchmod() and in the
    "won't restore setuid" test, evaluated with the POSIX values of S_I*;
  * the stat fields passed to futimens() (in array order) and fchown();
  * the link-count limit of the admission test;
  * EX_OK / EX_WARN / EX_FAIL and which of them `_exit(warned ? a : b)` uses;
  * ordering facts: the sequence in which the anchored functions call the system
    / helper functions (main loop, input_init, output_init, output_regf_uninit,
    cleanup, halt default case, bailout main-thread branch, cli, sti) and the
    guard expressions that decide admission, removal and unlinking (as
    normalised token strings).

Only transcription; the meaning is given by coq/Front/MainLoop.v and the side
conditions in coq/Front/FrontProofs.v.  Anything not found is a ParseError.
"""
import re

import cparse
from cparse import ParseError

S_ENV = {
    "S_IRWXU": 0o700, "S_IRUSR": 0o400, "S_IWUSR": 0o200, "S_IXUSR": 0o100,
    "S_IRWXG": 0o070, "S_IRGRP": 0o040, "S_IWGRP": 0o020, "S_IXGRP": 0o010,
    "S_IRWXO": 0o007, "S_IROTH": 0o004, "S_IWOTH": 0o002, "S_IXOTH": 0o001,
    "S_ISUID": 0o4000, "S_ISGID": 0o2000, "S_ISVTX": 0o1000,
}
ALL_MODE_BITS = 0o7777


def read(repo, rel):
    import os
    with open(os.path.join(repo, rel), encoding="latin-1") as f:
        return f.read()


def norm(s):
    """Token string without white space (normal form of a C expression)."""
    return "".join(v for _, v in cparse.tokenize(s))


def coq_str(s):
    return '"' + s.replace('"', '""') + '"'


def coq_strlist(xs):
    return "[" + "; ".join(coq_str(x) for x in xs) + "]"


def c_string_value(lit):
    if not (lit.startswith('"') and lit.endswith('"')):
        raise ParseError("not a string literal: %r" % lit)
    body = lit[1:-1]
    if "\\" in body:
        raise ParseError("escape sequence in suffix literal %r" % lit)
    return body


def split_args(text):
    """Split a C argument list at top-level commas."""
    out, depth, cur = [], 0, ""
    for ch in text:
        if ch in "([{":
            depth += 1
        elif ch in ")]}":
            depth -= 1
        if ch == "," and depth == 0:
            out.append(cur.strip())
            cur = ""
        else:
            cur += ch
    if cur.strip():
        out.append(cur.strip())
    return out


def call_args(body, fname, nth=0):
    """Arguments (list of strings) of the nth textual call of fname in body."""
    ms = list(re.finditer(r"\b%s\s*\(" % re.escape(fname), body))
    if len(ms) <= nth:
        raise ParseError("call %d of %s() not found" % (nth, fname))
    i = ms[nth].end()
    depth = 1
    j = i
    while j < len(body) and depth:
        if body[j] == "(":
            depth += 1
        elif body[j] == ")":
            depth -= 1
        j += 1
    return split_args(body[i:j - 1])


def flag_names(expr):
    toks = cparse.tokenize(expr)
    names = []
    for i, (k, v) in enumerate(toks):
        if i % 2 == 0:
            if k != "id":
                raise ParseError("flag expression %r is not a |-list of names" % expr)
            names.append(v)
        elif (k, v) != ("op", "|"):
            raise ParseError("flag expression %r is not a |-list of names" % expr)
    return names


def mode_mask(expr, what):
    """`sbuf->st_mode & (MASK)` -> value of MASK; bare `sbuf->st_mode` -> all bits."""
    e = cparse.parse_expr(expr)
    def is_mode(x):
        return x[0] == "member" and x[2] == "st_mode"
    if is_mode(e):
        return ALL_MODE_BITS
    if e[0] == "bin" and e[1] == "&":
        if is_mode(e[2]):
            return cparse.eval_const(e[3], S_ENV) & ALL_MODE_BITS
        if is_mode(e[3]):
            return cparse.eval_const(e[2], S_ENV) & ALL_MODE_BITS
    try:
        return cparse.eval_const(e, S_ENV) & ALL_MODE_BITS | (1 << 16)   # constant mode: flagged
    except Exception:
        raise ParseError("%s: mode expression %r not of the form st_mode & MASK" % (what, expr))


def call_order(body, names, assigns=()):
    """Names (function calls `name(`, macro tests, or assignment markers) in order of appearance."""
    hits = []
    body = re.sub(r'"(?:\\.|[^"\\])*"', lambda m: '"' + " " * (len(m.group(0)) - 2) + '"', body)
    for n in names:
        for m in re.finditer(r"\b%s\s*\(" % re.escape(n), body):
            hits.append((m.start(), n))
    for marker, rx in assigns:
        for m in re.finditer(rx, body):
            hits.append((m.start(), marker))
    hits.sort()
    return [n for _, n in hits]


def enclosing_conditions(body, pos):
    """Normalised conditions of the `if (...) {` blocks that enclose position pos
    (outermost first).  `else` branches are reported as "else:<cond>"."""
    stack = []
    i = 0
    # walk braces; remember the text between the previous ';' / '{' / '}' and each '{'
    last = 0
    while i < pos:
        c = body[i]
        if c == "{":
            head = body[last:i]
            m = re.search(r"\b(if|while|for|switch)\s*\((.*)\)\s*$", head, re.S)
            if m:
                stack.append(m.group(1) + ":" + norm(m.group(2)))
            elif re.search(r"\belse\s*$", head):
                stack.append("else")
            elif re.search(r"\bdo\s*$", head):
                stack.append("do")
            else:
                stack.append("{")
            last = i + 1
        elif c == "}":
            if stack:
                stack.pop()
            last = i + 1
        elif c == ";":
            last = i + 1
        i += 1
    return [s for s in stack if s != "{"]


def gen(repo):
    main_c = cparse.strip_comments(read(repo, "src/main.c"))
    sig_c = cparse.strip_comments(read(repo, "src/signals.c"))
    s = ""

    # ---- suffix table -------------------------------------------------------------------
    m = re.search(r"#\s*define\s+SUF\s*\(([^)]*)\)\s*(\{[^\n]*\})", main_c)
    if not m:
        raise ParseError("SUF macro not found")
    params = [p.strip() for p in m.group(1).split(",")]
    shape = norm(m.group(2))
    if len(params) != 3:
        raise ParseError("SUF macro does not take 3 parameters")
    c, dc, c1 = params
    want = norm("{ %s, sizeof %s - 1u, %s, sizeof %s - 1u, %s }" % (c, c, dc, dc, c1))
    s += "Definition suf_macro_is_strlen : bool := %s.\n" % ("true" if shape == want else "false")
    m = re.search(r"\bsuffix\s*\[\s*\]\s*=\s*\{(.*?)\}\s*;", main_c, re.S)
    if not m:
        raise ParseError("suffix[] not found")
    entries = []
    rest = m.group(1)
    for em in re.finditer(r"SUF\s*\(([^)]*)\)", rest):
        a = split_args(em.group(1))
        if len(a) != 3:
            raise ParseError("SUF entry with %d arguments" % len(a))
        entries.append((c_string_value(a[0]), c_string_value(a[1]), cparse.eval_const(cparse.parse_expr(a[2]), {})))
    leftover = re.sub(r"SUF\s*\([^)]*\)", "", rest)
    if re.sub(r"[\s,]", "", leftover):
        raise ParseError("suffix[] has entries not written with SUF(): %r" % leftover.strip()[:60])
    if not entries:
        raise ParseError("suffix[] is empty")
    s += "Definition suffix_tab : list (string * string * bool) := [\n  %s\n]%%string.\n" % ";\n  ".join(
        "(%s, %s, %s)" % (coq_str(a), coq_str(b), "true" if k else "false") for a, b, k in entries)
    # how suffix_xform walks the table
    _, sx = cparse.find_function_body(main_c, "suffix_xform")
    m = re.search(r"for\s*\(([^;]*);([^;]*);([^)]*)\)", sx)
    if not m:
        raise ParseError("suffix_xform: loop not found")
    s += "Definition suffix_loop : string := %s.\n" % coq_str(norm(m.group(1)) + ";" + norm(m.group(2)) + ";" + norm(m.group(3)))
    m = re.search(r"if\s*\(\s*(\(suffix\[ofs\]\.chk_compr.*?)\)\s*\{", sx, re.S)
    if not m:
        raise ParseError("suffix_xform: entry guard not found")
    s += "Definition suffix_entry_guard : string := %s.\n" % coq_str(norm(m.group(1)))
    m = re.search(r"if\s*\(\s*(0\s*==\s*strcmp\s*\([^{]*?)\)\s*\{", sx, re.S)
    if not m:
        raise ParseError("suffix_xform: strcmp test not found")
    s += "Definition suffix_cmp : string := %s.\n" % coq_str(norm(m.group(1)))

    # ---- input_init -----------------------------------------------------------------------
    _, ii = cparse.find_function_body(main_c, "input_init")
    a = call_args(ii, "open")
    if len(a) != 2:
        raise ParseError("input_init: open() with %d arguments" % len(a))
    s += "Definition open_in_flags : list string := %s%%string.\n" % coq_strlist(flag_names(a[1]))
    order = call_order(ii, ["lstat", "S_ISREG", "suffix_xform", "open", "fstat", "close"],
                       [("st_nlink", r"->\s*st_nlink\b")])
    s += "Definition input_init_order : list string := %s%%string.\n" % coq_strlist(order)

    def guard_of(rx, what):
        m = re.search(rx, ii, re.S)
        if not m:
            raise ParseError("input_init: %s not found" % what)
        cond = norm(m.group(1))
        return cond, enclosing_conditions(ii, m.start())
    g, enc = guard_of(r"if\s*\(([^{;]*S_ISREG[^{;]*)\)\s*\{", "S_ISREG test")
    s += "Definition isreg_guard : string := %s.\n" % coq_str(g)
    s += "Definition isreg_under : list string := %s%%string.\n" % coq_strlist(enc)
    g, enc = guard_of(r"if\s*\(([^{;]*st_nlink[^{;]*)\)\s*\{", "st_nlink test")
    s += "Definition nlink_guard : string := %s.\n" % coq_str(g)
    s += "Definition nlink_under : list string := %s%%string.\n" % coq_strlist(enc)
    m = re.search(r"st_nlink\s*>\s*(?:\(\s*nlink_t\s*\)\s*)?(\d+)", ii)
    if not m:
        raise ParseError("input_init: link-count limit not found")
    s += "Definition nlink_limit : N := %d.\n" % int(m.group(1))
    g, enc = guard_of(r"if\s*\(([^{;]*suffix_xform[^{;]*)\)\s*\{", "compressed-suffix test")
    s += "Definition sufskip_guard : string := %s.\n" % coq_str(g)
    s += "Definition sufskip_under : list string := %s%%string.\n" % coq_strlist(enc)
    g, enc = guard_of(r"if\s*\(([^{;]*lstat[^{;]*)\)\s*\{", "lstat call")
    s += "Definition lstat_under : list string := %s%%string.\n" % coq_strlist(enc)

    # ---- output_init ----------------------------------------------------------------------
    _, oi = cparse.find_function_body(main_c, "output_init")
    a = call_args(oi, "open")
    if len(a) != 3:
        raise ParseError("output_init: open() with %d arguments" % len(a))
    s += "Definition open_out_flags : list string := %s%%string.\n" % coq_strlist(flag_names(a[1]))
    s += "Definition open_out_mode_mask : N := %d.\n" % mode_mask(a[2], "output_init open()")
    m = re.search(r"if\s*\(([^{;]*unlink\s*\(\s*tmp\s*\)[^{;]*)\)\s*\{", oi, re.S)
    if not m:
        raise ParseError("output_init: unlink(tmp) test not found")
    s += "Definition unlink_out_guard : string := %s.\n" % coq_str(norm(m.group(1)))
    # optional guard (added by the repair of the -f data loss): before the output name is unlinked, stat() it and skip
    # the operand if it leads to the very file that is being read
    checks, under = False, []
    sm = re.search(r"\bstat\s*\(\s*tmp\s*,\s*&\s*(\w+)\s*\)", oi)
    um = re.search(r"\bunlink\s*\(\s*tmp\s*\)", oi)
    if sm and um and sm.start() < um.start():
        v = sm.group(1)
        cm = re.search(r"if\s*\(([^{;]*\bstat\s*\(\s*tmp[^{;]*)\)\s*\{(.*?)\}", oi, re.S)
        if cm:
            c = norm(cm.group(1))
            body = cm.group(2)
            checks = bool(c.startswith("0==stat(tmp,&%s)&&" % v) and ("%s.st_dev==sbuf->st_dev" % v) in c
                          and ("%s.st_ino==sbuf->st_ino" % v) in c and "||" not in c
                          and re.search(r"\bwarn\w*\s*\(", body) and re.search(r"\bbreak\s*;|\breturn\s*-\s*1\s*;", body)
                          and not re.search(r"\bunlink\s*\(|\bopen\s*\(", body))
            under = [x for x in enclosing_conditions(oi, cm.start()) if not x.startswith("switch")]
    s += "Definition output_init_checks_same_file : bool := %s.\n" % ("true" if checks else "false")
    s += "Definition same_file_under : list string := %s%%string.\n" % coq_strlist(under)
    order = call_order(oi, ["suffix_xform", "unlink", "open"], [("opathn_set", r"\bopathn\s*=\s*tmp\b")])
    s += "Definition output_init_order : list string := %s%%string.\n" % coq_strlist(order)
    m = re.search(r'strcpy\s*\(\s*tmp\s*\+\s*len\s*,\s*("[^"]*")\s*\)', oi)
    if not m:
        raise ParseError("output_init: compression suffix not found")
    s += "Definition compress_suffix : string := %s%%string.\n" % coq_str(c_string_value(m.group(1)))

    # ---- output_regf_uninit ---------------------------------------------------------------
    _, ou = cparse.find_function_body(main_c, "output_regf_uninit")
    a = call_args(ou, "fchown")
    if len(a) != 3:
        raise ParseError("fchown() with %d arguments" % len(a))
    flds = []
    for x in a[1:]:
        m = re.match(r"sbuf\s*->\s*(\w+)$", x)
        if not m:
            raise ParseError("fchown argument %r is not a stat field" % x)
        flds.append(m.group(1))
    s += "Definition fchown_fields : list string := %s%%string.\n" % coq_strlist(flds)
    a = call_args(ou, "fchmod")
    if len(a) != 2:
        raise ParseError("fchmod() with %d arguments" % len(a))
    s += "Definition fchmod_mask : N := %d.\n" % mode_mask(a[1], "fchmod()")
    m = re.search(r"if\s*\(\s*sbuf\s*->\s*st_mode\s*&\s*\(([^)]*)\)\s*\)\s*\{\s*warn\b", ou)
    if not m:
        raise ParseError("setuid/setgid/sticky warning test not found")
    s += "Definition special_mask : N := %d.\n" % cparse.eval_const(cparse.parse_expr(m.group(1)), S_ENV)
    ts = {}
    for m in re.finditer(r"\bts\s*\[\s*(\d+)\s*\]\s*=\s*sbuf\s*->\s*(\w+)\s*;", ou):
        ts[int(m.group(1))] = m.group(2)
    if sorted(ts) != [0, 1]:
        raise ParseError("futimens time array not assigned as ts[0], ts[1]")
    s += "Definition futimens_fields : list string := %s%%string.\n" % coq_strlist([ts[0], ts[1]])
    order = call_order(ou, ["fchown", "fchmod", "futimens", "close"], [("opathn_clear", r"\bopathn\s*=\s*(?:0|NULL)\s*;")])
    s += "Definition regf_uninit_order : list string := %s%%string.\n" % coq_strlist(order)
    pos = re.search(r"\bfchmod\s*\(", ou).start()
    s += "Definition fchmod_under : list string := %s%%string.\n" % coq_strlist(enclosing_conditions(ou, pos))
    m = re.search(r"if\s*\(([^{;]*close\s*\(\s*outfd\s*\)[^{;]*)\)\s*\{\s*(\w+)\s*\(", ou)
    if not m:
        raise ParseError("close(outfd) test not found")
    s += "Definition close_out_handler : string := %s.\n" % coq_str(m.group(2))

    # ---- input_oprnd_rm / input_uninit / cleanup -----------------------------------------
    _, rm = cparse.find_function_body(main_c, "input_oprnd_rm")
    m = re.search(r"if\s*\(([^{;]*unlink[^{;]*)\)\s*\{\s*(\w+)\s*\(", rm)
    if not m:
        raise ParseError("input_oprnd_rm: unlink test not found")
    s += "Definition rm_guard : string := %s.\nDefinition rm_handler : string := %s.\n" % (coq_str(norm(m.group(1))), coq_str(m.group(2)))
    _, iu = cparse.find_function_body(main_c, "input_uninit")
    m = re.search(r"if\s*\(([^{;]*close[^{;]*)\)\s*\{\s*(\w+)\s*\(", iu)
    if not m:
        raise ParseError("input_uninit: close test not found")
    s += "Definition close_in_handler : string := %s.\n" % coq_str(m.group(2))
    _, cl = cparse.find_function_body(main_c, "cleanup")
    order = call_order(cl, ["unlink"], [("opathn_clear", r"\bopathn\s*=\s*(?:0|NULL)\s*;")])
    s += "Definition cleanup_order : list string := %s%%string.\n" % coq_strlist(order)
    m = re.search(r"if\s*\(([^{]*)\)\s*\{", cl)
    s += "Definition cleanup_guard : string := %s.\n" % coq_str(norm(m.group(1)) if m else "")

    # ---- main loop -----------------------------------------------------------------------
    _, mn = cparse.find_function_body(main_c, "main")
    names = ["setup_signals", "opts_setup", "input_init", "cli", "output_init", "work", "output_regf_uninit",
             "input_oprnd_rm", "sti", "input_uninit", "close", "_exit"]
    s += "Definition main_order : list string := %s%%string.\n" % coq_strlist(call_order(mn, names))
    for fn in ("cli", "output_init", "work", "output_regf_uninit", "input_oprnd_rm", "sti", "input_uninit"):
        m = re.search(r"\b%s\s*\(" % fn, mn)
        if not m:
            raise ParseError("main: call of %s not found" % fn)
        s += "Definition main_%s_under : list string := %s%%string.\n" % (fn, coq_strlist(enclosing_conditions(mn, m.start())))
    m = re.search(r"if\s*\(([^{;]*close\s*\(\s*STDOUT_FILENO\s*\)[^{;]*)\)\s*\{\s*(\w+)\s*\(", mn)
    if not m:
        raise ParseError("main: close(STDOUT_FILENO) not found")
    s += "Definition close_stdout_guard : string := %s.\n" % coq_str(norm(m.group(1)))
    env = {}
    for k, (p, body) in cparse.find_defines(main_c).items():
        if p is None and k in ("EX_OK", "EX_WARN"):
            env[k] = cparse.eval_const(cparse.parse_expr(body), {})
    for k, (p, body) in cparse.find_defines(sig_c).items():
        if p is None and k == "EX_FAIL":
            env[k] = cparse.eval_const(cparse.parse_expr(body), {})
    for k in ("EX_OK", "EX_WARN", "EX_FAIL"):
        if k not in env:
            raise ParseError("%s not defined" % k)
        s += "Definition %s : N := %d.\n" % (k, env[k])
    m = re.search(r"_exit\s*\(\s*warned\s*\?\s*(\w+)\s*:\s*(\w+)\s*\)", mn)
    if not m:
        raise ParseError("main: final _exit(warned ? a : b) not found")
    s += "Definition exit_if_warned : N := %d.\nDefinition exit_if_clean : N := %d.\n" % (
        cparse.eval_const(cparse.parse_expr(m.group(1)), env), cparse.eval_const(cparse.parse_expr(m.group(2)), env))
    m = re.search(r"enum\s+outmode\s*\{([^}]*)\}", main_c)
    if not m:
        raise ParseError("enum outmode not found")
    s += "Definition outmode_names : list string := %s%%string.\n" % coq_strlist([x.strip() for x in m.group(1).split(",") if x.strip()])

    # ---- signals.c -----------------------------------------------------------------------
    def arr(name):
        m = re.search(r"\b%s\s*\[\s*\]\s*=\s*\{([^}]*)\}" % name, sig_c)
        if not m:
            raise ParseError("%s[] not found" % name)
        return [x.strip() for x in m.group(1).split(",") if x.strip()]
    s += "Definition handled_signals : list string := %s%%string.\n" % coq_strlist(arr("handled_signals"))
    s += "Definition blocked_signals : list string := %s%%string.\n" % coq_strlist(arr("blocked_signals"))
    _, hb = cparse.find_function_body(sig_c, "halt")
    m = re.search(r"switch\s*\(\s*sig\s*\)\s*\{(.*)\}", hb, re.S)
    if not m:
        raise ParseError("halt: switch not found")
    cases = []
    for cm in re.finditer(r"(default|case\s+\w+)\s*:(.*?)(?=default\s*:|case\s+\w+\s*:|$)", m.group(1), re.S):
        lab = norm(cm.group(1)).replace("case", "")
        calls = call_order(cm.group(2), ["cleanup", "terminate", "bailout"], [("break", r"\bbreak\s*;")])
        cases.append((lab, ",".join(calls)))
    s += "Definition halt_cases : list (string * string) := [%s]%%string.\n" % "; ".join("(%s, %s)" % (coq_str(a), coq_str(b)) for a, b in cases)
    _, bb = cparse.find_function_body(sig_c, "bailout")
    m = re.search(r"if\s*\(\s*pthread_equal\s*\([^{]*\{(.*?)\}", bb, re.S)
    if not m:
        raise ParseError("bailout: main-thread branch not found")
    br = m.group(1)
    s += "Definition bailout_main_order : list string := %s%%string.\n" % coq_strlist(call_order(br, ["cleanup", "xmask", "_exit"]))
    m = re.search(r"_exit\s*\(\s*(\w+)\s*\)", br)
    if not m:
        raise ParseError("bailout: _exit not found")
    s += "Definition bailout_exit : N := %d.\n" % cparse.eval_const(cparse.parse_expr(m.group(1)), env)
    s += "Definition bailout_sub_order : list string := %s%%string.\n" % coq_strlist(
        call_order(bb[bb.index(br) + len(br):], ["promote", "xraise", "pthread_exit"]))
    # which mask halt() waits with: the one cli() saved (SIGPIPE/SIGXFSZ stay blocked while the main thread waits, so a
    # signal promoted by a failing worker is only taken after cleanup()), or something else
    m = re.search(r"sigsuspend\s*\(\s*&\s*(\w+)\s*\)", hb)
    if not m:
        raise ParseError("halt: sigsuspend(&mask) not found")
    halt_mask = m.group(1)
    _, cb0 = cparse.find_function_body(sig_c, "cli")
    m = re.search(r"xmask\s*\(\s*SIG_BLOCK\s*,\s*&\s*handled\s*,\s*([^)]*)\)", cb0)
    if not m:
        raise ParseError("cli: xmask(SIG_BLOCK, &handled, ...) not found")
    cli_saved = norm(m.group(1)).lstrip("&")
    _, ss = cparse.find_function_body(sig_c, "setup_signals")
    m = re.search(r"xmask\s*\(\s*SIG_BLOCK\s*,\s*&\s*(\w+)\s*,", ss)
    setup_blocked = m.group(1) if m else ""
    # the saved mask must not be touched anywhere else (declaration, cli, halt: three mentions)
    mentions = len(re.findall(r"\b%s\b" % re.escape(halt_mask), sig_c))
    ok = halt_mask == cli_saved and cli_saved not in ("NULL", "0", "") and setup_blocked == "blocked" and mentions == 3
    s += "Definition halt_suspend_mask : string := %s.\n" % coq_str(halt_mask)
    s += "Definition cli_saved_mask : string := %s.\n" % coq_str(cli_saved)
    s += "Definition setup_blocked_set : string := %s.\n" % coq_str(setup_blocked)
    s += "Definition fatal_signals_blocked_in_halt : bool := %s.\n" % ("true" if ok else "false")
    _, tb = cparse.find_function_body(sig_c, "terminate")
    s += "Definition terminate_order : list string := %s%%string.\n" % coq_strlist(call_order(tb, ["xaction", "xraise", "xmask", "_exit"]))
    _, cb = cparse.find_function_body(sig_c, "cli")
    m = re.search(r"xmask\s*\(\s*(\w+)\s*,\s*&\s*(\w+)", cb)
    if not m:
        raise ParseError("cli: xmask not found")
    s += "Definition cli_mask : string * string := (%s, %s)%%string.\n" % (coq_str(m.group(1)), coq_str(m.group(2)))
    s += "Definition cli_order : list string := %s%%string.\n" % coq_strlist(call_order(cb, ["xmask", "xaction"]))
    _, sb = cparse.find_function_body(sig_c, "sti")
    m = re.search(r"xmask\s*\(\s*(\w+)\s*,\s*&\s*(\w+)", sb)
    if not m:
        raise ParseError("sti: xmask not found")
    s += "Definition sti_mask : string * string := (%s, %s)%%string.\n" % (coq_str(m.group(1)), coq_str(m.group(2)))
    s += "Definition sti_order : list string := %s%%string.\n" % coq_strlist(call_order(sb, ["xaction", "xmask"]))
    m = re.search(r"xaction\s*\(\s*\*\s*sig\s*,\s*(\w+)\s*\)", sb)
    s += "Definition sti_action : string := %s.\n" % coq_str(m.group(1) if m else "")
    return s


def generate(repo, out):
    out.write("FrontTab.v", "src/main.c src/signals.c (lib/gen_front.py)", lambda: gen(repo))
