"""Translator plugin for the IoFail area (property C21): coq/Gen/IoFailTab.v.

Transcribes from the current source (no analysis here):
  signals.c  EX_FAIL; blocked_signals[], handled_signals[]; which set setup_signals()
             blocks; what cli() blocks/handles/saves; the mask given to sigsuspend() and the
             switch of halt(); promote(); both branches of bailout() as op lists
  main.c     EX_OK, EX_WARN; the DEF() logging macro: prologue, the condition under which
             the message is printed (as a Gallina boolean function of `bail` and the errno
             argument `x`), the two tails; the flag rows of every DEF instance; call order
             in main()
  process.c  what xread()/xwrite() do when read()/write() returns -1; which functions call
             xread/xwrite (source/sink thread, work()); call order of primary_thread()
  compress.c write_header()/write_trailer() use xwrite; init()/uninit() call them

Second output, coq/Gen/DataFailTab.v (property C07, process level; function gen_datafail):
  expand.c/parse.c/decode.c/process.c  every call of a DEF() logging function, with the enclosing function;
             the calls that report a DATA error (bail or warn row without errno argument) as a table:
             thread that executes the call (main thread in work(), task of the `expansion` task list, ...),
             the call as an operation (OpFail bail uses_errno), format string, err2str() argument,
             enclosing conditions, whether the scheduler lock is held across the call
  expand.c   task_list[]/`expansion` initialisers; process.c worker_thread_proc() call order
  main.c     log_generic() as a list of output pieces; the literal errno argument of each DEF row;
             the `_exit(warned ? EX_WARN : EX_OK)` of main()

Statements that are not recognised make the translation FAIL (broken tie), they are never
skipped.  Signal and errno numbers come from the python `signal`/`errno` modules of the
platform the check runs on (the same platform the binary is built for).
"""
import errno as pyerrno
import re
import signal as pysignal

import cparse
from cparse import ParseError


# ---------------------------------------------------------------------------
# a tiny statement parser on cparse tokens
# ---------------------------------------------------------------------------
class StmtParser:
    def __init__(self, toks):
        self.t = toks
        self.i = 0

    def peek(self, k=0):
        j = self.i + k
        return self.t[j] if j < len(self.t) else ("eof", "")

    def eat(self, v=None):
        k, val = self.peek()
        if v is not None and val != v:
            raise ParseError("expected %r got %r" % (v, val))
        self.i += 1
        return k, val

    def paren(self):
        """consume a balanced ( ... ) and return the inner tokens"""
        self.eat("(")
        depth = 1
        out = []
        while True:
            k, v = self.eat()
            if k == "eof":
                raise ParseError("unbalanced parenthesis")
            if (k, v) == ("op", "("):
                depth += 1
            elif (k, v) == ("op", ")"):
                depth -= 1
                if depth == 0:
                    return out
            out.append((k, v))

    def block_items(self):
        self.eat("{")
        items = []
        while self.peek() != ("op", "}"):
            if self.peek()[0] == "eof":
                raise ParseError("unbalanced brace")
            items.append(self.stmt())
        self.eat("}")
        return items

    def stmt(self):
        k, v = self.peek()
        if (k, v) == ("op", "{"):
            return ("block", self.block_items())
        if (k, v) == ("op", ";"):
            self.eat()
            return ("empty",)
        if k == "id" and v == "if":
            self.eat()
            cond = self.paren()
            th = self.stmt()
            el = None
            if self.peek() == ("id", "else"):
                self.eat()
                el = self.stmt()
            return ("if", cond, th, el)
        if k == "id" and v in ("while", "for", "foreach"):
            self.eat()
            head = self.paren()
            body = self.stmt()
            return ("loop", v, head, body)
        if k == "id" and v == "do":
            self.eat()
            body = self.stmt()
            self.eat("while")
            head = self.paren()
            self.eat(";")
            return ("loop", "do", head, body)
        if k == "id" and v == "switch":
            self.eat()
            head = self.paren()
            self.eat("{")
            items = []          # flat list of ("label", toks) / statements
            while self.peek() != ("op", "}"):
                if self.peek() == ("id", "default"):
                    self.eat()
                    self.eat(":")
                    items.append(("label", "default"))
                elif self.peek() == ("id", "case"):
                    self.eat()
                    lab = []
                    while self.peek() != ("op", ":"):
                        lab.append(self.eat())
                    self.eat(":")
                    items.append(("label", " ".join(x[1] for x in lab)))
                else:
                    items.append(self.stmt())
            self.eat("}")
            return ("switch", head, items)
        # expression / declaration statement up to ';'
        toks = []
        depth = 0
        while True:
            k, v = self.eat()
            if k == "eof":
                raise ParseError("statement without ';'")
            if (k, v) == ("op", ";") and depth == 0:
                break
            if (k, v) in (("op", "("), ("op", "{"), ("op", "[")):
                depth += 1
            if (k, v) in (("op", ")"), ("op", "}"), ("op", "]")):
                depth -= 1
            toks.append((k, v))
        return ("simple", toks)


def parse_body(text):
    p = StmtParser(cparse.tokenize(text))
    items = []
    while p.peek()[0] != "eof":
        items.append(p.stmt())
    return items


def txt(toks):
    return " ".join(v for _, v in toks)


TYPE_WORDS = {"int", "unsigned", "const", "char", "sigset_t", "ssize_t", "size_t", "struct", "static",
              "va_list", "bool", "long", "uint8_t", "uint32_t", "void", "pthread_t"}


def is_decl(toks):
    return bool(toks) and toks[0][0] == "id" and toks[0][1] in TYPE_WORDS


def call_of(toks):
    """if toks is `name ( args )` return (name, [arg token lists]) else None"""
    if len(toks) >= 3 and toks[0][0] == "id" and toks[1] == ("op", "(") and toks[-1] == ("op", ")"):
        args = []
        cur = []
        depth = 0
        for k, v in toks[2:-1]:
            if (k, v) == ("op", "(") or (k, v) == ("op", "["):
                depth += 1
            if (k, v) == ("op", ")") or (k, v) == ("op", "]"):
                depth -= 1
                if depth < 0:
                    return None
            if (k, v) == ("op", ",") and depth == 0:
                args.append(cur)
                cur = []
            else:
                cur.append((k, v))
        if cur or args:
            args.append(cur)
        return toks[0][1], args
    return None


class Ctx:
    """names known to the op translator"""

    def __init__(self):
        self.sets = {}          # sigset variable -> table name
        self.consts = {}        # EX_* -> int
        self.def_rows = {}      # logging function name -> (f, x, warn, bail, nl)
        self.signames = set()
        self.errnames = set()


def ops_of(stmts, ctx, where):
    out = []
    for st in stmts:
        out += op_of(st, ctx, where)
    return out


def op_of(st, ctx, where):
    kind = st[0]
    if kind == "empty":
        return []
    if kind == "block":
        return ops_of(st[1], ctx, where)
    if kind != "simple":
        raise ParseError("%s: control statement `%s ...` not expected here" % (where, kind))
    toks = st[1]
    s = txt(toks)
    if is_decl(toks) and "(" not in s:
        return ["OpNop"]
    if s == "break":
        return ["OpReturn"]
    if s in ("warned = 1",):
        return ["OpNop"]
    c = call_of(toks)
    if not c:
        raise ParseError("%s: unrecognised statement `%s`" % (where, s))
    name, args = c
    a = [txt(x) for x in args]
    if name == "cleanup" and not a:
        return ["OpCleanup"]
    if name in ("gcov_flush", "va_start", "va_end", "assert", "Trace"):
        return ["OpNop"]
    if name == "xmask" and len(a) == 3:
        m = re.match(r"& (\w+)$", a[1])
        if not m or m.group(1) not in ctx.sets:
            raise ParseError("%s: xmask on unknown set `%s`" % (where, a[1]))
        tab = ctx.sets[m.group(1)]
        if a[0] == "SIG_UNBLOCK":
            return ["OpUnblock %s" % tab]
        if a[0] == "SIG_BLOCK":
            return ["OpBlock %s" % tab]
        raise ParseError("%s: xmask how=%s" % (where, a[0]))
    if name == "_exit" and len(a) == 1:
        if a[0] in ctx.consts:
            return ["(OpExit %s)" % a[0]]
        if re.match(r"\d+$", a[0]):
            return ["(OpExit %s)" % a[0]]
        raise ParseError("%s: _exit(%s)" % (where, a[0]))
    if name == "promote" and not a:
        return ["(OpPromote promote_set)"]
    if name == "xraise" and len(a) == 1 and re.match(r"SIG[A-Z0-9]+$", a[0]):
        ctx.signames.add(a[0])
        return ["(OpRaise %s)" % a[0]]
    if name == "pthread_exit":
        return ["OpThreadExit"]
    if name == "bailout" and not a:
        return ["OpBailout"]
    if name == "terminate" and a == ["sig"]:
        return ["OpTerminate"]
    if name == "flockfile" and a == ["stderr"]:
        return ["OpLockStderr"]
    if name == "funlockfile" and a == ["stderr"]:
        return ["OpUnlockStderr"]
    if name == "log_generic":
        return ["OpPrint"]
    if name in ctx.def_rows:
        f, x, warn, bail, nl = ctx.def_rows[name]
        uses_errno = False
        if x:
            xi = 1 if f else 0
            if xi >= len(a):
                raise ParseError("%s: %s called with too few arguments" % (where, name))
            uses_errno = a[xi] == "errno"
            if not uses_errno and not re.match(r"\d+$|err$", a[xi]):
                raise ParseError("%s: errno argument `%s` of %s not understood" % (where, a[xi], name))
        return ["(OpFail %s %s)" % (coq_bool(bail), coq_bool(uses_errno))]
    raise ParseError("%s: unrecognised call `%s`" % (where, s))


def coq_bool(b):
    return "true" if b else "false"


def coq_list(xs):
    return "[" + "; ".join(xs) + "]"


def cond_to_coq(e, ctx):
    """C condition over `bail` (bool) and `x` (errno, N) -> Gallina bool expression."""
    k = e[0]
    if k == "id":
        if e[1] == "bail":
            return "bail"
        raise ParseError("identifier %s used as a truth value in the DEF condition" % e[1])
    if k == "num":
        return "true" if e[1] else "false"
    if k == "un" and e[1] == "!":
        return "(negb %s)" % cond_to_coq(e[2], ctx)
    if k == "bin" and e[1] in ("&&", "||"):
        return "(%s %s %s)" % (cond_to_coq(e[2], ctx), e[1], cond_to_coq(e[3], ctx))
    if k == "bin" and e[1] in ("==", "!="):
        def val(t):
            if t[0] == "id" and t[1] == "x":
                return "x"
            if t[0] == "id" and hasattr(pyerrno, t[1]):
                ctx.errnames.add(t[1])
                return t[1]
            if t[0] == "num":
                return str(t[1])
            raise ParseError("operand %r in the DEF condition" % (t,))
        r = "(N.eqb %s %s)" % (val(e[2]), val(e[3]))
        return r if e[1] == "==" else "(negb %s)" % r
    raise ParseError("DEF condition not understood: %r" % (e,))


def names_of_array(src, name):
    d, t = cparse.find_array(src, name)
    out = []
    for v in t:
        if isinstance(v, tuple) and v[0] == "id":
            out.append(v[1])
        else:
            raise ParseError("%s: entry %r is not a signal name" % (name, v))
    return out


def find_macro_text(src, name):
    src = cparse.strip_comments(src)
    lines = src.split("\n")
    for i, line in enumerate(lines):
        if re.match(r"\s*#\s*define\s+%s\s*\(" % name, line):
            buf = line
            while buf.rstrip().endswith("\\") and i + 1 < len(lines):
                i += 1
                buf = buf.rstrip()[:-1] + "\n" + lines[i]
            m = re.match(r"\s*#\s*define\s+%s\s*\(([^)]*)\)(.*)$" % name, buf, re.S)
            return [p.strip() for p in m.group(1).split(",")], m.group(2)
    raise ParseError("macro %s not found" % name)


def calls_in(body_text):
    """ordered list of `callee` / `callee(FIRSTARG)` for calls appearing in a body"""
    toks = cparse.tokenize(body_text)
    out = []
    for i, (k, v) in enumerate(toks):
        if k == "id" and i + 1 < len(toks) and toks[i + 1] == ("op", "(") and \
           v not in ("if", "while", "for", "switch", "return", "sizeof", "foreach", "assert"):
            name = v
            if i >= 2 and toks[i - 1] == ("op", "->") and toks[i - 2][0] == "id":
                name = toks[i - 2][1] + "->" + v
            if v == "xraise" and i + 2 < len(toks):
                name = "xraise(%s)" % toks[i + 2][1]
            out.append(name)
    return out


def find_stmt(stmts, pred):
    """depth-first search for a statement satisfying pred"""
    for st in stmts:
        if pred(st):
            return st
        subs = []
        if st[0] == "block":
            subs = st[1]
        elif st[0] == "if":
            subs = [st[2]] + ([st[3]] if st[3] else [])
        elif st[0] == "loop":
            subs = [st[3]]
        elif st[0] == "switch":
            subs = [x for x in st[2] if x[0] != "label"]
        r = find_stmt(subs, pred)
        if r:
            return r
    return None


def gen_iofail(repo):
    def read(rel):
        with open("%s/%s" % (repo, rel), encoding="latin-1") as f:
            return f.read()

    sig_c = read("src/signals.c")
    main_c = read("src/main.c")
    proc_c = read("src/process.c")
    comp_c = read("src/compress.c")
    ctx = Ctx()

    # ---- constants
    dsig = cparse.find_defines(sig_c)
    dmain = cparse.find_defines(main_c)
    for nm, d in (("EX_FAIL", dsig), ("EX_OK", dmain), ("EX_WARN", dmain)):
        if nm not in d or d[nm][0] is not None:
            raise ParseError("%s not found" % nm)
        ctx.consts[nm] = cparse.eval_const(cparse.parse_expr(d[nm][1]), {})

    blocked = names_of_array(sig_c, "blocked_signals")
    handled = names_of_array(sig_c, "handled_signals")
    for n in blocked + handled:
        ctx.signames.add(n)

    # ---- setup_signals: which table feeds which sigset, what is blocked
    body = cparse.find_function_body(sig_c, "setup_signals")[1]
    st = parse_body(body)
    for s in st:
        if s[0] == "loop" and s[1] == "foreach":
            m = re.match(r"sig , (\w+)$", txt(s[2]))
            b = s[3]
            bt = txt(b[1]) if b[0] == "simple" else ""
            m2 = re.match(r"xadd \( & (\w+) , \* sig \)$", bt)
            if not m or not m2:
                raise ParseError("setup_signals: foreach not understood: %s / %s" % (txt(s[2]), bt))
            ctx.sets[m2.group(1)] = m.group(1)
    if ctx.sets.get("blocked") != "blocked_signals" or ctx.sets.get("handled") != "handled_signals":
        raise ParseError("setup_signals: sigset/table association changed: %r" % ctx.sets)
    setup_ops = []
    for s in st:
        if s[0] == "simple":
            c = call_of(s[1])
            if c and c[0] == "xmask":
                setup_ops += op_of(s, ctx, "setup_signals")
        if s[0] == "if" and "sigprocmask" in txt(s[1]):
            m = re.match(r"sigprocmask \( (\w+) , & (\w+) , NULL \)$", txt(s[1]))
            if not m or m.group(2) not in ctx.sets:
                raise ParseError("setup_signals: sigprocmask not understood")
            setup_ops.append("%s %s" % ({"SIG_UNBLOCK": "OpUnblock", "SIG_BLOCK": "OpBlock"}[m.group(1)], ctx.sets[m.group(2)]))

    # ---- cli(): blocks `handled`, saves old mask, installs handlers
    body = cparse.find_function_body(sig_c, "cli")[1]
    st = parse_body(body)
    cli_block = None
    cli_saved = None
    cli_handlers = None
    for s in st:
        if s[0] == "simple":
            c = call_of(s[1])
            if c and c[0] == "xmask":
                a = [txt(x) for x in c[1]]
                m = re.match(r"& (\w+)$", a[1])
                if a[0] != "SIG_BLOCK" or not m or m.group(1) not in ctx.sets:
                    raise ParseError("cli: xmask not understood")
                cli_block = ctx.sets[m.group(1)]
                m3 = re.match(r"& (\w+)$", a[2])
                cli_saved = m3.group(1) if m3 else None
        if s[0] == "loop" and s[1] == "foreach":
            m = re.match(r"sig , (\w+)$", txt(s[2]))
            bt = txt(s[3][1]) if s[3][0] == "simple" else ""
            if m and re.match(r"xaction \( \* sig , signal_handler \)$", bt):
                cli_handlers = m.group(1)
    if not cli_block or not cli_saved or not cli_handlers:
        raise ParseError("cli(): block/save/handler installation not found")

    # ---- promote()
    body = cparse.find_function_body(sig_c, "promote")[1]
    st = parse_body(body)
    promote_set = None
    has_pending = any(s[0] == "simple" and txt(s[1]) == "xpending ( & pending )" for s in st)
    for s in st:
        if s[0] == "loop" and s[1] == "foreach":
            m = re.match(r"sig , (\w+)$", txt(s[2]))
            b = s[3]
            if m and b[0] == "if" and txt(b[1]) == "xmember ( & pending , * sig )" and b[3] is None and \
               b[2][0] == "simple" and txt(b[2][1]) == "xraise ( * sig )":
                promote_set = m.group(1)
    if not has_pending or promote_set not in ("blocked_signals", "handled_signals"):
        raise ParseError("promote(): shape changed")

    # ---- DEF macro rows and body (main.c)
    for m in re.finditer(r"^DEF\((\w+)\s*\((.*?)\),\s*(\w+)\s*,\s*(\w+)\s*,\s*(\d)\s*,\s*(\d)\s*,\s*(\d)\s*\)", cparse.strip_comments(main_c), re.M | re.S):
        ctx.def_rows[m.group(1)] = (m.group(3) != "0", m.group(4) != "0", m.group(5) != "0", m.group(6) != "0", m.group(7) != "0")
    for need in ("failfx", "failx", "failf", "fail", "warnx"):
        if need not in ctx.def_rows:
            raise ParseError("DEF row for %s not found" % need)
    params, mtext = find_macro_text(main_c, "DEF")
    if params != ["proto", "f", "x", "warn", "bail", "nl"]:
        raise ParseError("DEF parameters changed: %r" % params)
    mtext = mtext.replace("void proto", "")
    dst = parse_body(mtext)
    if len(dst) != 1 or dst[0][0] != "block":
        raise ParseError("DEF body is not one block")
    dst = dst[0][1]
    ifs = [i for i, s in enumerate(dst) if s[0] == "if"]
    if len(ifs) != 2 or ifs[1] != len(dst) - 1 or ifs[0] + 1 != ifs[1]:
        raise ParseError("DEF body: expected `...; if (cond) log; if (!bail) ... else ...`")
    prologue = ops_of(dst[:ifs[0]], ctx, "DEF prologue")
    logif = dst[ifs[0]]
    if logif[3] is not None:
        raise ParseError("DEF: log condition has an else branch")
    log_ops = ops_of([logif[2]], ctx, "DEF log branch")
    cond_coq = cond_to_coq(cparse.parse_expr(txt(logif[1])), ctx)
    tail = dst[ifs[1]]
    if txt(tail[1]) != "! bail" or tail[3] is None:
        raise ParseError("DEF: tail is not `if (!bail) ... else ...`")
    bail_ops = ops_of([tail[3]], ctx, "DEF bail tail")

    # ---- bailout()
    body = cparse.find_function_body(sig_c, "bailout")[1]
    st = parse_body(body)
    if not st or st[0][0] != "if" or "pthread_equal" not in txt(st[0][1]) or "main_thread" not in txt(st[0][1]) \
       or st[0][3] is not None or txt(st[0][1]).startswith("!"):
        raise ParseError("bailout(): main-thread test not found at the top")
    rest_ops = ops_of(st[1:], ctx, "bailout (sub-thread part)")
    main_ops = ops_of([st[0][2]], ctx, "bailout (main-thread branch)") + rest_ops

    # ---- halt()
    body = cparse.find_function_body(sig_c, "halt")[1]
    st = parse_body(body)
    susp = find_stmt(st, lambda s: s[0] == "simple" and "sigsuspend" in txt(s[1]))
    if not susp:
        raise ParseError("halt(): sigsuspend not found")
    m = re.search(r"sigsuspend \( & (\w+) \)", txt(susp[1]))
    if not m:
        raise ParseError("halt(): sigsuspend argument")
    suspend_mask_var = m.group(1)
    if not find_stmt(st, lambda s: s[0] == "simple" and txt(s[1]) == "sig = handled_signals [ caught_index ]"):
        raise ParseError("halt(): `sig = handled_signals[caught_index]` not found")
    sw = find_stmt(st, lambda s: s[0] == "switch")
    if not sw or txt(sw[1]) != "sig":
        raise ParseError("halt(): switch (sig) not found")
    items = sw[2]
    labels = {}
    for i, it in enumerate(items):
        if it[0] == "label":
            ops = []
            for nx in items[i + 1:]:
                if nx[0] == "label":
                    continue
                o = op_of(nx, ctx, "halt case " + it[1])
                ops += o
                if o and o[-1] == "OpReturn":
                    break
            labels[it[1]] = ops
    if "default" not in labels:
        raise ParseError("halt(): no default label")
    for k in labels:
        if k != "default":
            ctx.signames.add(k)

    # ---- xread / xwrite error handling (process.c)
    def on_error(fn, var, sysc):
        body = cparse.find_function_body(proc_c, fn)[1]
        st = parse_body(body)
        call = find_stmt(st, lambda s: s[0] == "simple" and txt(s[1]).startswith("%s = %s (" % (var, sysc)))
        if not call:
            raise ParseError("%s: `%s = %s(...)` not found" % (fn, var, sysc))
        chk = find_stmt(st, lambda s: s[0] == "if" and txt(s[1]) in ("- 1 == %s" % var, "%s == - 1" % var, "%s < 0" % var, "0 > %s" % var))
        if not chk:
            raise ParseError("%s: the test for a -1 result of %s() was not found" % (fn, sysc))
        if chk[3] is not None:
            raise ParseError("%s: error test has an else branch" % fn)
        return ops_of([chk[2]], ctx, fn + " error branch")

    xread_err = on_error("xread", "rd", "read")
    xwrite_err = on_error("xwrite", "wr", "write")

    # ---- call sites
    sites = []
    for src, fn in ((proc_c, "source_thread_proc"), (proc_c, "sink_thread_proc"), (proc_c, "work"),
                    (comp_c, "write_header"), (comp_c, "write_trailer"), (comp_c, "init"), (comp_c, "uninit")):
        body = cparse.find_function_body(src, fn)[1]
        for c in calls_in(body):
            if c in ("xread", "xwrite", "write_header", "write_trailer", "copy", "schedule", "failf"):
                sites.append((fn, c))
    primary_calls = calls_in(cparse.find_function_body(proc_c, "primary_thread")[1])
    main_calls = [c for c in calls_in(cparse.find_function_body(main_c, "main")[1])
                  if c in ("setup_signals", "opts_setup", "input_init", "cli", "output_init", "work", "sti",
                           "input_uninit", "close", "_exit", "failx")]
    sched_calls = calls_in(cparse.find_function_body(proc_c, "schedule")[1])
    copy_calls = calls_in(cparse.find_function_body(proc_c, "copy")[1])
    cterm = calls_in(cparse.find_function_body(proc_c, "copy_terminate")[1])

    # non-bail tail of DEF by hand (contains `if (warn) warned = 1;`)
    def tolerant_ops(stmt, where):
        items = stmt[1] if stmt[0] == "block" else [stmt]
        ops = []
        for s in items:
            if s[0] == "if" and txt(s[1]) == "warn" and s[3] is None:
                ops.append("OpNop")
            else:
                ops += op_of(s, ctx, where)
        return ops

    nobail_ops = tolerant_ops(tail[2], "DEF non-bail tail")

    # ---- emit
    for n in ("SIGUSR1", "SIGUSR2", "SIGPIPE", "SIGXFSZ"):
        ctx.signames.add(n)
    for n in ("EPIPE", "EFBIG", "EIO", "ENOSPC"):
        ctx.errnames.add(n)
    s = "(* signal and errno numbers of this platform (python signal/errno modules) *)\n"
    for n in sorted(ctx.signames):
        if not hasattr(pysignal, n):
            raise ParseError("unknown signal name %s" % n)
        s += "Definition %s : N := %d.\n" % (n, int(getattr(pysignal, n)))
    for n in sorted(ctx.errnames):
        s += "Definition %s : N := %d.\n" % (n, int(getattr(pyerrno, n)))
    for n in ("EX_OK", "EX_FAIL", "EX_WARN"):
        s += "Definition %s : N := %d.\n" % (n, ctx.consts[n])
    s += "\n(* signals.c: static tables *)\n"
    s += "Definition blocked_signals : list N := %s.\n" % coq_list(blocked)
    s += "Definition handled_signals : list N := %s.\n" % coq_list(handled)
    s += "Definition promote_set : list N := %s.\n" % promote_set
    s += """
(* operations of the functions on the failure path *)
Inductive op : Type :=
| OpNop                         (* no effect on the modelled state *)
| OpCleanup                     (* cleanup(): unlink the output file if there is one *)
| OpLockStderr | OpUnlockStderr (* flockfile/funlockfile(stderr) *)
| OpPrint                       (* log_generic(): the diagnostic reaches stderr *)
| OpUnblock (sigs : list N)     (* pthread_sigmask/sigprocmask(SIG_UNBLOCK) in the calling thread *)
| OpBlock (sigs : list N)
| OpExit (code : N)             (* _exit(code) *)
| OpPromote (sigs : list N)     (* promote(): re-raise for the process every signal of sigs pending on the caller *)
| OpRaise (sig : N)             (* xraise(sig) = kill(getpid(), sig) *)
| OpThreadExit                  (* pthread_exit() *)
| OpBailout                     (* call bailout() *)
| OpTerminate                   (* terminate(sig) with the caught signal *)
| OpReturn                      (* break / return to the caller *)
| OpFail (bail uses_errno : bool). (* a DEF() logging function; uses_errno: its x argument is errno *)

"""
    s += "(* setup_signals(): mask operations on the main thread, in order *)\n"
    s += "Definition setup_signals_ops : list op := %s.\n" % coq_list(setup_ops)
    s += "(* cli(): SIG_BLOCK of this table, old mask saved in `%s`, handlers installed for the second table *)\n" % cli_saved
    s += "Definition cli_blocks : list N := %s.\nDefinition cli_handlers : list N := %s.\n" % (cli_block, cli_handlers)
    s += "Definition halt_suspends_with_saved_mask : bool := %s.  (* sigsuspend(&%s), cli saves into %s *)\n" % (
        coq_bool(suspend_mask_var == cli_saved), suspend_mask_var, cli_saved)
    s += "\n(* halt(): switch over the caught signal, with C fall-through up to the first break *)\n"
    s += "Definition halt_cases : list (N * list op) := %s.\n" % coq_list(
        ["(%s, %s)" % (k, coq_list(v)) for k, v in labels.items() if k != "default"])
    s += "Definition halt_default : list op := %s.\n" % coq_list(labels["default"])
    s += "\n(* bailout(): main-thread branch (followed by the rest of the body) and sub-thread part *)\n"
    s += "Definition bailout_main_ops : list op := %s.\n" % coq_list(main_ops)
    s += "Definition bailout_sub_ops : list op := %s.\n" % coq_list(rest_ops)
    s += "\n(* main.c: DEF() logging macro *)\n"
    s += "Definition def_prologue : list op := %s.\n" % coq_list(prologue)
    s += "Definition def_log_cond (bail : bool) (x : N) : bool := %s.\n" % cond_coq
    s += "Definition def_log_ops : list op := %s.\n" % coq_list(log_ops)
    s += "Definition def_nobail_ops : list op := %s.\n" % coq_list(nobail_ops)
    s += "Definition def_bail_ops : list op := %s.\n" % coq_list(bail_ops)
    s += "(* rows of DEF instances: name, (has filespec, has errno arg, warn, bail, newline) *)\n"
    s += "Definition def_rows : list (string * (bool * bool * bool * bool * bool)) := [\n  %s]%%string.\n" % ";\n  ".join(
        '("%s", (%s, %s, %s, %s, %s))' % ((k,) + tuple(coq_bool(b) for b in v)) for k, v in ctx.def_rows.items())
    s += "\n(* process.c: what happens when read()/write() returns -1 *)\n"
    s += "Definition xread_on_error : list op := %s.\n" % coq_list(xread_err)
    s += "Definition xwrite_on_error : list op := %s.\n" % coq_list(xwrite_err)
    s += "\n(* who calls what (function, callee), in source order *)\n"
    s += "Definition io_sites : list (string * string) := [\n  %s]%%string.\n" % ";\n  ".join('("%s", "%s")' % x for x in sites)
    for nm, cl in (("primary_calls", primary_calls), ("main_calls", main_calls), ("schedule_calls", sched_calls),
                   ("copy_calls", copy_calls), ("copy_terminate_calls", cterm)):
        s += "Definition %s : list string := [%s]%%string.\n" % (nm, "; ".join('"%s"' % c for c in cl))
    return s


# ---------------------------------------------------------------------------
# second output: Gen/DataFailTab.v  (C07 process level: data-error call sites)
# ---------------------------------------------------------------------------
DEF_ROW_RE = r"^DEF\((\w+)\s*\((.*?)\),\s*(\w+)\s*,\s*(\w+)\s*,\s*(\d)\s*,\s*(\d)\s*,\s*(\d)\s*\)"

# files whose every logging call is listed (the code that runs during decompression)
DATA_FILES = ["src/expand.c", "src/parse.c", "src/decode.c", "src/process.c"]
LOCK_PRIMS = ("sched_lock", "sched_unlock")


def def_rows_raw(main_c):
    """name -> (f argument text, x argument text, warn, bail, nl) of every DEF() instance"""
    rows = {}
    for m in re.finditer(DEF_ROW_RE, cparse.strip_comments(main_c), re.M | re.S):
        rows[m.group(1)] = (m.group(3), m.group(4), m.group(5) != "0", m.group(6) != "0", m.group(7) != "0")
    return rows


def strip_cpp(text):
    """drop preprocessor lines (with continuations); both branches of #if stay"""
    out = []
    cont = False
    for line in text.split("\n"):
        if cont or re.match(r"\s*#", line):
            cont = line.rstrip().endswith("\\")
            out.append("")
        else:
            out.append(line)
    return "\n".join(out)


def c_string_value(toks, where):
    """adjacent string literal tokens -> python string (simple escapes only)"""
    if not toks or any(k != "str" for k, _ in toks):
        raise ParseError("%s: format argument `%s` is not a string literal" % (where, txt(toks)))
    val = ""
    for _, v in toks:
        body = v[1:-1]
        i = 0
        while i < len(body):
            ch = body[i]
            if ch == "\\":
                i += 1
                esc = body[i]
                if esc in ('"', "\\", "'"):
                    val += esc
                else:
                    raise ParseError("%s: escape \\%s in a diagnostic format is not supported" % (where, esc))
            else:
                val += ch
            i += 1
    for ch in val:
        if not (32 <= ord(ch) < 127):
            raise ParseError("%s: non-printable character in a diagnostic format" % where)
    return val


def coq_string(s):
    return '"' + s.replace('"', '""') + '"'


def functions_of(src):
    """(name, body text) of every function defined in the file: the name starts a line and the
    opening brace is on a line of its own (the style of the lbzip2 sources)"""
    src = strip_cpp(cparse.strip_comments(src))
    out = []
    for m in re.finditer(r"^(\w+)\s*\(([^;{}]*?)\)\s*\n\{", src, re.M):
        name = m.group(1)
        start = m.end() - 1
        depth = 0
        j = start
        while j < len(src):
            if src[j] == "{":
                depth += 1
            elif src[j] == "}":
                depth -= 1
                if depth == 0:
                    break
            j += 1
        if depth != 0:
            raise ParseError("unbalanced braces in function %s" % name)
        out.append((name, src[start + 1:j], m.start(), j))
    return src, out


def walk_calls(stmts, names, conds, found):
    """collect (call name, arg token lists, statement, enclosing conditions) of statement-level
    calls of one of `names`"""
    for st in stmts:
        k = st[0]
        if k == "simple":
            c = call_of(st[1])
            if c and c[0] in names:
                found.append((c[0], c[1], st, list(conds)))
        elif k == "block":
            walk_calls(st[1], names, conds, found)
        elif k == "if":
            walk_calls([st[2]], names, conds + [txt(st[1])], found)
            if st[3] is not None:
                walk_calls([st[3]], names, conds + ["! ( %s )" % txt(st[1])], found)
        elif k == "loop":
            walk_calls([st[3]], names, conds + ["in loop: %s" % txt(st[2])], found)
        elif k == "switch":
            lab = "?"
            for it in st[2]:
                if it[0] == "label":
                    lab = it[1]
                else:
                    walk_calls([it], names, conds + ["%s is %s" % (txt(st[1]), lab)], found)


def count_ids(text, names):
    n = {}
    toks = cparse.tokenize(text)
    for i, (k, v) in enumerate(toks):
        if k == "id" and v in names and i + 1 < len(toks) and toks[i + 1] == ("op", "("):
            n[v] = n.get(v, 0) + 1
    return n


def struct_init_ids(src, pattern, what):
    """identifiers/strings of a brace initialiser found by regex `pattern` (which ends at the `{`)"""
    src = cparse.strip_comments(src)
    m = re.search(pattern, src)
    if not m:
        raise ParseError("%s not found" % what)
    start = m.end() - 1
    depth = 0
    j = start
    while True:
        if src[j] == "{":
            depth += 1
        elif src[j] == "}":
            depth -= 1
            if depth == 0:
                break
        j += 1
    return cparse.tokenize(src[start:j + 1])


def gen_datafail(repo):
    def read(rel):
        with open("%s/%s" % (repo, rel), encoding="latin-1") as f:
            return f.read()

    main_c = read("src/main.c")
    proc_c = read("src/process.c")
    exp_c = read("src/expand.c")
    sig_c = read("src/signals.c")
    rows = def_rows_raw(main_c)
    for need in ("failf", "fail", "warn", "warnf", "info"):
        if need not in rows:
            raise ParseError("DEF row for %s not found" % need)
    ctx = Ctx()
    for k, (f, x, w, b, nl) in rows.items():
        if f not in ("0", "f") or x not in ("0", "x"):
            raise ParseError("DEF row %s: filespec/errno arguments `%s`/`%s` are not 0 or the parameter" % (k, f, x))
        ctx.def_rows[k] = (f != "0", x != "0", w, b, nl)
    dsig = cparse.find_defines(sig_c)
    dmain = cparse.find_defines(main_c)
    for nm, d in (("EX_FAIL", dsig), ("EX_OK", dmain), ("EX_WARN", dmain)):
        if nm not in d or d[nm][0] is not None:
            raise ParseError("%s not found" % nm)
        ctx.consts[nm] = cparse.eval_const(cparse.parse_expr(d[nm][1]), {})

    # ---- expansion task list and callbacks (expand.c)
    tl = struct_init_ids(exp_c, r"\bstruct\s+task\s+task_list\s*\[\s*\]\s*=\s*\{", "expand.c task_list[]")
    tasks = []
    i = 1
    while i < len(tl) - 1:
        if tl[i] == ("op", ","):
            i += 1
            continue
        if tl[i] != ("op", "{"):
            raise ParseError("task_list: entry does not start with `{`: %r" % (tl[i],))
        ent = []
        i += 1
        while tl[i] != ("op", "}"):
            if tl[i] != ("op", ","):
                ent.append(tl[i])
            i += 1
        i += 1
        if len(ent) != 3:
            raise ParseError("task_list: entry with %d fields" % len(ent))
        if ent[0] == ("id", "NULL"):
            if ent[1] != ("id", "NULL") or ent[2] != ("id", "NULL"):
                raise ParseError("task_list: terminator is not all NULL")
            continue
        if ent[0][0] != "str" or ent[1][0] != "id" or ent[2][0] != "id":
            raise ParseError("task_list: entry %r not understood" % (ent,))
        tasks.append((ent[0][1][1:-1], ent[1][1], ent[2][1]))
    if not tasks:
        raise ParseError("task_list is empty")
    pr = struct_init_ids(exp_c, r"\bconst\s+struct\s+process\s+expansion\s*=\s*\{", "expand.c `expansion`")
    fields = [v for k, v in pr if k == "id"]
    if len(fields) != 6 or fields[0] != "task_list":
        raise ParseError("`expansion` initialiser: expected task_list, init, uninit, finished, on_input, on_written; got %r" % fields)
    cb_init, cb_uninit, cb_fin, cb_in, cb_out = fields[1:]
    task_run = {t[2] for t in tasks}
    task_ready = {t[1] for t in tasks}

    # ---- worker_thread_proc / main() / work() call order
    worker_calls = calls_in(cparse.find_function_body(proc_c, "worker_thread_proc")[1])
    main_body = cparse.find_function_body(main_c, "main")[1]
    if "work" not in calls_in(main_body):
        raise ParseError("main() does not call work()")
    work_calls = [c for c in calls_in(strip_cpp(cparse.find_function_body(proc_c, "work")[1]))
                  if c in ("xread", "xwrite", "schedule", "copy") or c in rows]

    # ---- main(): final exit status
    mst = parse_body(strip_cpp(main_body))
    ex = [s for s in mst if s[0] == "simple" and s[1] and s[1][0] == ("id", "_exit")]
    if len(ex) != 1:
        raise ParseError("main(): expected exactly one top-level _exit()")
    m = re.match(r"_exit \( (\w+) \? (\w+) : (\w+) \)$", txt(ex[0][1]))
    if not m or m.group(1) != "warned" or m.group(2) not in ctx.consts or m.group(3) not in ctx.consts:
        raise ParseError("main(): final `%s` is not _exit(warned ? EX_x : EX_y)" % txt(ex[0][1]))
    exit_warned, exit_clean = m.group(2), m.group(3)
    if mst[-1] is not ex[0]:
        raise ParseError("main(): the _exit() is not the last statement")

    # ---- log_generic(): output pieces
    lg = parse_body(cparse.find_function_body(main_c, "log_generic")[1])
    if len(lg) != 1 or lg[0][0] != "if" or lg[0][3] is not None or lg[0][2][0] != "simple" or txt(lg[0][2][1]) != "bailout ( )":
        raise ParseError("log_generic(): body is not `if (<output fails>) bailout();`")
    terms = []
    cur = []
    depth = 0
    for k, v in lg[0][1]:
        if (k, v) == ("op", "("):
            depth += 1
        if (k, v) == ("op", ")"):
            depth -= 1
        if (k, v) == ("op", "||") and depth == 0:
            terms.append(cur)
            cur = []
        else:
            cur.append((k, v))
    terms.append(cur)
    pieces = []
    for t in terms:
        s = txt(t)
        m1 = re.match(r'0 > fprintf \( stderr , ("(?:[^"\\]|\\.)*") , pname \)$', s)
        m2 = re.match(r'\( fs && 0 > fprintf \( stderr , ("(?:[^"\\]|\\.)*") , fs -> sep , fs -> fmt , fs -> sep \) \)$', s)
        m3 = re.match(r'\( 0 != code && 0 > fprintf \( stderr , ("(?:[^"\\]|\\.)*") , strerror \( code \) \) \)$', s)
        if m1:
            pieces.append("LpPname %s" % coq_string(c_string_value([("str", m1.group(1))], "log_generic")))
        elif m2:
            pieces.append("LpFilespec %s" % coq_string(c_string_value([("str", m2.group(1))], "log_generic")))
        elif s == "0 > vfprintf ( stderr , fmt , args )":
            pieces.append("LpMessage")
        elif m3:
            pieces.append("LpStrerror %s" % coq_string(c_string_value([("str", m3.group(1))], "log_generic")))
        elif s == r'( nl && 0 > fprintf ( stderr , "\n" ) )':
            pieces.append("LpNewline")
        elif s == "0 != fflush ( stderr )":
            pieces.append("LpFlush")
        else:
            raise ParseError("log_generic(): output step `%s` not understood" % s)

    # ---- every logging call of the decompression code
    names = set(rows)
    all_calls = []      # (file, func, logfn)
    all_effects = []    # (file, func, [lock operations / callees with lock operations])
    sites = []
    for rel in DATA_FILES:
        src = read(rel)
        stripped, funcs = functions_of(src)
        total = count_ids(stripped, names)
        inside = {}
        # scheduler-lock operations of every function of this file, in source order (direct calls,
        # and calls of functions of this file that have such operations themselves)
        direct = {}
        for fname, body, _, _ in funcs:
            seq = [c for c in calls_in(body) if c in LOCK_PRIMS]
            if seq:
                direct[fname] = seq
        effects = {}
        for fname, body, _, _ in funcs:
            seq = [c for c in calls_in(body) if c in LOCK_PRIMS or (c in direct and c != fname)]
            if seq:
                effects[fname] = seq
        for k, v in effects.items():
            all_effects.append((rel, k, v))
        for fname, body, _, _ in funcs:
            cnt = count_ids(body, names)
            if not cnt:
                continue
            found = []
            walk_calls(parse_body(body), names, [], found)
            got = {}
            for c in found:
                got[c[0]] = got.get(c[0], 0) + 1
            if got != cnt:
                raise ParseError("%s %s(): %r logging calls in the text but %r as plain call statements" % (rel, fname, cnt, got))
            for k, v in cnt.items():
                inside[k] = inside.get(k, 0) + v
            order = calls_in(body)
            logpos = [i for i, c in enumerate(order) if c in names]
            if len(logpos) != len(found):
                raise ParseError("%s %s(): call order list and statement walk disagree" % (rel, fname))
            for (logfn, args, st, conds), pos in zip(found, logpos):
                if order[pos] != logfn:
                    raise ParseError("%s %s(): call order list and statement walk disagree on %s" % (rel, fname, logfn))
                lock_trace = [c for c in order[:pos] if c in LOCK_PRIMS or c in effects]
                for c in lock_trace:
                    if c in effects and any(x not in LOCK_PRIMS for x in effects[c]):
                        raise ParseError("%s %s(): callee %s changes the scheduler lock through further callees" % (rel, fname, c))
                all_calls.append((rel, fname, logfn))
                f, x, warn, bail, nl = ctx.def_rows[logfn]
                if x or not (warn or bail):
                    continue            # OS error (errno argument: C21) or informational message
                where = "%s %s() %s" % (rel, fname, logfn)
                a = [txt(t) for t in args]
                ai = 0
                if f:
                    if not a or a[0] != "& ispec":
                        raise ParseError("%s: filespec argument `%s` is not &ispec" % (where, a[0] if a else ""))
                    ai = 1
                if ai >= len(args):
                    raise ParseError("%s: no format argument" % where)
                fmt = c_string_value(args[ai], where)
                rest = args[ai + 1:]
                dirs = re.findall(r"%(.)", fmt)
                if any(d != "s" for d in dirs) or len(dirs) != len(rest) or len(rest) > 1:
                    raise ParseError("%s: format `%s` with %d arguments not understood" % (where, fmt, len(rest)))
                arg = "ArgNone"
                if rest:
                    r = txt(rest[0])
                    mc = re.match(r"err2str \( (ERR_\w+) \)$", r)
                    mv = re.match(r"err2str \( (\w+(?: -> \w+)?) \)$", r)
                    if mc:
                        arg = "ArgConst %s" % coq_string(mc.group(1))
                    elif mv:
                        arg = "ArgVar %s" % coq_string(mv.group(1).replace(" ", ""))
                    else:
                        raise ParseError("%s: message argument `%s` is not err2str(<code>)" % (where, r))
                if fname == "work" and rel == "src/process.c":
                    thread = "ThMain"
                elif rel == "src/expand.c" and fname in task_run:
                    thread = "ThWorkerTask"
                elif rel == "src/expand.c" and fname in (cb_init, cb_uninit):
                    thread = "ThPrimary"
                elif rel == "src/expand.c" and fname == cb_in:
                    thread = "ThSource"
                elif rel == "src/expand.c" and fname == cb_out:
                    thread = "ThSink"
                else:
                    raise ParseError("%s: cannot tell which thread executes %s()" % (where, fname))
                ops = op_of(st, ctx, where)
                sites.append(dict(file=rel, func=fname, logfn=logfn, thread=thread, ops=ops, warn=warn, bail=bail,
                                  fs=f, nl=nl, fmt=fmt, arg=arg, conds=conds, lock_trace=lock_trace))
        for k, v in total.items():
            if inside.get(k, 0) != v:
                raise ParseError("%s: %d calls of %s in the file but %d inside recognised function bodies" % (rel, v, k, inside.get(k, 0)))

    # ---- emit
    s = "From LBZ Require Import Gen.IoFailTab.\nLocal Open Scope string_scope.\n\n"
    s += "(* which thread executes a call site *)\n"
    s += "Inductive site_thread := ThMain | ThWorkerTask | ThPrimary | ThSource | ThSink.\n"
    s += "(* the %s argument of the message *)\n"
    s += "Inductive site_arg := ArgNone | ArgConst (name : string) | ArgVar (expr : string).\n"
    s += """Record data_site := mk_data_site {
  ds_file : string; ds_func : string; ds_logfn : string;
  ds_thread : site_thread;
  ds_ops : list op;          (* the call statement as operations of Gen/IoFailTab.v *)
  ds_warn : bool; ds_bail : bool;   (* columns of the DEF() row *)
  ds_filespec : bool;        (* first argument is &ispec *)
  ds_nl : bool;
  ds_fmt : string; ds_arg : site_arg;
  ds_conds : list string;    (* enclosing conditions, outermost first (documentation) *)
  ds_lock_trace : list string (* scheduler-lock operations of the enclosing function that precede the call
                                 in source order: sched_lock / sched_unlock / callees listed in lock_effects *)
}.

"""
    s += "(* calls of bail/warn logging functions without errno argument in %s *)\n" % " ".join(DATA_FILES)
    s += "Definition data_sites : list data_site := [\n  %s].\n\n" % ";\n  ".join(
        "mk_data_site %s %s %s %s %s %s %s %s %s\n    %s (%s)\n    %s %s" % (
            coq_string(d["file"]), coq_string(d["func"]), coq_string(d["logfn"]), d["thread"], coq_list(d["ops"]),
            coq_bool(d["warn"]), coq_bool(d["bail"]), coq_bool(d["fs"]), coq_bool(d["nl"]),
            coq_string(d["fmt"]), d["arg"], coq_list([coq_string(c) for c in d["conds"]]), coq_list([coq_string(c) for c in d["lock_trace"]]))
        for d in sites)
    s += "(* every call of a DEF() logging function in those files: (file, function, logging function) *)\n"
    s += "Definition decomp_log_calls : list (string * string * string) := [\n  %s].\n\n" % ";\n  ".join(
        "(%s, %s, %s)" % tuple(coq_string(x) for x in c) for c in all_calls)
    s += "(* functions of those files that operate the scheduler lock: their sched_lock/sched_unlock calls and\n"
    s += "   calls of other such functions, in source order *)\n"
    s += "Definition lock_effects : list (string * list string) := [\n  %s].\n\n" % ";\n  ".join(
        "(%s, %s)" % (coq_string(f), coq_list([coq_string(c) for c in v])) for _, f, v in all_effects)
    s += "(* the literal filespec / errno arguments of the DEF rows *)\n"
    s += "Definition def_row_args : list (string * (string * string)) := [%s].\n\n" % "; ".join(
        "(%s, (%s, %s))" % (coq_string(k), coq_string(v[0]), coq_string(v[1])) for k, v in rows.items())
    s += "(* expand.c: task_list[] (name, ready, run) and the callbacks of `expansion` *)\n"
    s += "Definition expansion_tasks : list (string * string * string) := [%s].\n" % "; ".join(
        "(%s, %s, %s)" % tuple(coq_string(x) for x in t) for t in tasks)
    s += "Definition expansion_callbacks : list string := [%s].  (* init, uninit, finished, on_input_avail, on_written *)\n" % "; ".join(
        coq_string(x) for x in (cb_init, cb_uninit, cb_fin, cb_in, cb_out))
    s += "(* process.c worker_thread_proc(): calls in source order *)\n"
    s += "Definition worker_calls : list string := [%s].\n" % "; ".join(coq_string(c) for c in worker_calls)
    s += "(* process.c work(): I/O, pipeline and logging calls in source order *)\n"
    s += "Definition work_calls : list string := [%s].\n\n" % "; ".join(coq_string(c) for c in work_calls)
    s += "(* main.c log_generic(): what is written to stderr, in order; any failure -> bailout() *)\n"
    s += "Inductive log_piece :=\n| LpPname (fmt : string)      (* fprintf(stderr, fmt, pname) *)\n"
    s += "| LpFilespec (fmt : string)   (* if (fs) fprintf(stderr, fmt, fs->sep, fs->fmt, fs->sep) *)\n"
    s += "| LpMessage                   (* vfprintf(stderr, fmt, args) *)\n"
    s += "| LpStrerror (fmt : string)   (* if (0 != code) fprintf(stderr, fmt, strerror(code)) *)\n"
    s += "| LpNewline                   (* if (nl) fprintf(stderr, \"\\n\") *)\n| LpFlush.\n"
    s += "Definition log_generic_pieces : list log_piece := %s.\n\n" % coq_list(pieces)
    s += "(* main(): the last statement is _exit(warned ? %s : %s) *)\n" % (exit_warned, exit_clean)
    s += "Definition final_status (warned : bool) : N := if warned then %s else %s.\n" % (exit_warned, exit_clean)
    return s


def generate(repo, out):
    out.write("IoFailTab.v", "src/signals.c src/main.c src/process.c src/compress.c", lambda: gen_iofail(repo))
    out.write("DataFailTab.v", "src/expand.c src/parse.c src/decode.c src/process.c src/main.c src/signals.c", lambda: gen_datafail(repo))


if __name__ == "__main__":
    import sys
    if len(sys.argv) > 2 and sys.argv[2] == "data":
        print(gen_datafail(sys.argv[1]))
    else:
        print(gen_iofail(sys.argv[1] if len(sys.argv) > 1 else "/repo"))
