"""Translator plugin for the IoFail area (property C21): coq/Gen/IoFailTab.v.

Transcribes from the current source (no analysis here):
  signals.c  EX_FAIL; blocked_signals[], handled_signals[]; which set setup_signals()
             blocks; what cli() blocks/handles/saves; the mask given to sigsuspend() and the
             switch of halt(); promote(); both branches of bailout() as op lists
  main.c     EX_OK, EX_WARN; the DEF() logging macro: prologue, the condition under which
             the message is printed (as a Gallina boolean function of `bail` and the errno
             argument `x`), the two tails; the flag rows of every DEF instance; call order
             in main()
  process.c  what xread()/xwrite() do when read()/write() returns -1; which functions call
             xread/xwrite (source/sink thread, work()); call order of primary_thread()
  compress.c write_header()/write_trailer() use xwrite; init()/uninit() call them

Statements that are not recognised make the translation FAIL (broken tie), they are never
skipped.  Signal and errno numbers come from the python `signal`/`errno` modules of the
platform the check runs on (the same platform the binary is built for).
"""
import errno as pyerrno
import re
import signal as pysignal

import cparse
from cparse import ParseError


# ---------------------------------------------------------------------------
# a tiny statement parser on cparse tokens
# ---------------------------------------------------------------------------
class StmtParser:
    def __init__(self, toks):
        self.t = toks
        self.i = 0

    def peek(self, k=0):
        j = self.i + k
        return self.t[j] if j < len(self.t) else ("eof", "")

    def eat(self, v=None):
        k, val = self.peek()
        if v is not None and val != v:
            raise ParseError("expected %r got %r" % (v, val))
        self.i += 1
        return k, val

    def paren(self):
        """consume a balanced ( ... ) and return the inner tokens"""
        self.eat("(")
        depth = 1
        out = []
        while True:
            k, v = self.eat()
            if k == "eof":
                raise ParseError("unbalanced parenthesis")
            if (k, v) == ("op", "("):
                depth += 1
            elif (k, v) == ("op", ")"):
                depth -= 1
                if depth == 0:
                    return out
            out.append((k, v))

    def block_items(self):
        self.eat("{")
        items = []
        while self.peek() != ("op", "}"):
            if self.peek()[0] == "eof":
                raise ParseError("unbalanced brace")
            items.append(self.stmt())
        self.eat("}")
        return items

    def stmt(self):
        k, v = self.peek()
        if (k, v) == ("op", "{"):
            return ("block", self.block_items())
        if (k, v) == ("op", ";"):
            self.eat()
            return ("empty",)
        if k == "id" and v == "if":
            self.eat()
            cond = self.paren()
            th = self.stmt()
            el = None
            if self.peek() == ("id", "else"):
                self.eat()
                el = self.stmt()
            return ("if", cond, th, el)
        if k == "id" and v in ("while", "for", "foreach"):
            self.eat()
            head = self.paren()
            body = self.stmt()
            return ("loop", v, head, body)
        if k == "id" and v == "do":
            self.eat()
            body = self.stmt()
            self.eat("while")
            head = self.paren()
            self.eat(";")
            return ("loop", "do", head, body)
        if k == "id" and v == "switch":
            self.eat()
            head = self.paren()
            self.eat("{")
            items = []          # flat list of ("label", toks) / statements
            while self.peek() != ("op", "}"):
                if self.peek() == ("id", "default"):
                    self.eat()
                    self.eat(":")
                    items.append(("label", "default"))
                elif self.peek() == ("id", "case"):
                    self.eat()
                    lab = []
                    while self.peek() != ("op", ":"):
                        lab.append(self.eat())
                    self.eat(":")
                    items.append(("label", " ".join(x[1] for x in lab)))
                else:
                    items.append(self.stmt())
            self.eat("}")
            return ("switch", head, items)
        # expression / declaration statement up to ';'
        toks = []
        depth = 0
        while True:
            k, v = self.eat()
            if k == "eof":
                raise ParseError("statement without ';'")
            if (k, v) == ("op", ";") and depth == 0:
                break
            if (k, v) in (("op", "("), ("op", "{"), ("op", "[")):
                depth += 1
            if (k, v) in (("op", ")"), ("op", "}"), ("op", "]")):
                depth -= 1
            toks.append((k, v))
        return ("simple", toks)


def parse_body(text):
    p = StmtParser(cparse.tokenize(text))
    items = []
    while p.peek()[0] != "eof":
        items.append(p.stmt())
    return items


def txt(toks):
    return " ".join(v for _, v in toks)


TYPE_WORDS = {"int", "unsigned", "const", "char", "sigset_t", "ssize_t", "size_t", "struct", "static",
              "va_list", "bool", "long", "uint8_t", "uint32_t", "void", "pthread_t"}


def is_decl(toks):
    return bool(toks) and toks[0][0] == "id" and toks[0][1] in TYPE_WORDS


def call_of(toks):
    """if toks is `name ( args )` return (name, [arg token lists]) else None"""
    if len(toks) >= 3 and toks[0][0] == "id" and toks[1] == ("op", "(") and toks[-1] == ("op", ")"):
        args = []
        cur = []
        depth = 0
        for k, v in toks[2:-1]:
            if (k, v) == ("op", "(") or (k, v) == ("op", "["):
                depth += 1
            if (k, v) == ("op", ")") or (k, v) == ("op", "]"):
                depth -= 1
                if depth < 0:
                    return None
            if (k, v) == ("op", ",") and depth == 0:
                args.append(cur)
                cur = []
            else:
                cur.append((k, v))
        if cur or args:
            args.append(cur)
        return toks[0][1], args
    return None


class Ctx:
    """names known to the op translator"""

    def __init__(self):
        self.sets = {}          # sigset variable -> table name
        self.consts = {}        # EX_* -> int
        self.def_rows = {}      # logging function name -> (f, x, warn, bail, nl)
        self.signames = set()
        self.errnames = set()


def ops_of(stmts, ctx, where):
    out = []
    for st in stmts:
        out += op_of(st, ctx, where)
    return out


def op_of(st, ctx, where):
    kind = st[0]
    if kind == "empty":
        return []
    if kind == "block":
        return ops_of(st[1], ctx, where)
    if kind != "simple":
        raise ParseError("%s: control statement `%s ...` not expected here" % (where, kind))
    toks = st[1]
    s = txt(toks)
    if is_decl(toks) and "(" not in s:
        return ["OpNop"]
    if s == "break":
        return ["OpReturn"]
    if s in ("warned = 1",):
        return ["OpNop"]
    c = call_of(toks)
    if not c:
        raise ParseError("%s: unrecognised statement `%s`" % (where, s))
    name, args = c
    a = [txt(x) for x in args]
    if name == "cleanup" and not a:
        return ["OpCleanup"]
    if name in ("gcov_flush", "va_start", "va_end", "assert", "Trace"):
        return ["OpNop"]
    if name == "xmask" and len(a) == 3:
        m = re.match(r"& (\w+)$", a[1])
        if not m or m.group(1) not in ctx.sets:
            raise ParseError("%s: xmask on unknown set `%s`" % (where, a[1]))
        tab = ctx.sets[m.group(1)]
        if a[0] == "SIG_UNBLOCK":
            return ["OpUnblock %s" % tab]
        if a[0] == "SIG_BLOCK":
            return ["OpBlock %s" % tab]
        raise ParseError("%s: xmask how=%s" % (where, a[0]))
    if name == "_exit" and len(a) == 1:
        if a[0] in ctx.consts:
            return ["(OpExit %s)" % a[0]]
        if re.match(r"\d+$", a[0]):
            return ["(OpExit %s)" % a[0]]
        raise ParseError("%s: _exit(%s)" % (where, a[0]))
    if name == "promote" and not a:
        return ["(OpPromote promote_set)"]
    if name == "xraise" and len(a) == 1 and re.match(r"SIG[A-Z0-9]+$", a[0]):
        ctx.signames.add(a[0])
        return ["(OpRaise %s)" % a[0]]
    if name == "pthread_exit":
        return ["OpThreadExit"]
    if name == "bailout" and not a:
        return ["OpBailout"]
    if name == "terminate" and a == ["sig"]:
        return ["OpTerminate"]
    if name == "flockfile" and a == ["stderr"]:
        return ["OpLockStderr"]
    if name == "funlockfile" and a == ["stderr"]:
        return ["OpUnlockStderr"]
    if name == "log_generic":
        return ["OpPrint"]
    if name in ctx.def_rows:
        f, x, warn, bail, nl = ctx.def_rows[name]
        uses_errno = False
        if x:
            xi = 1 if f else 0
            if xi >= len(a):
                raise ParseError("%s: %s called with too few arguments" % (where, name))
            uses_errno = a[xi] == "errno"
            if not uses_errno and not re.match(r"\d+$|err$", a[xi]):
                raise ParseError("%s: errno argument `%s` of %s not understood" % (where, a[xi], name))
        return ["(OpFail %s %s)" % (coq_bool(bail), coq_bool(uses_errno))]
    raise ParseError("%s: unrecognised call `%s`" % (where, s))


def coq_bool(b):
    return "true" if b else "false"


def coq_list(xs):
    return "[" + "; ".join(xs) + "]"


def cond_to_coq(e, ctx):
    """C condition over `bail` (bool) and `x` (errno, N) -> Gallina bool expression."""
    k = e[0]
    if k == "id":
        if e[1] == "bail":
            return "bail"
        raise ParseError("identifier %s used as a truth value in the DEF condition" % e[1])
    if k == "num":
        return "true" if e[1] else "false"
    if k == "un" and e[1] == "!":
        return "(negb %s)" % cond_to_coq(e[2], ctx)
    if k == "bin" and e[1] in ("&&", "||"):
        return "(%s %s %s)" % (cond_to_coq(e[2], ctx), e[1], cond_to_coq(e[3], ctx))
    if k == "bin" and e[1] in ("==", "!="):
        def val(t):
            if t[0] == "id" and t[1] == "x":
                return "x"
            if t[0] == "id" and hasattr(pyerrno, t[1]):
                ctx.errnames.add(t[1])
                return t[1]
            if t[0] == "num":
                return str(t[1])
            raise ParseError("operand %r in the DEF condition" % (t,))
        r = "(N.eqb %s %s)" % (val(e[2]), val(e[3]))
        return r if e[1] == "==" else "(negb %s)" % r
    raise ParseError("DEF condition not understood: %r" % (e,))


def names_of_array(src, name):
    d, t = cparse.find_array(src, name)
    out = []
    for v in t:
        if isinstance(v, tuple) and v[0] == "id":
            out.append(v[1])
        else:
            raise ParseError("%s: entry %r is not a signal name" % (name, v))
    return out


def find_macro_text(src, name):
    src = cparse.strip_comments(src)
    lines = src.split("\n")
    for i, line in enumerate(lines):
        if re.match(r"\s*#\s*define\s+%s\s*\(" % name, line):
            buf = line
            while buf.rstrip().endswith("\\") and i + 1 < len(lines):
                i += 1
                buf = buf.rstrip()[:-1] + "\n" + lines[i]
            m = re.match(r"\s*#\s*define\s+%s\s*\(([^)]*)\)(.*)$" % name, buf, re.S)
            return [p.strip() for p in m.group(1).split(",")], m.group(2)
    raise ParseError("macro %s not found" % name)


def calls_in(body_text):
    """ordered list of `callee` / `callee(FIRSTARG)` for calls appearing in a body"""
    toks = cparse.tokenize(body_text)
    out = []
    for i, (k, v) in enumerate(toks):
        if k == "id" and i + 1 < len(toks) and toks[i + 1] == ("op", "(") and \
           v not in ("if", "while", "for", "switch", "return", "sizeof", "foreach", "assert"):
            name = v
            if i >= 2 and toks[i - 1] == ("op", "->") and toks[i - 2][0] == "id":
                name = toks[i - 2][1] + "->" + v
            if v == "xraise" and i + 2 < len(toks):
                name = "xraise(%s)" % toks[i + 2][1]
            out.append(name)
    return out


def find_stmt(stmts, pred):
    """depth-first search for a statement satisfying pred"""
    for st in stmts:
        if pred(st):
            return st
        subs = []
        if st[0] == "block":
            subs = st[1]
        elif st[0] == "if":
            subs = [st[2]] + ([st[3]] if st[3] else [])
        elif st[0] == "loop":
            subs = [st[3]]
        elif st[0] == "switch":
            subs = [x for x in st[2] if x[0] != "label"]
        r = find_stmt(subs, pred)
        if r:
            return r
    return None


def gen_iofail(repo):
    def read(rel):
        with open("%s/%s" % (repo, rel), encoding="latin-1") as f:
            return f.read()

    sig_c = read("src/signals.c")
    main_c = read("src/main.c")
    proc_c = read("src/process.c")
    comp_c = read("src/compress.c")
    ctx = Ctx()

    # ---- constants
    dsig = cparse.find_defines(sig_c)
    dmain = cparse.find_defines(main_c)
    for nm, d in (("EX_FAIL", dsig), ("EX_OK", dmain), ("EX_WARN", dmain)):
        if nm not in d or d[nm][0] is not None:
            raise ParseError("%s not found" % nm)
        ctx.consts[nm] = cparse.eval_const(cparse.parse_expr(d[nm][1]), {})

    blocked = names_of_array(sig_c, "blocked_signals")
    handled = names_of_array(sig_c, "handled_signals")
    for n in blocked + handled:
        ctx.signames.add(n)

    # ---- setup_signals: which table feeds which sigset, what is blocked
    body = cparse.find_function_body(sig_c, "setup_signals")[1]
    st = parse_body(body)
    for s in st:
        if s[0] == "loop" and s[1] == "foreach":
            m = re.match(r"sig , (\w+)$", txt(s[2]))
            b = s[3]
            bt = txt(b[1]) if b[0] == "simple" else ""
            m2 = re.match(r"xadd \( & (\w+) , \* sig \)$", bt)
            if not m or not m2:
                raise ParseError("setup_signals: foreach not understood: %s / %s" % (txt(s[2]), bt))
            ctx.sets[m2.group(1)] = m.group(1)
    if ctx.sets.get("blocked") != "blocked_signals" or ctx.sets.get("handled") != "handled_signals":
        raise ParseError("setup_signals: sigset/table association changed: %r" % ctx.sets)
    setup_ops = []
    for s in st:
        if s[0] == "simple":
            c = call_of(s[1])
            if c and c[0] == "xmask":
                setup_ops += op_of(s, ctx, "setup_signals")
        if s[0] == "if" and "sigprocmask" in txt(s[1]):
            m = re.match(r"sigprocmask \( (\w+) , & (\w+) , NULL \)$", txt(s[1]))
            if not m or m.group(2) not in ctx.sets:
                raise ParseError("setup_signals: sigprocmask not understood")
            setup_ops.append("%s %s" % ({"SIG_UNBLOCK": "OpUnblock", "SIG_BLOCK": "OpBlock"}[m.group(1)], ctx.sets[m.group(2)]))

    # ---- cli(): blocks `handled`, saves old mask, installs handlers
    body = cparse.find_function_body(sig_c, "cli")[1]
    st = parse_body(body)
    cli_block = None
    cli_saved = None
    cli_handlers = None
    for s in st:
        if s[0] == "simple":
            c = call_of(s[1])
            if c and c[0] == "xmask":
                a = [txt(x) for x in c[1]]
                m = re.match(r"& (\w+)$", a[1])
                if a[0] != "SIG_BLOCK" or not m or m.group(1) not in ctx.sets:
                    raise ParseError("cli: xmask not understood")
                cli_block = ctx.sets[m.group(1)]
                m3 = re.match(r"& (\w+)$", a[2])
                cli_saved = m3.group(1) if m3 else None
        if s[0] == "loop" and s[1] == "foreach":
            m = re.match(r"sig , (\w+)$", txt(s[2]))
            bt = txt(s[3][1]) if s[3][0] == "simple" else ""
            if m and re.match(r"xaction \( \* sig , signal_handler \)$", bt):
                cli_handlers = m.group(1)
    if not cli_block or not cli_saved or not cli_handlers:
        raise ParseError("cli(): block/save/handler installation not found")

    # ---- promote()
    body = cparse.find_function_body(sig_c, "promote")[1]
    st = parse_body(body)
    promote_set = None
    has_pending = any(s[0] == "simple" and txt(s[1]) == "xpending ( & pending )" for s in st)
    for s in st:
        if s[0] == "loop" and s[1] == "foreach":
            m = re.match(r"sig , (\w+)$", txt(s[2]))
            b = s[3]
            if m and b[0] == "if" and txt(b[1]) == "xmember ( & pending , * sig )" and b[3] is None and \
               b[2][0] == "simple" and txt(b[2][1]) == "xraise ( * sig )":
                promote_set = m.group(1)
    if not has_pending or promote_set not in ("blocked_signals", "handled_signals"):
        raise ParseError("promote(): shape changed")

    # ---- DEF macro rows and body (main.c)
    for m in re.finditer(r"^DEF\((\w+)\s*\((.*?)\),\s*(\w+)\s*,\s*(\w+)\s*,\s*(\d)\s*,\s*(\d)\s*,\s*(\d)\s*\)", cparse.strip_comments(main_c), re.M | re.S):
        ctx.def_rows[m.group(1)] = (m.group(3) != "0", m.group(4) != "0", m.group(5) != "0", m.group(6) != "0", m.group(7) != "0")
    for need in ("failfx", "failx", "failf", "fail", "warnx"):
        if need not in ctx.def_rows:
            raise ParseError("DEF row for %s not found" % need)
    params, mtext = find_macro_text(main_c, "DEF")
    if params != ["proto", "f", "x", "warn", "bail", "nl"]:
        raise ParseError("DEF parameters changed: %r" % params)
    mtext = mtext.replace("void proto", "")
    dst = parse_body(mtext)
    if len(dst) != 1 or dst[0][0] != "block":
        raise ParseError("DEF body is not one block")
    dst = dst[0][1]
    ifs = [i for i, s in enumerate(dst) if s[0] == "if"]
    if len(ifs) != 2 or ifs[1] != len(dst) - 1 or ifs[0] + 1 != ifs[1]:
        raise ParseError("DEF body: expected `...; if (cond) log; if (!bail) ... else ...`")
    prologue = ops_of(dst[:ifs[0]], ctx, "DEF prologue")
    logif = dst[ifs[0]]
    if logif[3] is not None:
        raise ParseError("DEF: log condition has an else branch")
    log_ops = ops_of([logif[2]], ctx, "DEF log branch")
    cond_coq = cond_to_coq(cparse.parse_expr(txt(logif[1])), ctx)
    tail = dst[ifs[1]]
    if txt(tail[1]) != "! bail" or tail[3] is None:
        raise ParseError("DEF: tail is not `if (!bail) ... else ...`")
    bail_ops = ops_of([tail[3]], ctx, "DEF bail tail")

    # ---- bailout()
    body = cparse.find_function_body(sig_c, "bailout")[1]
    st = parse_body(body)
    if not st or st[0][0] != "if" or "pthread_equal" not in txt(st[0][1]) or "main_thread" not in txt(st[0][1]) \
       or st[0][3] is not None or txt(st[0][1]).startswith("!"):
        raise ParseError("bailout(): main-thread test not found at the top")
    rest_ops = ops_of(st[1:], ctx, "bailout (sub-thread part)")
    main_ops = ops_of([st[0][2]], ctx, "bailout (main-thread branch)") + rest_ops

    # ---- halt()
    body = cparse.find_function_body(sig_c, "halt")[1]
    st = parse_body(body)
    susp = find_stmt(st, lambda s: s[0] == "simple" and "sigsuspend" in txt(s[1]))
    if not susp:
        raise ParseError("halt(): sigsuspend not found")
    m = re.search(r"sigsuspend \( & (\w+) \)", txt(susp[1]))
    if not m:
        raise ParseError("halt(): sigsuspend argument")
    suspend_mask_var = m.group(1)
    if not find_stmt(st, lambda s: s[0] == "simple" and txt(s[1]) == "sig = handled_signals [ caught_index ]"):
        raise ParseError("halt(): `sig = handled_signals[caught_index]` not found")
    sw = find_stmt(st, lambda s: s[0] == "switch")
    if not sw or txt(sw[1]) != "sig":
        raise ParseError("halt(): switch (sig) not found")
    items = sw[2]
    labels = {}
    for i, it in enumerate(items):
        if it[0] == "label":
            ops = []
            for nx in items[i + 1:]:
                if nx[0] == "label":
                    continue
                o = op_of(nx, ctx, "halt case " + it[1])
                ops += o
                if o and o[-1] == "OpReturn":
                    break
            labels[it[1]] = ops
    if "default" not in labels:
        raise ParseError("halt(): no default label")
    for k in labels:
        if k != "default":
            ctx.signames.add(k)

    # ---- xread / xwrite error handling (process.c)
    def on_error(fn, var, sysc):
        body = cparse.find_function_body(proc_c, fn)[1]
        st = parse_body(body)
        call = find_stmt(st, lambda s: s[0] == "simple" and txt(s[1]).startswith("%s = %s (" % (var, sysc)))
        if not call:
            raise ParseError("%s: `%s = %s(...)` not found" % (fn, var, sysc))
        chk = find_stmt(st, lambda s: s[0] == "if" and txt(s[1]) in ("- 1 == %s" % var, "%s == - 1" % var, "%s < 0" % var, "0 > %s" % var))
        if not chk:
            raise ParseError("%s: the test for a -1 result of %s() was not found" % (fn, sysc))
        if chk[3] is not None:
            raise ParseError("%s: error test has an else branch" % fn)
        return ops_of([chk[2]], ctx, fn + " error branch")

    xread_err = on_error("xread", "rd", "read")
    xwrite_err = on_error("xwrite", "wr", "write")

    # ---- call sites
    sites = []
    for src, fn in ((proc_c, "source_thread_proc"), (proc_c, "sink_thread_proc"), (proc_c, "work"),
                    (comp_c, "write_header"), (comp_c, "write_trailer"), (comp_c, "init"), (comp_c, "uninit")):
        body = cparse.find_function_body(src, fn)[1]
        for c in calls_in(body):
            if c in ("xread", "xwrite", "write_header", "write_trailer", "copy", "schedule", "failf"):
                sites.append((fn, c))
    primary_calls = calls_in(cparse.find_function_body(proc_c, "primary_thread")[1])
    main_calls = [c for c in calls_in(cparse.find_function_body(main_c, "main")[1])
                  if c in ("setup_signals", "opts_setup", "input_init", "cli", "output_init", "work", "sti",
                           "input_uninit", "close", "_exit", "failx")]
    sched_calls = calls_in(cparse.find_function_body(proc_c, "schedule")[1])
    copy_calls = calls_in(cparse.find_function_body(proc_c, "copy")[1])
    cterm = calls_in(cparse.find_function_body(proc_c, "copy_terminate")[1])

    # non-bail tail of DEF by hand (contains `if (warn) warned = 1;`)
    def tolerant_ops(stmt, where):
        items = stmt[1] if stmt[0] == "block" else [stmt]
        ops = []
        for s in items:
            if s[0] == "if" and txt(s[1]) == "warn" and s[3] is None:
                ops.append("OpNop")
            else:
                ops += op_of(s, ctx, where)
        return ops

    nobail_ops = tolerant_ops(tail[2], "DEF non-bail tail")

    # ---- emit
    for n in ("SIGUSR1", "SIGUSR2", "SIGPIPE", "SIGXFSZ"):
        ctx.signames.add(n)
    for n in ("EPIPE", "EFBIG", "EIO", "ENOSPC"):
        ctx.errnames.add(n)
    s = "(* signal and errno numbers of this platform (python signal/errno modules) *)\n"
    for n in sorted(ctx.signames):
        if not hasattr(pysignal, n):
            raise ParseError("unknown signal name %s" % n)
        s += "Definition %s : N := %d.\n" % (n, int(getattr(pysignal, n)))
    for n in sorted(ctx.errnames):
        s += "Definition %s : N := %d.\n" % (n, int(getattr(pyerrno, n)))
    for n in ("EX_OK", "EX_FAIL", "EX_WARN"):
        s += "Definition %s : N := %d.\n" % (n, ctx.consts[n])
    s += "\n(* signals.c: static tables *)\n"
    s += "Definition blocked_signals : list N := %s.\n" % coq_list(blocked)
    s += "Definition handled_signals : list N := %s.\n" % coq_list(handled)
    s += "Definition promote_set : list N := %s.\n" % promote_set
    s += """
(* operations of the functions on the failure path *)
Inductive op : Type :=
| OpNop                         (* no effect on the modelled state *)
| OpCleanup                     (* cleanup(): unlink the output file if there is one *)
| OpLockStderr | OpUnlockStderr (* flockfile/funlockfile(stderr) *)
| OpPrint                       (* log_generic(): the diagnostic reaches stderr *)
| OpUnblock (sigs : list N)     (* pthread_sigmask/sigprocmask(SIG_UNBLOCK) in the calling thread *)
| OpBlock (sigs : list N)
| OpExit (code : N)             (* _exit(code) *)
| OpPromote (sigs : list N)     (* promote(): re-raise for the process every signal of sigs pending on the caller *)
| OpRaise (sig : N)             (* xraise(sig) = kill(getpid(), sig) *)
| OpThreadExit                  (* pthread_exit() *)
| OpBailout                     (* call bailout() *)
| OpTerminate                   (* terminate(sig) with the caught signal *)
| OpReturn                      (* break / return to the caller *)
| OpFail (bail uses_errno : bool). (* a DEF() logging function; uses_errno: its x argument is errno *)

"""
    s += "(* setup_signals(): mask operations on the main thread, in order *)\n"
    s += "Definition setup_signals_ops : list op := %s.\n" % coq_list(setup_ops)
    s += "(* cli(): SIG_BLOCK of this table, old mask saved in `%s`, handlers installed for the second table *)\n" % cli_saved
    s += "Definition cli_blocks : list N := %s.\nDefinition cli_handlers : list N := %s.\n" % (cli_block, cli_handlers)
    s += "Definition halt_suspends_with_saved_mask : bool := %s.  (* sigsuspend(&%s), cli saves into %s *)\n" % (
        coq_bool(suspend_mask_var == cli_saved), suspend_mask_var, cli_saved)
    s += "\n(* halt(): switch over the caught signal, with C fall-through up to the first break *)\n"
    s += "Definition halt_cases : list (N * list op) := %s.\n" % coq_list(
        ["(%s, %s)" % (k, coq_list(v)) for k, v in labels.items() if k != "default"])
    s += "Definition halt_default : list op := %s.\n" % coq_list(labels["default"])
    s += "\n(* bailout(): main-thread branch (followed by the rest of the body) and sub-thread part *)\n"
    s += "Definition bailout_main_ops : list op := %s.\n" % coq_list(main_ops)
    s += "Definition bailout_sub_ops : list op := %s.\n" % coq_list(rest_ops)
    s += "\n(* main.c: DEF() logging macro *)\n"
    s += "Definition def_prologue : list op := %s.\n" % coq_list(prologue)
    s += "Definition def_log_cond (bail : bool) (x : N) : bool := %s.\n" % cond_coq
    s += "Definition def_log_ops : list op := %s.\n" % coq_list(log_ops)
    s += "Definition def_nobail_ops : list op := %s.\n" % coq_list(nobail_ops)
    s += "Definition def_bail_ops : list op := %s.\n" % coq_list(bail_ops)
    s += "(* rows of DEF instances: name, (has filespec, has errno arg, warn, bail, newline) *)\n"
    s += "Definition def_rows : list (string * (bool * bool * bool * bool * bool)) := [\n  %s]%%string.\n" % ";\n  ".join(
        '("%s", (%s, %s, %s, %s, %s))' % ((k,) + tuple(coq_bool(b) for b in v)) for k, v in ctx.def_rows.items())
    s += "\n(* process.c: what happens when read()/write() returns -1 *)\n"
    s += "Definition xread_on_error : list op := %s.\n" % coq_list(xread_err)
    s += "Definition xwrite_on_error : list op := %s.\n" % coq_list(xwrite_err)
    s += "\n(* who calls what (function, callee), in source order *)\n"
    s += "Definition io_sites : list (string * string) := [\n  %s]%%string.\n" % ";\n  ".join('("%s", "%s")' % x for x in sites)
    for nm, cl in (("primary_calls", primary_calls), ("main_calls", main_calls), ("schedule_calls", sched_calls),
                   ("copy_calls", copy_calls), ("copy_terminate_calls", cterm)):
        s += "Definition %s : list string := [%s]%%string.\n" % (nm, "; ".join('"%s"' % c for c in cl))
    return s


def generate(repo, out):
    out.write("IoFailTab.v", "src/signals.c src/main.c src/process.c src/compress.c", lambda: gen_iofail(repo))


if __name__ == "__main__":
    import sys
    print(gen_iofail(sys.argv[1] if len(sys.argv) > 1 else "/repo"))
